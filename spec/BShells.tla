------------------------------ MODULE BShells ------------------------------
(* Finite-difference b-vectors on a Monkhorst-Pack mesh (C22; the stencils of C31).

   A lattice is a record  L = [G, gs, N, SS, A]:
     G   3x3 symmetric positive-definite INTEGER matrix; the Gram matrix of the reciprocal basis is G / gs
     gs  positive integer (Gram scale; 2 for the hexagonal lattices, whose Cartesian basis is irrational)
     N   the Monkhorst-Pack mesh <<N1, N2, N3>>
     SS  search_supercell (the code searches |n_i| <= SS * N_i)
     A   integer Cartesian basis (rows) with A A^T = G (gs = 1), or <<>> when the basis is not integral
   A mesh vector is an integer triple n, meaning  b = sum_i n_i B_i / N_i.  With Lc = lcm(N),
        |b|^2 = QF(n) / (gs Lc^2),     QF(n) = sum_ij n_i n_j G_ij (Lc/N_i)(Lc/N_j)   (an integer)
   so shells (sets of mesh vectors of equal length) are the level sets of the integer quadratic form QF.
   Weights are exact rationals <<num, den>> in units of the inverse squared length unit of G/gs.
   The completeness relation  sum_b w_b b b^T = 1  reads, in mesh coordinates,
        sum_b w_b n n^T = (B B^T)^-1 ,   ((B B^T)^-1)_ij = gs N_i N_j adj(G)_ij / det(G)        (Target)
   which is what the singular-value solve of BKVectors.get_shell_weights / __finite_differences.check_B1 produces
   (their Cartesian shell matrices are B^T (sum n n^T) B: linear (in)dependence and the solution are the same). *)
EXTENDS Integers, Sequences, FiniteSets, TLC, SequencesExt, FiniteSetsExt

-----------------------------------------------------------------------------
(* exact rationals: <<num, den>>, den > 0, gcd(num, den) = 1  (equality of rationals = equality of tuples) *)
Abs(x) == IF x < 0 THEN -x ELSE x
RECURSIVE Gcd(_, _)
Gcd(a, b) == IF b = 0 THEN a ELSE Gcd(b, a % b)
Lcm(a, b) == (a \div Gcd(a, b)) * b
Rat(n, d) == LET s == IF d < 0 THEN -1 ELSE 1
                 g == Gcd(Abs(n), Abs(d))
             IN <<(s * n) \div g, (s * d) \div g>>
RInt(n) == <<n, 1>>
RZero == <<0, 1>>
ROne == <<1, 1>>
IsRat(a) == a[2] > 0 /\ Gcd(Abs(a[1]), a[2]) = 1
RAdd(a, b) == LET g == Gcd(a[2], b[2]) IN Rat(a[1] * (b[2] \div g) + b[1] * (a[2] \div g), (a[2] \div g) * b[2])
RNeg(a) == <<-a[1], a[2]>>
RSub(a, b) == RAdd(a, RNeg(b))
RMul(a, b) == LET g1 == Gcd(Abs(a[1]), b[2])
                  g2 == Gcd(Abs(b[1]), a[2])
              IN Rat((a[1] \div g1) * (b[1] \div g2), (a[2] \div g2) * (b[2] \div g1))
RInv(a) == IF a[1] < 0 THEN <<-a[2], -a[1]>> ELSE <<a[2], a[1]>>
RDiv(a, b) == RMul(a, RInv(b))
RScale(k, a) == RMul(RInt(k), a)
RLeq(a, b) == a[1] * b[2] <= b[1] * a[2]
RAbs(a) == <<Abs(a[1]), a[2]>>
RSumSet(S, F(_)) == FoldSet(LAMBDA x, acc : RAdd(F(x), acc), RZero, S)
ISumSet(S, F(_)) == FoldSet(LAMBDA x, acc : F(x) + acc, 0, S)

-----------------------------------------------------------------------------
(* integer 3-vectors and 3x3 matrices (tuples) *)
I3 == 1..3
VNeg(n) == <<-n[1], -n[2], -n[3]>>
VAdd(a, b) == <<a[1] + b[1], a[2] + b[2], a[3] + b[3]>>
VZero == <<0, 0, 0>>
Cross(u, v) == <<u[2] * v[3] - u[3] * v[2], u[3] * v[1] - u[1] * v[3], u[1] * v[2] - u[2] * v[1]>>
Dot(u, v) == u[1] * v[1] + u[2] * v[2] + u[3] * v[3]
Det3(u, v, w) == Dot(Cross(u, v), w)
IsPos(n) == n[1] > 0 \/ (n[1] = 0 /\ n[2] > 0) \/ (n[1] = 0 /\ n[2] = 0 /\ n[3] > 0)
Det(G) == Det3(G[1], G[2], G[3])
(* adjugate of a symmetric matrix (cofactors; symmetric, so no transpose) *)
Adj(G) == LET c1 == Cross(G[2], G[3])  c2 == Cross(G[3], G[1])  c3 == Cross(G[1], G[2]) IN <<c1, c2, c3>>
IsGram(G) == /\ \A i, j \in I3 : G[i][j] = G[j][i]
             /\ G[1][1] > 0 /\ G[1][1] * G[2][2] - G[1][2] * G[1][2] > 0 /\ Det(G) > 0

Lc3(N) == Lcm(Lcm(N[1], N[2]), N[3])
Lc(L) == Lc3(L.N)
(* integer Gram matrix of the mesh basis in units 1/(gs Lc^2); kept in the lattice record as L.gm
   (explicit tuples: TLC evaluates function constructors lazily, again at every application) *)
GmOf(G, N) == LET lc == Lc3(N)
                  e(i, j) == G[i][j] * (lc \div N[i]) * (lc \div N[j])
              IN <<<<e(1, 1), e(1, 2), e(1, 3)>>, <<e(2, 1), e(2, 2), e(2, 3)>>, <<e(3, 1), e(3, 2), e(3, 3)>>>>
MkLattice(G, gs, A, N, SS) == [G |-> G, gs |-> gs, A |-> A, N |-> N, SS |-> SS, gm |-> GmOf(G, N)]
QG(gm, n) == n[1] * n[1] * gm[1][1] + n[2] * n[2] * gm[2][2] + n[3] * n[3] * gm[3][3]
             + 2 * (n[1] * n[2] * gm[1][2] + n[1] * n[3] * gm[1][3] + n[2] * n[3] * gm[2][3])
QF(L, n) == QG(L.gm, n)
(* the right-hand side of the completeness relation in mesh coordinates *)
Target(L) == LET ad == Adj(L.G)  d == Det(L.G)
                 e(i, j) == Rat(L.gs * L.N[i] * L.N[j] * ad[i][j], d)
             IN <<<<e(1, 1), e(1, 2), e(1, 3)>>, <<e(2, 1), e(2, 2), e(2, 3)>>, <<e(3, 1), e(3, 2), e(3, 3)>>>>

(* find_bk_vectors: k_latt = all (i, j, k) with |i| <= search_limit[0] ... *)
Box(L) == {<<a, b, c>> : a \in (-L.SS * L.N[1])..(L.SS * L.N[1]), b \in (-L.SS * L.N[2])..(L.SS * L.N[2]),
                          c \in (-L.SS * L.N[3])..(L.SS * L.N[3])}
Full(P) == P \cup {VNeg(n) : n \in P}
(* k_to_shells: the shell of squared length q inside the box (zero vector excluded) *)
ShellAt(L, q) == LET gm == L.gm IN {n \in Box(L) : n # VZero /\ QG(gm, n) = q}
(* the next shell in the order of increasing length after squared length q ({} when the box is exhausted) *)
NextShell(L, q) ==
   LET gm == L.gm
       cand == {n \in Box(L) : n # VZero /\ QG(gm, n) > q}
   IN IF cand = {} THEN {}
      ELSE LET qn == Min({QG(gm, n) : n \in cand}) IN {n \in cand : QG(gm, n) = qn}

-----------------------------------------------------------------------------
(* get_shell_weights / check_B1: the shell matrices as 6-vectors (xx, yy, zz, xy, xz, yz) in mesh coordinates *)
IJ == <<<<1, 1>>, <<2, 2>>, <<3, 3>>, <<1, 2>>, <<1, 3>>, <<2, 3>>>>
MLatC(S, i, j) == ISumSet(S, LAMBDA n : n[i] * n[j])
MLat(S) == <<MLatC(S, 1, 1), MLatC(S, 2, 2), MLatC(S, 3, 3), MLatC(S, 1, 2), MLatC(S, 1, 3), MLatC(S, 2, 3)>>
TargetVec(L) == LET t == Target(L) IN <<t[1][1], t[2][2], t[3][3], t[1][2], t[1][3], t[2][3]>>

(* Gauss-Jordan elimination over the rationals of the nr x (k+1) augmented matrix (nr = 6) [ M_1 ... M_k | target ].
   "dependent"  : the shell matrices are linearly dependent      (code: a zero singular value)
   "incomplete" : independent, but the target is not in their span (code: residual > bk_complete_tol)
   "complete"   : the unique weights *)
RECURSIVE Elim(_, _, _, _)
Elim(A, c, k, nr) ==
   IF c > k
   THEN [status |-> IF \A i \in (k + 1)..nr : A[i][k + 1] = RZero THEN "complete" ELSE "incomplete",
         w |-> [j \in 1..k |-> A[j][k + 1]]]
   ELSE LET piv == {i \in c..nr : A[i][c] # RZero} IN
        IF piv = {} THEN [status |-> "dependent", w |-> <<>>]
        ELSE LET p == Min(piv)
                 A1 == [i \in 1..nr |-> IF i = c THEN A[p] ELSE IF i = p THEN A[c] ELSE A[i]]
                 prow == [j \in 1..(k + 1) |-> RDiv(A1[c][j], A1[c][c])]
                 A2 == [i \in 1..nr |-> IF i = c THEN prow
                                       ELSE [j \in 1..(k + 1) |-> RSub(A1[i][j], RMul(A1[i][c], prow[j]))]]
             IN Elim(A2, c + 1, k, nr)
(* variant "diagonly" (sensitivity self-test only): a completeness test that looks at the diagonal of sum w b b^T only *)
ShellWeightsV(L, shells, variant) ==
   LET k == Len(shells)
       nr == IF variant = "diagonly" THEN 3 ELSE 6
       ms == [s \in 1..k |-> MLat(shells[s])]
       tv == TargetVec(L)
       A == [i \in 1..nr |-> [j \in 1..(k + 1) |-> IF j <= k THEN RInt(ms[j][i]) ELSE tv[i]]]
   IN IF k > nr THEN [status |-> "dependent", w |-> <<>>] ELSE Elim(A, 1, k, nr)
ShellWeights(L, shells) == ShellWeightsV(L, shells, "ok")

(* "is this shell parallel to what we have": three readings
   "pair" : Wannier90 and system/__finite_differences.check_parallel - some vector of the new shell is parallel to some
            vector of a selected shell
   "span" : w90files/bkvectors.is_parallel_shell as intended - the new shell lies in the linear span of ONE selected shell
   "latt" : w90files/bkvectors.is_parallel_shell as written - the projector is built from the Cartesian vectors of the
            selected shell, but it is applied to the MESH coordinates of the new shell (needs the integer basis L.A)
   "rank3": the same code when the Cartesian frame is in general position (the harness rotates the basis by a random
            rotation): an integer triple read as a Cartesian vector lies in a rotated line or plane only if it is zero,
            so a shell is skipped exactly when one selected shell spans all three dimensions (its projector vanishes) *)
(* the linear span of a set S of integer vectors, as [rank, u, nrm]: rank 1 = multiples of u, rank 2 = the plane with
   normal nrm, rank 3 = everything *)
SpanOf(S) == LET nz == {u \in S : u # VZero} IN
             IF nz = {} THEN [rank |-> 0, u |-> VZero, nrm |-> VZero]
             ELSE LET u0 == CHOOSE u \in nz : TRUE
                      off == {v \in nz : Cross(u0, v) # VZero}
                  IN IF off = {} THEN [rank |-> 1, u |-> u0, nrm |-> VZero]
                     ELSE LET nrm == Cross(u0, CHOOSE v \in off : TRUE)
                          IN IF \A w \in nz : Dot(nrm, w) = 0 THEN [rank |-> 2, u |-> u0, nrm |-> nrm]
                             ELSE [rank |-> 3, u |-> u0, nrm |-> nrm]
InSpanOf(v, sp) == CASE sp.rank = 0 -> v = VZero
                     [] sp.rank = 1 -> Cross(sp.u, v) = VZero
                     [] sp.rank = 2 -> Dot(sp.nrm, v) = 0
                     [] sp.rank = 3 -> TRUE
InSpan(v, S) == InSpanOf(v, SpanOf(S))
(* Cartesian components (times Lc) of the mesh vector n for an integer basis A *)
CartOf(L, n) == LET lc == Lc(L)
                    c(a) == n[1] * (lc \div L.N[1]) * L.A[1][a] + n[2] * (lc \div L.N[2]) * L.A[2][a] + n[3] * (lc \div L.N[3]) * L.A[3][a]
                IN <<c(1), c(2), c(3)>>
IsParallelShell(rule, L, sel, new) ==
   CASE rule = "pair" -> \E s \in 1..Len(sel) : \E u \in sel[s] : \E v \in new : Cross(u, v) = VZero
     [] rule = "span" -> \E s \in 1..Len(sel) : LET sp == SpanOf(sel[s]) IN \A v \in new : InSpanOf(v, sp)
     [] rule = "latt" -> \E s \in 1..Len(sel) : LET sp == SpanOf({CartOf(L, u) : u \in sel[s]}) IN \A v \in new : InSpanOf(v, sp)
     [] rule = "rank3" -> \E s \in 1..Len(sel) : SpanOf(sel[s]).rank = 3

(* one iteration of the loop `for i_shell in range(num_shells)` of find_bk_vectors (= the loop of find_shells).
   st = [q |-> squared length of the last shell looked at, sel |-> sequence of selected shells (sets of mesh vectors),
         w |-> weights of the selected shells when done, pc |-> "loop" | "done" | "fail", branch |-> what the last
         iteration did, last |-> the shell it looked at, par |-> what the parallel rules say about that shell] *)
StInit == [q |-> 0, sel |-> <<>>, w |-> <<>>, pc |-> "loop", branch |-> "init", last |-> {}, par |-> <<FALSE, FALSE>>]
IterateV(L, rule, st, variant) ==
   LET new == NextShell(L, st.q) IN
   IF new = {} THEN [st EXCEPT !.pc = "fail", !.branch = "exhausted", !.last = {}, !.par = <<FALSE, FALSE>>]
   ELSE LET qn == QF(L, CHOOSE n \in new : TRUE)
            par == <<IsParallelShell("span", L, st.sel, new), IsParallelShell("pair", L, st.sel, new)>>
            isp == CASE rule = "span" -> par[1] [] rule = "pair" -> par[2] [] OTHER -> IsParallelShell(rule, L, st.sel, new)
            st1 == [st EXCEPT !.q = qn, !.last = new, !.par = par]
        IN
        IF isp THEN [st1 EXCEPT !.branch = "parallel"]
        ELSE LET tmp == Append(st.sel, new)
                 r == ShellWeightsV(L, tmp, variant)
             IN CASE r.status = "dependent" -> [st1 EXCEPT !.branch = "dependent"]
                  [] r.status = "incomplete" -> [st1 EXCEPT !.sel = tmp, !.branch = "incomplete"]
                  [] r.status = "complete" -> [st1 EXCEPT !.sel = tmp, !.w = r.w, !.pc = "done", !.branch = "complete"]
Iterate(L, rule, st) == IterateV(L, rule, st, "ok")
(* the stencil = set of <<mesh vector, weight>> *)
StencilOf(st) == UNION {{<<n, st.w[s]>> : n \in st.sel[s]} : s \in 1..Len(st.sel)}

-----------------------------------------------------------------------------
(* C22: what is demanded of a stencil S (a set of <<n, w>>), independent of how it was found *)
Vecs(S) == {p[1] : p \in S}
Functional(S) == \A p, r \in S : p[1] = r[1] => p[2] = r[2]
InBox(L, n) == \A i \in I3 : Abs(n[i]) <= L.SS * L.N[i]
NonZeroInBox(L, S) == \A p \in S : p[1] # VZero /\ InBox(L, p[1])
NegClosed(S) == \A p \in S : <<VNeg(p[1]), p[2]>> \in S
(* if one vector of a shell (level set of QF inside the search box) is used, all of them are, with the same weight *)
WholeShells(L, S) == LET gm == L.gm
                         qs == {QG(gm, p[1]) : p \in S}
                     IN /\ {m \in Box(L) : m # VZero /\ QG(gm, m) \in qs} = Vecs(S)
                        /\ \A p, r \in S : QG(gm, p[1]) = QG(gm, r[1]) => p[2] = r[2]
Moment2(S, i, j) == RSumSet(S, LAMBDA p : RScale(p[1][i] * p[1][j], p[2]))
Complete(L, S) == LET t == Target(L) IN \A i, j \in I3 : i <= j => Moment2(S, i, j) = t[i][j]
StencilOK(L, S) == Functional(S) /\ NonZeroInBox(L, S) /\ NegClosed(S) /\ WholeShells(L, S) /\ Complete(L, S)
(* consequences used by the finite-difference formulas: the first and third moments vanish *)
Moment1(S, i) == RSumSet(S, LAMBDA p : RScale(p[1][i], p[2]))
OddMomentsVanish(S) == \A i \in I3 : Moment1(S, i) = RZero

(* neighbours: for a k-point k (integer mesh coordinates, any integers) and a mesh vector b the neighbour is the mesh
   point congruent to k + b and G the reciprocal lattice vector in between:  k + b = k_nb + G * N *)
Mesh(L) == {<<a, b, c>> : a \in 0..(L.N[1] - 1), b \in 0..(L.N[2] - 1), c \in 0..(L.N[3] - 1)}
Congruent(L, a, b) == \A i \in I3 : (a[i] - b[i]) % L.N[i] = 0
NeighbourRel(L, k, b, knb, gv) == \A i \in I3 : k[i] + b[i] = knb[i] + gv[i] * L.N[i]
NeighbourOf(L, k, b) == <<(k[1] + b[1]) % L.N[1], (k[2] + b[2]) % L.N[2], (k[3] + b[3]) % L.N[3]>>
GOf(L, k, b) == <<(k[1] + b[1]) \div L.N[1], (k[2] + b[2]) \div L.N[2], (k[3] + b[3]) \div L.N[3]>>
=============================================================================
