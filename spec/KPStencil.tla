------------------------------ MODULE KPStencil ------------------------------
(* The finite-difference derivatives of system/__finite_differences.py as used by SystemKP (C31).

   find_shells(basis) runs the Wannier90 shell procedure (BShells!Iterate with the "pair" rule, mesh <<1,1,1>>, search box
   |n_i| <= 3) and then drops the shells whose weight is zero.  Derivative3D(f)(k)[..., a] = sum_b w_b b_a f(k + b) is the
   ONLY stencil: der2Ham and der3Ham are Derivative3D applied to derHam and der2Ham (the last index is the outermost
   derivative); there are no separate second-derivative or mixed stencils.

   Exact arithmetic: the step is h; a stencil vector is h * beta with beta = n A an INTEGER Cartesian vector (A the
   integer basis), its weight is w / h^2 with w the rational weight of BShells.  A monomial m(x) = x^e of degree d
   sampled at x = h * xi gives  D1 m (h xi) = h^(d-1) * sum_b w_b beta_a m(xi + beta) : by homogeneity everything can be
   decided on the integer grid (h = 1), and a deviation E on the grid is a deviation h^(d-1) E = h^2 * (h^(d-3) E).
   Because D1 and the derivative commute with translations, an identity between them that holds at one point for all
   monomials up to a degree holds at every point; it is nevertheless checked at several points.

   What TLC decides (MC_KPStencil): for the stencil S that the procedure selects on each catalogue lattice
     D1Law   deg <= 4 :  D1_a m = d_a m + (1/6) sum_bcd T_abcd d_bcd m ,  T_abcd = sum_b w beta_a beta_b beta_c beta_d
     D1Exact deg <= 2 :  D1_a m = d_a m                         (exactness degree 2, leading error h^2 (1/6) T : d^3 f)
     D2Law   deg <= 4 :  D2_ab m = d_ab m + (1/6) sum T_acde d_cdeb m + (1/6) sum T_bcde d_cdea m
     D2Exact deg <= 3 ,  D3Exact deg <= 4 :  the nested stencils are exact
     the numerical second and third derivatives are symmetric in their derivative indices *)
EXTENDS BShells

RECURSIVE Pow(_, _)
Pow(x, n) == IF n = 0 THEN 1 ELSE x * Pow(x, n - 1)
Deg(e) == e[1] + e[2] + e[3]
Monomials(dmax) == {e \in (0..dmax) \X (0..dmax) \X (0..dmax) : Deg(e) <= dmax}
MonoVal(e, x) == Pow(x[1], e[1]) * Pow(x[2], e[2]) * Pow(x[3], e[3])
(* analytic derivative of the monomial x^e with respect to the directions listed in `dirs` (a sequence over 1..3), at x *)
RECURSIVE Falling(_, _)
Falling(n, r) == IF r = 0 THEN 1 ELSE n * Falling(n - 1, r - 1)
Count(dirs, a) == Cardinality({j \in 1..Len(dirs) : dirs[j] = a})
Analytic(e, dirs, x) ==
   LET r == <<Count(dirs, 1), Count(dirs, 2), Count(dirs, 3)>> IN
   IF r[1] > e[1] \/ r[2] > e[2] \/ r[3] > e[3] THEN 0
   ELSE Falling(e[1], r[1]) * Falling(e[2], r[2]) * Falling(e[3], r[3]) * MonoVal(<<e[1] - r[1], e[2] - r[2], e[3] - r[3]>>, x)

(* find_shells: the selected stencil in Cartesian integer coordinates (mesh <<1,1,1>>: beta = n A), zero weights dropped *)
CartVec(A, n) == <<n[1] * A[1][1] + n[2] * A[2][1] + n[3] * A[3][1],
                   n[1] * A[1][2] + n[2] * A[2][2] + n[3] * A[3][2],
                   n[1] * A[1][3] + n[2] * A[2][3] + n[3] * A[3][3]>>
DropZero(S) == {p \in S : p[2] # RZero}
KPLattice(G, gs, A) == MkLattice(G, gs, A, <<1, 1, 1>>, 3)
(* st: the final state of the BShells selection loop (rule "pair") on KPLattice; find_shells then keeps the vectors with
   a non-zero weight *)
FindShellsResult(st) == DropZero(StencilOf(st))
CartStencil(A, S) == {<<CartVec(A, p[1]), p[2]>> : p \in S}

(* Derivative3D.__call__ for a scalar function F on the integer grid; C = Cartesian stencil (set of <<beta, w>>) *)
D1(C, F(_), a, x) == RSumSet(C, LAMBDA p : RMul(RScale(p[1][a], p[2]), F(VAdd(x, p[1]))))
(* for a monomial the same sum, grouped by weight so that the inner sums are integer (cheaper for TLC, same value) *)
D1m(C, e, a, x) == LET ws == {p[2] : p \in C} IN
                   RSumSet(ws, LAMBDA w : RScale(ISumSet({p \in C : p[2] = w}, LAMBDA p : p[1][a] * MonoVal(e, VAdd(x, p[1]))), w))
D1mPlain(C, e, a, x) == D1(C, LAMBDA y : RInt(MonoVal(e, y)), a, x)
(* der2Ham[..., a, b] = Derivative3D(derHam)[..., a, b] : b is the outer derivative *)
D2m(C, e, a, b, x) == D1(C, LAMBDA y : D1m(C, e, a, y), b, x)
D3m(C, e, a, b, c, x) == D1(C, LAMBDA y : D2m(C, e, a, b, y), c, x)

CartComplete(C) == \A a, b \in I3 : a <= b => Moment2(C, a, b) = (IF a = b THEN ROne ELSE RZero)
T4(C, a, b, c, d) == RSumSet(C, LAMBDA p : RScale(p[1][a] * p[1][b] * p[1][c] * p[1][d], p[2]))
QUADS == {<<a, b, c, d>> : a \in I3, b \in I3, c \in I3, d \in I3}
T4Table(C) == [q \in QUADS |-> T4(C, q[1], q[2], q[3], q[4])]
(* (1/6) sum_bcd T_abcd d_bcd d_extra m : the error of one application of the stencil in direction a on d_extra m
   (T = T4Table(C), tabulated once per stencil) *)
Err1(T, e, a, extra, x) ==
   LET terms == {<<b, c, d>> : b \in I3, c \in I3, d \in I3} IN
   RMul(<<1, 6>>, RSumSet(terms, LAMBDA t : RScale(Analytic(e, <<t[1], t[2], t[3]>> \o extra, x), T[<<a, t[1], t[2], t[3]>>])))
D1Predicted(T, e, a, x) == RAdd(RInt(Analytic(e, <<a>>, x)), Err1(T, e, a, <<>>, x))
D2Predicted(T, e, a, b, x) == RAdd(RInt(Analytic(e, <<a, b>>, x)), RAdd(Err1(T, e, a, <<b>>, x), Err1(T, e, b, <<a>>, x)))
=============================================================================
