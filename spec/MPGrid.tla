------------------------------- MODULE MPGrid -------------------------------
(***************************************************************************)
(* Monkhorst-Pack mesh detection (C23): w90files/utility.py get_mp_grid    *)
(* and grid_from_kpoints.                                                  *)
(* A k-point is a triple of numerators over a common denominator DEN with  *)
(* 0 <= numerator < DEN (coordinates reduced to [0,1)); a point list is a  *)
(* sequence of such triples.  A result is [err |-> exception class name or *)
(* "", val |-> sequence] (the grid, or the 0-based selected indices).      *)
(* The code reads each coordinate through Fraction(k).limit_denominator(100)*)
(* after rounding to 8 digits: exact for fractions with denominator <= 100 *)
(* (Representable).                                                        *)
(***************************************************************************)
EXTENDS Integers, Sequences, FiniteSets, TLC, SequencesExt, FiniteSetsExt

RECURSIVE GCD(_, _)
GCD(a, b) == IF b = 0 THEN a ELSE GCD(b, a % b)
LCM(a, b) == (a * b) \div GCD(a, b)
RECURSIVE LcmSet(_)
LcmSet(S) == IF S = {} THEN 1 ELSE LET x == Max(S) IN LCM(x, LcmSet(S \ {x}))       \* few distinct denominators
FracNum(p, DEN) == p \div GCD(p, DEN)
FracDen(p, DEN) == DEN \div GCD(p, DEN)          \* p = 0 gives 1
Ok(val)  == [err |-> "", val |-> val]
Err(cls) == [err |-> cls, val |-> <<>>]
Representable(pts, DEN) == \A i \in 1..Len(pts) : \A ax \in 1..3 : pts[i][ax] \in 0..(DEN - 1) /\ FracDen(pts[i][ax], DEN) <= 100

(* get_mp_grid: per direction the smallest non-zero fraction must be 1/n, which gives n; a direction where every
   coordinate is zero gives 1; then every point must lie on the grid.  Both checks are `assert`s.  The number of
   points is not checked (the assertion is commented out in the code). *)
AxisGrid(pts, ax, DEN) ==
   LET nz == {pts[i][ax] : i \in 1..Len(pts)} \ {0}
   IN IF nz = {} THEN 1 ELSE IF FracNum(Min(nz), DEN) # 1 THEN 0 ELSE FracDen(Min(nz), DEN)
OnGrid(p, g, DEN) == \A ax \in 1..3 : (p[ax] * g[ax]) % DEN = 0
GetMpGrid(pts, DEN) ==
   LET g == << AxisGrid(pts, 1, DEN), AxisGrid(pts, 2, DEN), AxisGrid(pts, 3, DEN) >>
   IN IF g[1] = 0 \/ g[2] = 0 \/ g[3] = 0 THEN Err("AssertionError")
      ELSE IF \E i \in 1..Len(pts) : ~OnGrid(pts[i], g, DEN) THEN Err("AssertionError")
      ELSE Ok(g)

(* grid_from_kpoints(kpoints, grid): without a grid it is the least common multiple of the denominators per direction;
   the points on the grid are selected, a repeated point only at its first occurrence; fewer selected points than
   the grid has raise ValueError, more raise RuntimeError; the grid (grid = None) or the selected indices are returned *)
NoGrid == <<>>
LcmGrid(pts, DEN) == [ax \in 1..3 |-> LcmSet({FracDen(pts[i][ax], DEN) : i \in 1..Len(pts)})]
(* Dedup = FALSE (repeated points selected again) is a wrong variant used by the sensitivity self-test only *)
SelectedIdxV(pts, g, DEN, Dedup) ==
   SelectSeq([i \in 1..Len(pts) |-> i], LAMBDA i : OnGrid(pts[i], g, DEN) /\ (Dedup => \A j \in 1..(i - 1) : pts[j] # pts[i]))
SelectedIdx(pts, g, DEN) == SelectedIdxV(pts, g, DEN, TRUE)
GridFromKpointsV(pts, grid, DEN, Dedup) ==
   LET gf  == IF grid = NoGrid THEN LcmGrid(pts, DEN) ELSE grid
       g   == << gf[1], gf[2], gf[3] >>
       sel == SelectedIdxV(pts, g, DEN, Dedup)
       tot == g[1] * g[2] * g[3]
   IN IF Len(sel) < tot THEN Err("ValueError")
      ELSE IF Len(sel) > tot THEN Err("RuntimeError")
      ELSE IF grid = NoGrid THEN Ok(g) ELSE Ok([q \in 1..Len(sel) |-> sel[q] - 1])
GridFromKpoints(pts, grid, DEN) == GridFromKpointsV(pts, grid, DEN, TRUE)

-----------------------------------------------------------------------------
(* meshes *)
NPts(n) == n[1] * n[2] * n[3]
(* Gamma-centred mesh in the order i1 (outer), i2, i3 *)
MeshSeq(n, DEN) ==
   [q \in 1..NPts(n) |-> << ((q - 1) \div (n[2] * n[3])) * (DEN \div n[1]), (((q - 1) \div n[3]) % n[2]) * (DEN \div n[2]),
                            ((q - 1) % n[3]) * (DEN \div n[3]) >>]
(* mesh shifted by sh[ax] / (Q n[ax]) in direction ax (Q = 2: the usual Monkhorst-Pack half shift) *)
ShiftedSeq(n, sh, Q, DEN) ==
   LET m == MeshSeq(n, DEN) IN
   [q \in 1..Len(m) |-> << (m[q][1] + sh[1] * (DEN \div (Q * n[1]))) % DEN, (m[q][2] + sh[2] * (DEN \div (Q * n[2]))) % DEN,
                           (m[q][3] + sh[3] * (DEN \div (Q * n[3]))) % DEN >>]
RemoveAtIdx(s, r) == SubSeq(s, 1, r - 1) \o SubSeq(s, r + 1, Len(s))
Permute(s, perm) == [q \in 1..Len(perm) |-> s[perm[q]]]
(* the order produced by sorting the indices by (a i + b) mod 101 (a in 1..100): identity for (1,0), reversal for (100,0) *)
KeyOrder(N, a, b) == SetToSortSeq(1..N, LAMBDA x, y : ((a * x + b) % 101) < ((a * y + b) % 101))

(* C23 clauses *)
PtSet(pts) == {pts[i] : i \in 1..Len(pts)}
NoDuplicates(pts) == Cardinality(PtSet(pts)) = Len(pts)
(* a point of [0,1)^3 that lies on the grid g is a point of the Gamma-centred mesh g, hence: the points of `pts` that lie
   on g are the whole mesh g iff there are NPts(g) distinct ones.  This is the property-level meaning of "the selection
   for the mesh g is defined" (otherwise the mesh is incomplete and must be rejected); g need not divide DEN *)
OnGridPts(pts, g, DEN) == {p \in PtSet(pts) : OnGrid(p, g, DEN)}
SelectionDefined(pts, g, DEN) == g[1] >= 1 /\ g[2] >= 1 /\ g[3] >= 1 /\ Cardinality(OnGridPts(pts, g, DEN)) = NPts(g)
(* the selected indices name each point of the mesh g exactly once (any order, any of several copies of a point) *)
EachMeshPointOnce(sel, pts, g, DEN) ==
   /\ \A q \in 1..Len(sel) : sel[q] + 1 \in 1..Len(pts) /\ OnGrid(pts[sel[q] + 1], g, DEN)
   /\ Cardinality({pts[sel[q] + 1] : q \in 1..Len(sel)}) = Len(sel)         \* pairwise different points
   /\ Len(sel) = NPts(g)
(* n divides DEN in every direction *)
IsCompleteMesh(pts, n, DEN) == PtSet(pts) = {MeshSeq(n, DEN)[q] : q \in 1..NPts(n)}
(* the points are exactly the Gamma-centred mesh of their own least-common-denominator grid *)
IsSomeMesh(pts, DEN) == LET L == LcmGrid(pts, DEN) IN SelectionDefined(pts, << L[1], L[2], L[3] >>, DEN)
=============================================================================
