-------------------------- MODULE MC_PeriodicityHk --------------------------
(* every two-orbital model with Gaussian-integer hoppings inside the constants x every k of the 4x4 mesh: one state each *)
EXTENDS Periodicity
CONSTANTS MAXNZ,    \* at most MAXNZ non-zero hopping amplitudes
          GMAX      \* reciprocal lattice vectors G in (-GMAX..GMAX)^2
VARIABLES h0, Ts, kn, hk
vars == <<h0, Ts, kn, hk>>
NW == 2
AMP == {<<0, 0>>, <<1, 0>>, <<0, 1>>}
RS == <<<<1, 0>>, <<0, 1>>>>
Mats == [1..NW -> [1..NW -> AMP]]
NZ(M) == Cardinality({p \in (1..NW) \X (1..NW) : M[p[1]][p[2]] # <<0, 0>>})
Onsite == {[a \in 1..NW |-> [b \in 1..NW |-> IF a = b THEN <<IF a = 1 THEN d[1] ELSE d[2], 0>> ELSE IF a < b THEN c ELSE CConj(c)]] :
             d \in {<<0, 1>>, <<1, 1>>, <<0, 2>>}, c \in AMP \cup {<<1, 1>>}}
Init == /\ h0 \in Onsite
        /\ Ts \in {t \in [1..2 -> Mats] : NZ(t[1]) + NZ(t[2]) <= MAXNZ}
        /\ kn \in (0..3) \X (0..3)
        /\ hk = Hk(NW, h0, RS, Ts, kn)
Next == UNCHANGED vars
Spec == Init /\ [][Next]_vars
(* C04 kernel *)
Periodic == PeriodicAt(NW, h0, RS, Ts, kn, (-GMAX)..GMAX)
Hermitian == IsHermitianM(hk, NW)
Dispersive == \A k2 \in (0..3) \X (0..3) : Hk(NW, h0, RS, Ts, k2) = hk     \* must be VIOLATED (non-vacuity: H depends on k)
=============================================================================
