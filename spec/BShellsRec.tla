----------------------------- MODULE BShellsRec -----------------------------
(* code -> spec: records of the real BKVectors.from_kpoints / find_bk_vectors (C22), one TLC state per record.
   Record fields (all integers):
     G, gs, N, SS   the lattice (integer Gram matrix G/gs of the reciprocal basis), the mesh, search_supercell
     bk             bk_grid: list of mesh vectors [n1, n2, n3]
     wk             the weights as [num, den] (rationalised by the harness from the floats; the float is within 1e-9
                    relative of num/den and den <= 10^4, so the rational is unique)
     kpts           the k-points handed to the code, as integer mesh coordinates  (only with neighbours)
     kptirr         the k-point indices for which neighbours were computed (0-based)
     nb, gv         neighbours[ik][ib] (0-based index into kpts) and G[ik][ib] for ik in kptirr, in the order of kptirr
     SSW            (optional) a wider search box: the shells of the stencil must be whole level sets in that box too
   kpts are the integers the harness intended (any integers: the reduced coordinates handed to the code may lie outside
   [0, 1) and carry noise of 1e-9); fn names the call that produced the record (from_kpoints, reorder_mmn). *)
EXTENDS BShells, Json, IOUtils, TLCExt
VARIABLE i
Recs == JsonDeserialize(IOEnv.TRACE_FILE).recs
Rec == Recs[i]
V3(x) == <<x[1], x[2], x[3]>>
M33(x) == <<V3(x[1]), V3(x[2]), V3(x[3])>>
LRec == MkLattice(M33(Rec.G), Rec.gs, <<>>, V3(Rec.N), Rec.SS)
NNB == Len(Rec.bk)
SRec == {<<V3(Rec.bk[b]), <<Rec.wk[b][1], Rec.wk[b][2]>>>> : b \in 1..NNB}
HasNb == "nb" \in DOMAIN Rec

StencilClauses ==
   [ shape        |-> Len(Rec.wk) = NNB /\ NNB > 0 /\ IsGram(LRec.G) /\ \A b \in 1..NNB : IsRat(Rec.wk[b]),
     distinct     |-> Cardinality({V3(Rec.bk[b]) : b \in 1..NNB}) = NNB,
     nonzero_box  |-> NonZeroInBox(LRec, SRec),
     neg_closed   |-> NegClosed(SRec),
     whole_shells |-> WholeShells(LRec, SRec),
     complete     |-> Complete(LRec, SRec) ]
NbClauses ==
   LET NK == Len(Rec.kpts)  NI == Len(Rec.kptirr) IN
   [ nb_shape    |-> /\ Len(Rec.nb) = NI /\ Len(Rec.gv) = NI
                     /\ \A j \in 1..NI : Len(Rec.nb[j]) = NNB /\ Len(Rec.gv[j]) = NNB /\ Rec.kptirr[j] \in 0..(NK - 1),
     nb_in_range |-> \A j \in 1..NI : \A b \in 1..NNB : Rec.nb[j][b] \in 0..(NK - 1),
     k_plus_b    |-> \A j \in 1..NI : \A b \in 1..NNB :
                        /\ Rec.nb[j][b] \in 0..(NK - 1)
                        /\ NeighbourRel(LRec, V3(Rec.kpts[Rec.kptirr[j] + 1]), V3(Rec.bk[b]),
                                        V3(Rec.kpts[Rec.nb[j][b] + 1]), V3(Rec.gv[j][b])) ]
HasWide == "SSW" \in DOMAIN Rec
WideClauses ==
   [ whole_shells_wide |-> WholeShells(MkLattice(M33(Rec.G), Rec.gs, <<>>, V3(Rec.N), Rec.SSW), SRec) ]
Clauses0 == IF HasNb THEN StencilClauses @@ NbClauses ELSE StencilClauses
Clauses == IF HasWide THEN Clauses0 @@ WideClauses ELSE Clauses0
Report == LET cl == Clauses IN \A n \in DOMAIN cl : cl[n] \/ PrintT(<<"BAD", i, n>>)
RecInit == i \in 1..Len(Recs)
RecSpec == RecInit /\ [][UNCHANGED i]_i
=============================================================================
