"""Function-table conformance for the pure / case-analysis kernels.

spec -> code : TLC enumerates (or simulates) the specification's state machine; the dump of its states is parsed and
               every state that carries a finished case (input + expected output) becomes one test of the real function.
code -> spec : calls of the real function (inputs chosen by the harness, outputs as returned) are written as JSON records
               and validated by TLC against a *Rec.tla module: one initial state per record, every named clause of the
               module's `Clauses` table is evaluated on it; failing clauses are reported per record.
"""
import json
import os
import re

from . import tlc, tlaparse
from .common import MachineryError, WORK


def enumerate_states(module, cfg, name, workers=16, timeout=1500, simulate=None, depth=None, seed=None):
    """runs TLC with -dump; returns (stats, iterator of state dicts)"""
    st = tlc.run_tlc(module, cfg, name, workers=workers, dump=True, timeout=timeout, simulate=simulate, depth=depth, seed=seed)
    if st.get("timeout"):
        raise MachineryError(f"TLC timed out on {name}")
    if st.get("error") and not st.get("violation"):
        raise MachineryError(f"TLC error on {name}: {st['error'][:600]}")
    return st


def dump_states(st):
    p = st.get("dump_path")
    if not p or not os.path.exists(p):
        raise MachineryError(f"no state dump produced ({st.get('meta')})")
    return tlaparse.parse_dump(p)


def spec_violation(rep, st, name):
    if st.get("violation"):
        # extract a compact counter-example: the last state of the error trace
        out = st.get("output", "")
        states = re.split(r"(?m)^State \d+: ", out)
        last = states[-1][:1500] if len(states) > 1 else ""
        rep.violation(f"spec:{name}:{st['violation'][1]}",
                      dict(what="TLC found the property violated in the specification model", config=name,
                           violated=st["violation"], last_state=last, tlc_out=os.path.join(st["meta"], "tlc.out")))
        return True
    return False


def validate_records(module, cfg, records, name, timeout=1500, chunk=20000):
    """records: list of JSON-able dicts. The module must define (using Rec == Recs[i]) a record `Clauses` mapping clause
    names to booleans and an invariant `Report` that prints <<"BAD", i, clause>> for failing clauses (always TRUE).
    Returns (stats, bad) where bad = {record index (0-based): [clauses]}"""
    bad = {}
    tot = dict(distinct=0, generated=0, wall_s=0.0)
    for c0 in range(0, len(records), chunk):
        part = records[c0:c0 + chunk]
        wd = os.path.join(WORK, "records", name)
        os.makedirs(wd, exist_ok=True)
        tf = os.path.join(wd, f"recs_{c0}.json")
        with open(tf, "w") as f:
            json.dump({"recs": part}, f)
        st = tlc.run_tlc(module, cfg, f"rec_{name}_{c0}", workers=1, coverage=False, env={"TRACE_FILE": tf}, timeout=timeout)
        if st.get("error") or st.get("timeout") or st["distinct"] == 0:
            raise MachineryError(f"record validation TLC run failed ({name}): {st.get('error') or st.get('output', '')[-800:]}")
        if st["distinct"] != len(part):
            raise MachineryError(f"record validation ({name}): {st['distinct']} states for {len(part)} records")
        for i, cl in re.findall(r'^<<"BAD", (\d+), "([\w.:-]+)">>', st["output"], re.M):
            bad.setdefault(c0 + int(i) - 1, []).append(cl)
        tot["distinct"] += st["distinct"]
        tot["generated"] += st["generated"]
        tot["wall_s"] += st["wall_s"]
        os.remove(tf)
    tot["mode"] = "record-validation"
    return tot, bad


REC_CFG = """SPECIFICATION RecSpec
INVARIANT Report
CHECK_DEADLOCK FALSE
"""
