"""Insert the generated tables into DESIGN.md (between marker comments):  /venv/bin/python -m harness.design_tables"""
import io
import os
import re
import contextlib

VERIF = os.path.dirname(os.path.dirname(os.path.abspath(__file__)))


def capture(mod):
    buf = io.StringIO()
    with contextlib.redirect_stdout(buf):
        mod.main()
    return buf.getvalue().strip()


def put(text, name, table):
    a, b = f"<!-- BEGIN {name} -->", f"<!-- END {name} -->"
    block = f"{a}\n{table}\n{b}"
    if a in text:
        return re.sub(re.escape(a) + r".*?" + re.escape(b), lambda m: block, text, flags=re.S)
    ph = {"SEEDED": "SEEDED_TABLE_PLACEHOLDER", "ASBUILT": "ASBUILT_TABLE_PLACEHOLDER"}[name]
    assert ph in text, ph
    return text.replace(ph, block)


def main():
    from . import seeded_table, asbuilt_table
    p = os.path.join(VERIF, "DESIGN.md")
    s = open(p).read()
    s = put(s, "SEEDED", capture(seeded_table))
    s = put(s, "ASBUILT", capture(asbuilt_table))
    open(p, "w").write(s)


if __name__ == "__main__":
    main()
