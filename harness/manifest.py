"""Generates /verif/MANIFEST.json from the table below:  /venv/bin/python -m harness.manifest"""
import json
import os
import subprocess

from .common import VERIF

ALL = [f"C{i:02d}" for i in range(1, 34)]

# property -> (level, technique, text, note, design_ref)
CLAIMS = {
    "C10": ("model_checking",
            "TLC exhaustive on RunGrid.tla + TLC trace validation of real run() executions (hook events) + replay of TLC simulate behaviours",
            "TLC explores every refinement choice, storage mode, symmetry setting and iteration order inside small constants and checks "
            "IntegralConsistent / WeightOne / SavedWeightOne on every state; the same invariants are evaluated by TLC on every state of "
            "traces recorded from the real run() (scenarios derived from TLC behaviours and seeded random ones), with the projected "
            "K-list, weights, running-integral coefficients and files compared with the specification after every event.",
            "trusts: the one-hot abstraction of per-K results, the projection functions in harness/rungrid_world.py, TLC; bounded to the listed geometries",
            "DESIGN.md 3.1"),
    "C11": ("model_checking",
            "TLC exhaustive A/B product (uninterrupted vs stopped+restarted run) on RunGrid.tla + trace validation of real stop/restart executions with permuted directory listings",
            "RestartEquivalence is checked by TLC over all stopping points, splits, storage modes and listing permutations inside the constants; "
            "real run() calls are stopped and restarted along TLC-generated and random scenarios with a listing-order shim, and TLC validates the "
            "recorded traces including equality of every saved/returned result with the uninterrupted reference.",
            "trusts: same as C10 plus the glob shim (only permutes the real listing)",
            "DESIGN.md 3.1"),
    "C12": ("model_checking",
            "TLC exhaustive over completion orders and ray.wait answers on RunGrid.tla + trace validation of the real process() under a schedule-controlled ray double + numeric serial-vs-parallel comparison with real calculators",
            "CollectedOnce / AllCollected / IntegralConsistent are checked by TLC for every interleaving of completions and every contract-conforming "
            "ray.wait answer; the unmodified process() is driven through those schedules and its traces validated; grid and path tabulations "
            "are compared serial vs parallel (path order).",
            "trusts: the ray double follows the documented ray.wait contract (one real-ray smoke run in the thorough tier)",
            "DESIGN.md 3.1"),
}

NOT_BUILT_REASON = "machinery not built yet in this round (see DESIGN.md section 5 for the plan); not claimed"
NOT_APPLICABLE = {
    "C28": "approximate equality of two different continuum integrands up to a model-dependent discretisation error: no discrete "
           "state, transition or exact kernel a TLA+ specification could decide (DESIGN.md section 6)",
}


def build():
    checks = []
    na = []
    for pid in ALL:
        if pid in CLAIMS:
            level, tech, text, note, ref = CLAIMS[pid]
            checks.append(dict(property_id=pid, quick_cmd=f"bin/check {pid} quick", thorough_cmd=f"bin/check {pid} thorough",
                               evidence_file=f"/verif/evidence/{pid}.json", replay_cmd_template="cat {path}",
                               engine="tlc+conformance",
                               level_claimed=dict(category=level, text=text, design_ref=ref), level_note=note, technique=tech))
        else:
            na.append(dict(property_id=pid, reason=NOT_APPLICABLE.get(pid, NOT_BUILT_REASON)))
    hooks = []
    try:
        out = subprocess.run(["git", "-C", "/repo", "log", "--format=%H %s"], capture_output=True, text=True).stdout
        hooks = [l.split()[0] for l in out.splitlines() if "verification hook" in l]
    except Exception:
        pass
    man = dict(
        version=1,
        setup_cmd="bin/setup",
        hooks=dict(guard="WANNIERBERRI_VERIF_TRACE",
                   enable="bin/check exports WANNIERBERRI_VERIF_TRACE=1 and installs a sink in wannierberri.run_grid (editable install: /repo is imported as is)",
                   baseline_off_cmd="cd /repo && env -u WANNIERBERRI_VERIF_TRACE /venv/bin/python -m pytest -ra -q -p no:cacheprovider --timeout=900 --continue-on-collection-errors",
                   source_commits=hooks, add_only=True),
        engines=[dict(name="tlc+conformance", path="/verif/harness", serves_properties=sorted(CLAIMS),
                      kind_free_text="TLA+ specifications in /verif/spec checked by TLC 1.8; Python conformance drivers replay TLC behaviours on "
                                     "the real code and feed recorded traces / call records back to TLC trace specifications")],
        checks=checks,
        not_applicable=na,
        notes="See DESIGN.md. Exit codes: 0 held, 1 VIOLATION, 2 machinery failure. known_findings.json lists recorded and fixed defects.",
    )
    with open(os.path.join(VERIF, "MANIFEST.json"), "w") as f:
        json.dump(man, f, indent=1)
    return man


if __name__ == "__main__":
    m = build()
    print("claimed:", [c["property_id"] for c in m["checks"]])
    try:
        import jsonschema
        jsonschema.validate(m, json.load(open("/root/.vp/MANIFEST.schema.json")))
        print("MANIFEST.json valid")
    except Exception as ex:
        print("INVALID", ex)
