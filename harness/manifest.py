"""Generates /verif/MANIFEST.json from the table below:  /venv/bin/python -m harness.manifest"""
import json
import os
import subprocess

from .common import VERIF

ALL = [f"C{i:02d}" for i in range(1, 34)]

def collect_claims():
    import importlib
    from .main import discover
    claims = {}
    with open(os.path.join(VERIF, "harness", "CLAIMED")) as f:
        allowed = set(l.split()[0] for l in f if l.strip() and not l.startswith("#"))
    for pid, mod in discover().items():
        if pid not in allowed:
            continue
        mm = importlib.import_module(mod)
        c = mm.PROPS[pid]
        claims[pid] = (c["level"], c["technique"], c["text"], c["note"], c["ref"])
    return claims


NOT_BUILT_REASON = "machinery not built yet in this round (see DESIGN.md section 5 for the plan); not claimed"
NOT_APPLICABLE = {
    "C28": "approximate equality of two different continuum integrands up to a model-dependent discretisation error: no discrete "
           "state, transition or exact kernel a TLA+ specification could decide (DESIGN.md section 6)",
}


def build():
    CLAIMS = collect_claims()
    checks = []
    na = []
    for pid in ALL:
        if pid in CLAIMS:
            level, tech, text, note, ref = CLAIMS[pid]
            checks.append(dict(property_id=pid, quick_cmd=f"bin/check {pid} quick", thorough_cmd=f"bin/check {pid} thorough",
                               evidence_file=f"/verif/evidence/{pid}.json", replay_cmd_template="cat {path}",
                               engine="tlc+conformance",
                               level_claimed=dict(category=level, text=text, design_ref=ref), level_note=note, technique=tech))
        else:
            na.append(dict(property_id=pid, reason=NOT_APPLICABLE.get(pid, NOT_BUILT_REASON)))
    hooks = []
    try:
        out = subprocess.run(["git", "-C", "/repo", "log", "--format=%H %s"], capture_output=True, text=True).stdout
        hooks = [l.split()[0] for l in out.splitlines() if "verification hook" in l]
    except Exception:
        pass
    man = dict(
        version=1,
        setup_cmd="bin/setup",
        hooks=dict(guard="WANNIERBERRI_VERIF_TRACE",
                   enable="bin/check exports WANNIERBERRI_VERIF_TRACE=1 and installs a sink in wannierberri.run_grid (editable install: /repo is imported as is)",
                   baseline_off_cmd="cd /repo && env -u WANNIERBERRI_VERIF_TRACE /venv/bin/python -m pytest -ra -q -p no:cacheprovider --timeout=900 --continue-on-collection-errors",
                   source_commits=hooks, add_only=True),
        engines=[dict(name="tlc+conformance", path="/verif/harness", serves_properties=sorted(CLAIMS),
                      kind_free_text="TLA+ specifications in /verif/spec checked by TLC 1.8; Python conformance drivers replay TLC behaviours on "
                                     "the real code and feed recorded traces / call records back to TLC trace specifications")] +
                [dict(name=f"extension-{x}", path=f"/verif/harness/props/{x.lower()}.py", serves_properties=[],
                      kind_free_text=f"specification growth beyond the listed properties (DESIGN.md 10.9): `bin/check {x} quick|thorough`, same "
                                     "technique (TLC + replay + record validation); findings recorded under the id " + x)
                 for x in ("X01", "X02", "X03", "X04", "X05") if os.path.exists(os.path.join(VERIF, "harness", "props", x.lower() + ".py"))],
        checks=checks,
        not_applicable=na,
        notes="See DESIGN.md. Exit codes: 0 held, 1 VIOLATION, 2 machinery failure. known_findings.json lists recorded and fixed defects.",
    )
    with open(os.path.join(VERIF, "MANIFEST.json"), "w") as f:
        json.dump(man, f, indent=1)
    return man


if __name__ == "__main__":
    m = build()
    print("claimed:", [c["property_id"] for c in m["checks"]])
    try:
        import jsonschema
        jsonschema.validate(m, json.load(open("/root/.vp/MANIFEST.schema.json")))
        print("MANIFEST.json valid")
    except Exception as ex:
        print("INVALID", ex)
