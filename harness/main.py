"""entry point: python -m harness.main <property id> [quick|thorough]

Property modules live in harness/props/*.py; each defines PROPS = {pid: claim-dict} and check(pid, tier)."""
import os
import sys
import glob
import importlib
import traceback

from .common import MachineryError, VERIF


def discover():
    reg = {}
    for f in sorted(glob.glob(os.path.join(VERIF, "harness", "props", "*.py"))):
        name = os.path.basename(f)[:-3]
        if name.startswith("_"):
            continue
        with open(f) as fh:
            src = fh.read()
        if "PROPS" not in src:
            continue
        # cheap static discovery: PROPS = {"C10": ..., }
        import re
        m = re.search(r"^PROPS\s*=\s*\{", src, re.M)
        if not m:
            continue
        for pid in re.findall(r'^\s*"([CX]\d\d)"\s*:', src[m.start():], re.M):
            reg[pid] = "harness.props." + name
    return reg


def main():
    if len(sys.argv) < 2:
        print("usage: check <id> [quick|thorough]")
        return 2
    pid = sys.argv[1]
    tier = sys.argv[2] if len(sys.argv) > 2 else os.environ.get("VERIF_TIER", "quick")
    if tier not in ("quick", "thorough"):
        tier = "quick"
    reg = discover()
    if pid not in reg:
        print(f"no check registered for {pid}")
        return 2
    try:
        m = importlib.import_module(reg[pid])
        return m.check(pid, tier)
    except MachineryError as ex:
        print(f"MACHINERY-ERROR property={pid}: {ex}")
        return 1 if _violations_already_reported() else 2
    except Exception as ex:
        traceback.print_exc()
        if _violations_already_reported():
            print(f"MACHINERY-ERROR property={pid}: the check stopped with an exception after reporting the violations above")
            return 1
        site = raised_by_code_under_test(ex)
        if site is not None:
            # the package raised on an input chosen by the specification: the behaviour the property talks about is
            # absent for that input (see DESIGN.md 10.5); exceptions that can come from the environment or from the
            # harness's own use of the API (wrong keyword, renamed attribute, doubles) stay machinery errors
            return report_uncaught(pid, tier, ex, site)
        print(f"MACHINERY-ERROR property={pid}: unexpected exception in the harness")
        return 2


def _violations_already_reported():
    from . import common
    return common.FINISHED_WITH == 1


_ENVIRONMENT_ERRORS = (OSError, MemoryError, TimeoutError, ImportError, RecursionError, MachineryError)


def raised_by_code_under_test(ex):
    """-> "module.function" when the exception was raised inside the wannierberri package (innermost frame that is
    neither a third-party library nor the harness), None when it must be treated as a failure of the machinery"""
    if isinstance(ex, _ENVIRONMENT_ERRORS):
        return None
    try:
        import wannierberri
        pkg = os.path.dirname(os.path.abspath(wannierberri.__file__)) + os.sep
    except Exception:
        return None
    if isinstance(ex, AttributeError) and type(getattr(ex, "obj", None)).__module__.startswith("harness"):
        return None                      # a double of the harness lacks an attribute the package now uses
    frames = traceback.extract_tb(ex.__traceback__)
    if any(os.sep + "ray" + os.sep in f.filename for f in frames):
        return None                      # the ray runtime (start-up under load, lost workers) is environment
    for f in reversed(frames):
        fn = os.path.abspath(f.filename)
        if fn.startswith(pkg):
            return os.path.splitext(fn[len(pkg):])[0].replace(os.sep, ".") + "." + f.name
        if fn.startswith(VERIF + os.sep):
            return None                  # raised by the harness itself (bad call, renamed private attribute, ...)
        # anything else (numpy, scipy, stdlib): keep walking outwards to see who called it
    return None


def report_uncaught(pid, tier, ex, site):
    from .common import EVID, load_known_findings
    import json
    key = f"raises:{site}:{type(ex).__name__}"
    known = {f["key"]: f for f in load_known_findings().get("findings", []) if f.get("property") == pid}
    if key in known:
        print(f"KNOWN-FINDING: property={pid} {key}: {known[key].get('what', '')}")
        print(f"MACHINERY-ERROR property={pid}: the check stopped at a known finding it does not handle itself")
        return 2
    rdir = os.path.join(EVID, "replay")
    os.makedirs(rdir, exist_ok=True)
    path = os.path.join(rdir, f"{pid}_uncaught.json")
    with open(path, "w") as f:
        json.dump({"property": pid, "key": key, "detail": {
            "error": f"{type(ex).__name__}: {ex}", "tier": tier, "seed": os.environ.get("VERIF_SEED", "0"),
            "traceback": traceback.format_exception(type(ex), ex, ex.__traceback__)[-12:],
            "how": f"bin/check {pid} {tier} (deterministic for a given VERIF_SEED): the package raised inside {site} on an input "
                   "generated from the specification"}}, f, indent=1, default=str)
    print(f"violation keys: {{{key!r}: 1}}")
    print(f"VIOLATION property={pid} replay={path}")
    print(f"  key={key}")
    return 1


if __name__ == "__main__":
    sys.exit(main())
