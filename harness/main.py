"""entry point: python -m harness.main <property id> [quick|thorough]

Property modules live in harness/props/*.py; each defines PROPS = {pid: claim-dict} and check(pid, tier)."""
import os
import sys
import glob
import importlib
import traceback

from .common import MachineryError, VERIF


def discover():
    reg = {}
    for f in sorted(glob.glob(os.path.join(VERIF, "harness", "props", "*.py"))):
        name = os.path.basename(f)[:-3]
        if name.startswith("_"):
            continue
        with open(f) as fh:
            src = fh.read()
        if "PROPS" not in src:
            continue
        # cheap static discovery: PROPS = {"C10": ..., }
        import re
        m = re.search(r"^PROPS\s*=\s*\{", src, re.M)
        if not m:
            continue
        for pid in re.findall(r'^\s*"(C\d\d)"\s*:', src[m.start():], re.M):
            reg[pid] = "harness.props." + name
    return reg


def main():
    if len(sys.argv) < 2:
        print("usage: check <id> [quick|thorough]")
        return 2
    pid = sys.argv[1]
    tier = sys.argv[2] if len(sys.argv) > 2 else os.environ.get("VERIF_TIER", "quick")
    if tier not in ("quick", "thorough"):
        tier = "quick"
    reg = discover()
    if pid not in reg:
        print(f"no check registered for {pid}")
        return 2
    try:
        m = importlib.import_module(reg[pid])
        return m.check(pid, tier)
    except MachineryError as ex:
        print(f"MACHINERY-ERROR property={pid}: {ex}")
        return 2
    except Exception:
        traceback.print_exc()
        print(f"MACHINERY-ERROR property={pid}: unexpected exception in the harness")
        return 2


if __name__ == "__main__":
    sys.exit(main())
