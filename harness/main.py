"""entry point: python -m harness.main <property id> [quick|thorough]"""
import os
import sys
import importlib
import traceback

from .common import MachineryError

REGISTRY = {
    "C10": ("harness.props.rungrid", "check"),
    "C11": ("harness.props.rungrid", "check"),
    "C12": ("harness.props.rungrid", "check"),
}


def main():
    if len(sys.argv) < 2:
        print("usage: check <id> [quick|thorough]")
        return 2
    pid = sys.argv[1]
    tier = sys.argv[2] if len(sys.argv) > 2 else os.environ.get("VERIF_TIER", "quick")
    if tier not in ("quick", "thorough"):
        tier = "quick"
    if pid not in REGISTRY:
        print(f"no check registered for {pid}")
        return 2
    mod, fn = REGISTRY[pid]
    try:
        m = importlib.import_module(mod)
        return getattr(m, fn)(pid, tier)
    except MachineryError as ex:
        print(f"MACHINERY-ERROR property={pid}: {ex}")
        return 2
    except Exception:
        traceback.print_exc()
        print(f"MACHINERY-ERROR property={pid}: unexpected exception in the harness")
        return 2


if __name__ == "__main__":
    sys.exit(main())
