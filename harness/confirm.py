"""Confirm a seeded change:  /venv/bin/python -m harness.confirm <seeded dir>

In a scratch worktree of /repo HEAD (under /tmp, removed afterwards): (1) demo.py exits 0 without the patch,
(2) non-zero with it, (3) the repository tests that execute any line touched by the patch (harness.testsel, from the
per-test coverage contexts of the complete suite) still pass with the patch, apart from the tests that fail on the
unchanged tree as well (BASELINE always_fail). Writes seeded/<name>/confirm.json."""
import json
import os
import re
import subprocess
import sys

from .testsel import select

REPO = "/repo"
ALWAYS_FAIL = set(json.load(open("/root/.vp/BASELINE.json"))["always_fail"])


def sh(cmd, **kw):
    return subprocess.run(cmd, shell=True, capture_output=True, text=True, **kw)


def nodeid_to_baseline(n):
    # tests/test_x.py::test_y[a] -> tests.test_x::test_y[a]
    f, _, rest = n.partition("::")
    return f[:-3].replace("/", ".") + "::" + rest


def main():
    d = os.path.abspath(sys.argv[1])
    name = os.path.basename(d)
    patch = os.path.join(d, "patch.diff")
    tests, touched, import_only = select(patch)
    res = dict(touched={k: sorted(v) for k, v in touched.items()}, n_selected=len(tests), import_time_only=import_only)
    wt = f"/tmp/wt_confirm_{name}_{os.getpid()}"
    sh(f"git -C {REPO} worktree remove --force {wt}")
    r = sh(f"git -C {REPO} worktree add -q --detach {wt} HEAD")
    if r.returncode:
        print("cannot create worktree", r.stderr)
        return 2
    sh(f"cp {REPO}/wannierberri/_version.py {wt}/wannierberri/")
    env = dict(os.environ, PYTHONPATH=wt, OMP_NUM_THREADS="1")
    env.pop("WANNIERBERRI_VERIF_TRACE", None)
    try:
        res["repo_head"] = sh(f"git -C {REPO} log --format=%h -1").stdout.strip()
        demo = os.path.join(d, "demo.py")
        r0 = subprocess.run(["/venv/bin/python", demo], capture_output=True, text=True, env=env, cwd="/tmp")
        res["demo_without_patch"] = r0.returncode
        ap = sh(f"git -C {wt} apply {patch}")
        if ap.returncode:
            res["patch_applies"] = False
            res["apply_error"] = ap.stderr[-400:]
            print("patch does not apply:", ap.stderr)
            json.dump(res, open(os.path.join(d, "confirm.json"), "w"), indent=1)
            return 1
        res["patch_applies"] = True
        r1 = subprocess.run(["/venv/bin/python", demo], capture_output=True, text=True, env=env, cwd="/tmp")
        res["demo_with_patch"] = r1.returncode
        res["demo_output_tail"] = (r1.stdout + r1.stderr)[-500:]
        # tests
        sel = tests if not import_only else ["tests"]
        files_first = ["tests/test_vaspspn.py"]          # its import makes wannierberri.utils available to fixtures
        args = ["/venv/bin/python", "-m", "pytest", "-q", "-p", "no:cacheprovider", "--timeout=1800", "-rfE"]
        if "--ray" not in sys.argv:
            args.append("--serial")
        if sel:
            rt = subprocess.run(args + files_first + sel, capture_output=True, text=True, env=env, cwd=wt)
            out = rt.stdout + rt.stderr
            failed = sorted(set(re.findall(r"^(?:FAILED|ERROR) (tests/\S+)", out, re.M)))
            new = [t for t in failed if nodeid_to_baseline(t) not in ALWAYS_FAIL]
            res["tests_summary"] = (re.findall(r"^(?:=+ )?(\d+ (?:passed|failed).*)$", out, re.M) or [out[-300:]])[-1]
            res["tests_failed_not_in_baseline"] = new
        else:
            res["tests_summary"] = "no test executes the touched lines"
            res["tests_failed_not_in_baseline"] = []
        res["confirmed"] = bool(res["demo_without_patch"] == 0 and res["demo_with_patch"] != 0
                                and not res["tests_failed_not_in_baseline"])
    finally:
        sh(f"git -C {REPO} worktree remove --force {wt}")
    json.dump(res, open(os.path.join(d, "confirm.json"), "w"), indent=1)
    print(name, "confirmed" if res.get("confirmed") else "NOT CONFIRMED",
          {k: res.get(k) for k in ("demo_without_patch", "demo_with_patch", "n_selected", "tests_summary", "tests_failed_not_in_baseline")})
    return 0


if __name__ == "__main__":
    sys.exit(main())
