"""Parser for TLA+ values as printed by TLC (state dumps, simulate files, PrintT output).

Values map to Python: ints, str, bool, tuple (sequences), frozenset (sets), dict (records and functions; records keyed
by str, functions keyed by the parsed domain value). Model values become ModelValue(name).
"""
import re


class ModelValue(str):
    pass


class _P:
    def __init__(self, s):
        self.s = s
        self.i = 0
        self.n = len(s)

    def ws(self):
        s, n = self.s, self.n
        while self.i < n and s[self.i] in " \t\r\n":
            self.i += 1

    def peek(self, k=1):
        return self.s[self.i:self.i + k]

    def expect(self, tok):
        self.ws()
        if not self.s.startswith(tok, self.i):
            raise ValueError(f"expected {tok!r} at {self.i}: {self.s[self.i:self.i + 40]!r}")
        self.i += len(tok)

    def value(self):
        self.ws()
        v = self.atom()
        self.ws()
        # interval a..b
        if self.peek(2) == "..":
            self.i += 2
            hi = self.atom()
            return frozenset(range(v, hi + 1))
        return v

    def atom(self):
        self.ws()
        s = self.s
        c = s[self.i]
        if c == '"':
            j = self.i + 1
            out = []
            while s[j] != '"':
                if s[j] == "\\":
                    j += 1
                    out.append({"n": "\n", "t": "\t"}.get(s[j], s[j]))
                else:
                    out.append(s[j])
                j += 1
            self.i = j + 1
            return "".join(out)
        if c == "<" and self.peek(2) == "<<":
            self.i += 2
            items = self.items(">>")
            return tuple(items)
        if c == "{":
            self.i += 1
            items = self.items("}")
            return frozenset(_freeze(x) for x in items)
        if c == "[":
            self.i += 1
            self.ws()
            d = {}
            if self.peek() == "]":
                self.i += 1
                return d
            while True:
                self.ws()
                m = re.compile(r"[A-Za-z_][A-Za-z0-9_]*").match(s, self.i)
                if not m:
                    raise ValueError(f"bad record field at {self.i}: {s[self.i:self.i + 40]!r}")
                key = m.group(0)
                self.i = m.end()
                self.expect("|->")
                d[key] = self.value()
                self.ws()
                if self.peek() == ",":
                    self.i += 1
                    continue
                self.expect("]")
                return d
        if c == "(":
            self.i += 1
            d = {}
            while True:
                k = self.value()
                self.expect(":>")
                v = self.value()
                d[_freeze(k)] = v
                self.ws()
                if self.peek(2) == "@@":
                    self.i += 2
                    continue
                self.expect(")")
                return d
        m = re.compile(r"-?\d+").match(s, self.i)
        if m:
            self.i = m.end()
            return int(m.group(0))
        m = re.compile(r"[A-Za-z_][A-Za-z0-9_]*").match(s, self.i)
        if m:
            self.i = m.end()
            w = m.group(0)
            if w == "TRUE":
                return True
            if w == "FALSE":
                return False
            return ModelValue(w)
        raise ValueError(f"cannot parse at {self.i}: {s[self.i:self.i + 40]!r}")

    def items(self, close):
        out = []
        self.ws()
        if self.s.startswith(close, self.i):
            self.i += len(close)
            return out
        while True:
            out.append(self.value())
            self.ws()
            if self.peek() == ",":
                self.i += 1
                continue
            self.expect(close)
            return out


def _freeze(x):
    if isinstance(x, dict):
        return tuple(sorted(((k, _freeze(v)) for k, v in x.items()), key=repr))
    if isinstance(x, (list, tuple)):
        return tuple(_freeze(v) for v in x)
    if isinstance(x, (set, frozenset)):
        return frozenset(_freeze(v) for v in x)
    return x


def parse_value(text):
    p = _P(text)
    v = p.value()
    p.ws()
    if p.i != p.n:
        raise ValueError(f"trailing text after value: {text[p.i:p.i + 40]!r}")
    return v


def parse_state_body(body):
    """body: text of one state, `/\\ v = value` conjuncts (or a single `v = value`)"""
    st = {}
    # split at top-level conjuncts: lines starting with '/\ '
    chunks = re.split(r"(?m)^/\\ ", body)
    for ch in chunks:
        ch = ch.strip()
        if not ch:
            continue
        m = re.match(r"([A-Za-z_][A-Za-z0-9_]*)\s*=\s*", ch)
        if not m:
            raise ValueError("bad conjunct: " + ch[:80])
        st[m.group(1)] = parse_value(ch[m.end():])
    return st


def parse_dump(path):
    """TLC -dump file: yields dict per state"""
    with open(path) as f:
        text = f.read()
    parts = re.split(r"(?m)^State \d+:\s*$", text)
    for p in parts[1:]:
        yield parse_state_body(p)


def parse_simulate_file(path):
    """TLC -simulate file=...: returns list of (action_name, state_dict)"""
    with open(path) as f:
        text = f.read()
    out = []
    for m in re.finditer(r"(?ms)^\\\* <?(\w+)[^\n]*\nSTATE_\d+ ==\s*\n(.*?)(?=^\\\* |^====|\Z)", text):
        out.append((m.group(1), parse_state_body(m.group(2))))
    return out


def seq(v):
    """a TLA function with domain 1..n printed as (1 :> a @@ 2 :> b) -> list; tuples -> list"""
    if isinstance(v, tuple):
        return list(v)
    if isinstance(v, dict):
        if not v:
            return []
        ks = sorted(v)
        if ks == list(range(1, len(ks) + 1)):
            return [v[k] for k in ks]
    if isinstance(v, frozenset) and not v:
        return []
    raise ValueError(f"not a sequence: {v!r}")
