"""Markdown table "as built, per property" from PROPS, the evidence files and the seeded results:
   /venv/bin/python -m harness.asbuilt_table"""
import glob
import json
import os
import re

VERIF = os.path.dirname(os.path.dirname(os.path.abspath(__file__)))


def main():
    man = json.load(open(os.path.join(VERIF, "MANIFEST.json")))
    kf = json.load(open(os.path.join(VERIF, "known_findings.json")))
    seeded = {}
    for d in sorted(glob.glob(os.path.join(VERIF, "seeded", "*"))):
        rp = os.path.join(d, "result.json")
        if not os.path.exists(rp):
            continue
        r = json.load(open(rp))
        pid = r.get("property")
        ok = any(c.get("exit") == 1 for c in r.get("checks", {}).values())
        seeded.setdefault(pid, []).append(os.path.basename(d) + (" caught" if ok else " MISSED"))
    print("| id | level | specification modules (spec/) | quick tier: TLC states / records validated / evaluations on the real code / wall s | known findings | fixed defects | seeded changes |")
    print("|---|---|---|---|---|---|---|")
    for c in man["checks"]:
        pid = c["property_id"]
        ev = {}
        p = os.path.join(VERIF, "evidence", pid + ".json")
        if os.path.exists(p):
            ev = json.load(open(p))
        cov = ev.get("coverage", ev)
        mods = sorted(set(re.findall(r"\b([A-Z][A-Za-z0-9_]+)\.tla", c["technique"] + " " + c["level_claimed"]["text"])))
        nk = sum(1 for f in kf["findings"] if f["property"] == pid)
        nf = sum(1 for f in kf["fixed"] if f"property={pid} " in f)
        wall = ev.get("wall_s", ev.get("wall", ""))
        print(f"| {pid} | {c['level_claimed']['category']} | {', '.join(mods) or '-'} | {cov.get('states', '?')} / "
              f"{cov.get('traces_validated_against_impl', '?')} / {cov.get('evaluations', '?')} / {wall} | {nk} | {nf} | "
              f"{'; '.join(seeded.get(pid, [])) or '-'} |")


if __name__ == "__main__":
    main()
