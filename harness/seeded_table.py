"""Markdown table of the seeded changes and which checks catch them:  /venv/bin/python -m harness.seeded_table"""
import glob
import json
import os

VERIF = os.path.dirname(os.path.dirname(os.path.abspath(__file__)))


def main():
    rows = []
    for d in sorted(glob.glob(os.path.join(VERIF, "seeded", "*"))):
        name = os.path.basename(d)
        try:
            meta = json.load(open(os.path.join(d, "meta.json")))
        except Exception:
            continue
        conf = json.load(open(os.path.join(d, "confirm.json"))) if os.path.exists(os.path.join(d, "confirm.json")) else {}
        res = json.load(open(os.path.join(d, "result.json"))) if os.path.exists(os.path.join(d, "result.json")) else {}
        files = ", ".join(os.path.basename(f) for f in meta.get("files", [])) or "?"
        what = (meta.get("summary") or "").replace("\n", " ").replace("|", "/")
        what = what[:170] + ("…" if len(what) > 170 else "")
        needs = (meta.get("needs") or "").replace("\n", " ").replace("|", "/")
        needs = needs[:150] + ("…" if len(needs) > 150 else "")
        det = []
        for pid, c in res.get("checks", {}).items():
            keys = ""
            for l in c.get("lines", []):
                if l.startswith("violation keys:"):
                    keys = l[len("violation keys:"):].strip()[:160]
            det.append(f"{pid} {res.get('tier', '')}: exit {c.get('exit')}" + (f" ({keys})" if keys and c.get("exit") == 1 else ""))
        confirmed = "yes" if conf.get("confirmed") else ("no" if conf else "—")
        tests = conf.get("tests_summary", "")
        rows.append(f"| {name} | {files} | {what} | {needs} | {confirmed} ({conf.get('n_selected', '?')} tests: {tests}) | {'; '.join(det) or 'not evaluated'} |")
    print("| id | file | change | needs | confirmed (demo 0/1, tests pass) | checks |")
    print("|---|---|---|---|---|---|")
    print("\n".join(rows))


if __name__ == "__main__":
    main()
