"""Batch validation of run() traces against spec/RunGridTrace.tla."""
import json
import os
import re

from . import tlc
from .common import SPEC, MachineryError
from .rungrid_world import GROUP_TLA, GROUPS


def _cfg(geo, nstep, acc, sorted_listing, diagnose):
    tmpl = open(os.path.join(SPEC, "RunGridTrace.cfg.tmpl")).read()
    return tmpl % dict(D=geo.D, N=geo.N, NDIV=geo.NDIV, LMAX=geo.LMAX, GROUP=GROUP_TLA[geo.group], NSTEP=nstep,
                       ACC="TRUE" if acc else "FALSE", SORTED="TRUE" if sorted_listing else "FALSE",
                       DIAG="TRUE" if diagnose else "FALSE",
                       CELLSYM="FALSE" if GROUPS[geo.group].get("hex") else "TRUE")


def _clean(ev):
    """drop None-valued keys (JSON null has no TLA+ counterpart)"""
    if isinstance(ev, dict):
        return {k: _clean(v) for k, v in ev.items() if v is not None}
    if isinstance(ev, list):
        return [_clean(x) for x in ev]
    return ev


def _run(traces, geo, nstep, name, acc, sorted_listing, diagnose, timeout):
    wd = os.path.join(tlc.WORK, "traces", name)
    os.makedirs(wd, exist_ok=True)
    tf = os.path.join(wd, "traces.json")
    with open(tf, "w") as f:
        json.dump({"traces": [_clean(t) for t in traces]}, f)
    st = tlc.run_tlc("RunGridTrace.tla", _cfg(geo, nstep, acc, sorted_listing, diagnose), "trace_" + name, workers=1,
                     coverage=False, env={"TRACE_FILE": tf}, timeout=timeout, dfs=True)
    if st.get("error") or st["distinct"] == 0 or st.get("timeout"):
        raise MachineryError(f"trace validation TLC run failed ({name}): {st.get('error') or st['output'][-800:]}")
    return st


def validate(traces, geo, nstep, name, acc=True, sorted_listing=True, timeout=1800):
    """returns (stats, verdicts) ; verdicts[i] = dict(ok=bool, why=str, at=int)"""
    if not traces:
        return dict(distinct=0, generated=0), []
    st = _run(traces, geo, nstep, name, acc, sorted_listing, False, timeout)
    out = st["output"]
    accepted = set(int(x) for x in re.findall(r'^<<"ACCEPT", (\d+)>>', out, re.M))
    inv = {}
    for t, l, n in re.findall(r'^<<"INVARIANT", (\d+), (\d+), "(\w+)">>', out, re.M):
        inv.setdefault(int(t), []).append((int(l), n))
    verdicts = []
    bad = []
    for i in range(1, len(traces) + 1):
        if i in inv:
            l, n = sorted(inv[i])[0]
            ev = traces[i - 1][l - 2]["e"] if 2 <= l <= len(traces[i - 1]) + 1 else "?"
            verdicts.append(dict(ok=False, why=f"invariant {n} violated after event #{l - 1} ({ev})", at=l - 1, clause=n))
        elif i in accepted:
            verdicts.append(dict(ok=True, why="accepted", at=len(traces[i - 1])))
        else:
            verdicts.append(None)
            bad.append(i)
    if bad:
        sub = [traces[i - 1] for i in bad]
        st2 = _run(sub, geo, nstep, name + "_diag", acc, sorted_listing, True, timeout)
        o2 = st2["output"]
        at = {}
        for t, l in re.findall(r'^<<"AT", (\d+), (\d+)>>', o2, re.M):
            at[int(t)] = max(at.get(int(t), 0), int(l))
        mism = {}
        for t, l, n in re.findall(r'^<<"MISMATCH", (\d+), (\d+), "([\w.]+)">>', o2, re.M):
            mism.setdefault(int(t), []).append((int(l), n))
        for j, i in enumerate(bad, start=1):
            tr = traces[i - 1]
            if j in mism:
                l, n = sorted(mism[j])[0]
                why = f"event #{l} ({tr[l - 1]['e']}): projected field '{n}' differs from the specification"
                verdicts[i - 1] = dict(ok=False, why=why, at=l, clause=n)
            else:
                l = at.get(j, 1)
                nxt = tr[l - 1]["e"] if l <= len(tr) else "(end)"
                why = f"event #{l} ({nxt}) is not enabled in the specification after the accepted prefix"
                verdicts[i - 1] = dict(ok=False, why=why, at=l, clause="enabledness:" + nxt)
    return st, verdicts
