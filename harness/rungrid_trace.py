"""Batch validation of run() traces against spec/RunGridTrace.tla, on two levels.

strict    (constant Strict = TRUE):  the trace must be the behaviour of the model of the code as it is (same K list
          as a sequence, same representatives, storage flags, evaluation / collection order, masks, restart files).
property  (Strict = FALSE): what C10/C11/C12 need (see the header of RunGridTrace.tla), evaluated on the coarse
          projection of the trace (`coarse`).

A trace accepted on the strict level is accepted on the property level.  Only a rejection on the property level (or an
invariant of RunGrid violated on either level) makes a verdict `ok = False`; a trace that only the strict level rejects
comes back with ok = True and `repr` = what differed (information for the evidence file)."""
import json
import os
import re

from . import tlc
from .common import SPEC, MachineryError
from .rungrid_world import GROUP_TLA, GROUPS

LOOP_EVENTS = ("Wait", "EndCollect", "Complete", "Divide")
PROCESS_EVENTS = ("Eval", "Collect", "EndProcess")


def _cfg(geo, nstep, acc, sorted_listing, diagnose, strict):
    tmpl = open(os.path.join(SPEC, "RunGridTrace.cfg.tmpl")).read()
    return tmpl % dict(D=geo.D, N=geo.N, NDIV=geo.NDIV, LMAX=geo.LMAX, GROUP=GROUP_TLA[geo.group], NSTEP=nstep,
                       ACC="TRUE" if acc else "FALSE", SORTED="TRUE" if sorted_listing else "FALSE",
                       DIAG="TRUE" if diagnose else "FALSE", STRICT="TRUE" if strict else "FALSE",
                       CELLSYM="FALSE" if GROUPS[geo.group].get("hex") else "TRUE")


def _clean(ev):
    """drop None-valued keys (JSON null has no TLA+ counterpart)"""
    if isinstance(ev, dict):
        return {k: _clean(v) for k, v in ev.items() if v is not None}
    if isinstance(ev, list):
        return [_clean(x) for x in ev]
    return ev


def coarse(trace):
    """projection for the property level: the events of the collection loop are dropped, and the frame of process()
    (BeginProcess .. EndProcess, AppendPickle) is completed where the implementation does not report it"""
    out = []
    phase = "idle"      # idle | started (process() expected) | process | processed | pickled
    for ev in trace:
        e = ev.get("e")
        if e in LOOP_EVENTS:
            continue
        if e in ("StartFresh", "StartRestart", "Refine"):
            out.append(ev)
            phase = "started"
            continue
        if e == "BeginProcess":
            phase = "process"
        elif e in PROCESS_EVENTS:
            if phase == "started":
                out.append(dict(e="BeginProcess", synthetic=True))
            phase = "processed" if e == "EndProcess" else "process"
        elif e in ("AppendPickle", "UpdateIntegral"):
            if phase == "started":
                out.append(dict(e="BeginProcess", synthetic=True))
                phase = "process"
            if phase == "process":
                out.append(dict(e="EndProcess", synthetic=True))
                phase = "processed"
            if e == "UpdateIntegral" and phase == "processed":
                out.append(dict(e="AppendPickle", synthetic=True))
            phase = "pickled" if e == "AppendPickle" else "idle"
        out.append(ev)
    return out


def _run(traces, geo, nstep, name, acc, sorted_listing, diagnose, strict, timeout, tolerate_error=False):
    wd = os.path.join(tlc.WORK, "traces", name)
    os.makedirs(wd, exist_ok=True)
    tf = os.path.join(wd, "traces.json")
    with open(tf, "w") as f:
        json.dump({"traces": [_clean(t) for t in traces]}, f)
    st = tlc.run_tlc("RunGridTrace.tla", _cfg(geo, nstep, acc, sorted_listing, diagnose, strict), "trace_" + name, workers=1,
                     coverage=False, env={"TRACE_FILE": tf}, timeout=timeout, dfs=True)
    st["scratch"] = [wd, st.get("meta")]
    if st.get("timeout"):
        raise MachineryError(f"trace validation TLC run timed out ({name})")
    if (st.get("error") or st["distinct"] == 0) and not tolerate_error:
        raise MachineryError(f"trace validation TLC run failed ({name}): {st.get('error') or st['output'][-800:]}")
    return st


def _parse(out):
    accepted = set(int(x) for x in re.findall(r'^<<"ACCEPT", (\d+)>>', out, re.M))
    inv = {}
    for t, l, n in re.findall(r'^<<"INVARIANT", (\d+), (\d+), "(\w+)">>', out, re.M):
        inv.setdefault(int(t), []).append((int(l), n))
    at = {}
    for t, l in re.findall(r'^<<"AT", (\d+), (\d+)>>', out, re.M):
        at[int(t)] = max(at.get(int(t), 0), int(l))
    mism = {}
    for t, l, n in re.findall(r'^<<"MISMATCH", (\d+), (\d+), "([\w.]+)">>', out, re.M):
        mism.setdefault(int(t), []).append((int(l), n))
    return accepted, inv, at, mism


def _ename(tr, l):
    return tr[l - 1].get("e", "?") if 1 <= l <= len(tr) else "(end)"


def validate(traces, geo, nstep, name, acc=True, sorted_listing=True, timeout=3600, levels=("strict", "property")):
    """returns (list of TLC stats, verdicts); verdicts[i] = dict(ok, why, at, clause, level, repr)
    repr (when the strict level rejected but the property level accepted): dict(at, event, clause).
    Both levels run with Diagnose = TRUE (one TLC run gives the verdict and the name of the first differing field): a
    trace is accepted iff TLC walked it to the end without MISMATCH and without INVARIANT line."""
    if not traces:
        return [], []
    stats = []
    n = len(traces)
    verdicts = [None] * n
    todo = list(range(n))      # indices still undecided after the strict level
    strict_info = {}
    if "strict" in levels:
        st = _run(traces, geo, nstep, name + "_s", acc, sorted_listing, True, True, timeout, tolerate_error=True)
        stats.append(st)
        accepted, inv, at, mism = _parse(st.get("output", ""))
        todo = []
        for i in range(n):
            tr = traces[i]
            t = i + 1
            first_m = min(mism[t], key=lambda x: x[0]) if t in mism else None
            first_i = min(inv[t], key=lambda x: x[0]) if t in inv else None
            if first_i is not None and (first_m is None or first_i[0] - 1 < first_m[0]):
                # an invariant of RunGrid fails in a state that matched the implementation so far
                l, nm = first_i
                verdicts[i] = dict(ok=False, level="strict", clause=nm, at=l - 1,
                                   why=f"invariant {nm} violated after event #{l - 1} ({_ename(tr, l - 1)})")
            elif t in accepted and first_m is None:
                verdicts[i] = dict(ok=True, level="strict", why="accepted", at=len(tr))
            else:
                if first_m is not None:
                    strict_info[i] = dict(at=first_m[0], event=_ename(tr, first_m[0]), clause=first_m[1])
                else:
                    l = at.get(t, 1)
                    strict_info[i] = dict(at=l, event=_ename(tr, l), clause=None)
                if st.get("error"):
                    strict_info[i]["tlc_error"] = st["error"][:160]
                todo.append(i)
    if todo and "property" not in levels:
        for i in todo:
            si = strict_info[i]
            verdicts[i] = dict(ok=False, level="strict", clause=si["clause"] or ("enabledness:" + si["event"]), at=si["at"],
                               why=f"strict level: event #{si['at']} ({si['event']}): {si['clause'] or 'not enabled'}")
        todo = []
    if todo:
        sub = [coarse(traces[i]) for i in todo]
        st = _run(sub, geo, nstep, name + "_p", acc, sorted_listing, True, False, timeout, tolerate_error=True)
        diag = True
        if st.get("error") or st["distinct"] == 0:
            # evaluation continued on a state that no longer fits the trace and hit an error: decide without diagnosis
            st = _run(sub, geo, nstep, name + "_p0", acc, sorted_listing, False, False, timeout)
            diag = False
        stats.append(st)
        accepted, inv, at, mism = _parse(st["output"])
        for j, i in enumerate(todo, start=1):
            tr = sub[j - 1]
            first_m = min(mism[j], key=lambda x: x[0]) if (diag and j in mism) else None
            first_i = min(inv[j], key=lambda x: x[0]) if j in inv else None
            if first_m is not None and (first_i is None or first_m[0] <= first_i[0] - 1):
                l, nm = first_m
                verdicts[i] = dict(ok=False, level="property", clause=nm, at=l, trace=tr,
                                   why=f"event #{l} ({_ename(tr, l)}) of the coarse trace: '{nm}' differs from the specification")
            elif first_i is not None:
                l, nm = first_i
                verdicts[i] = dict(ok=False, level="property", clause=nm, at=l - 1, trace=tr,
                                   why=f"invariant {nm} violated after event #{l - 1} ({_ename(tr, l - 1)}) of the coarse trace")
            elif j in accepted:
                verdicts[i] = dict(ok=True, level="property", why="accepted on the property level", at=len(tr), repr=strict_info.get(i))
            else:
                l = at.get(j, 1)
                nxt = _ename(tr, l)
                verdicts[i] = dict(ok=False, level="property", clause="enabledness:" + nxt, at=l, trace=tr,
                                   why=f"event #{l} ({nxt}) of the coarse trace is not enabled in the specification after the accepted prefix")
    return stats, verdicts
