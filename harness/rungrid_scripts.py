"""Scenario scripts for run(): derived from TLC behaviours of MC_RunGrid (spec -> code) or drawn at random, and their
execution on the real code (producing traces for RunGridTrace)."""
import os
import random
import shutil

from . import tlaparse
from .rungrid_world import World, Geometry, scripted_schedule, random_schedule

BIG = 1.0e4


def script_from_behaviour(beh):
    """beh: list of (action, state) from tlaparse.parse_simulate_file -> list of ops"""
    ops = []
    cur = None
    for _, st in beh:
        a = st["act"]
        n = a["name"]
        if n in ("StartFresh", "StartRestart"):
            cur = dict(op="run", restart=(n == "StartRestart"), mode=dict(a["mode"]), nit=a["nit"], refine=[],
                       sched={}, listing=list(a["listing"]) if n == "StartRestart" else None, batch=-1, pend=[],
                       start=st["start"])
            ops.append(cur)
        elif n == "EndA":
            ops.append(dict(op="markref"))
            cur = None
        elif cur is None:
            continue
        elif n == "BeginProcess":
            if len(st["sel"]) > 0:
                cur["batch"] += 1
                cur["sched"][cur["batch"]] = []
                cur["pend"] = []
        elif n == "Complete":
            cur["pend"].append(a["t"] - 1)
        elif n == "Wait":
            cur["sched"][cur["batch"]].append((cur["pend"], sorted(t - 1 for t in a["ready"])))
            cur["pend"] = []
        elif n == "Refine":
            g = st["start"] + st["it"] - 1  # global iteration at which the refinement was decided
            cur["refine"].append((g, [(tuple(c[0]), c[1]) for c in a["cells"]]))
    for o in ops:
        o.pop("pend", None)
        o.pop("batch", None)
    return ops


def priorities(ops):
    cells = {}
    gmax = 0
    for o in ops:
        if o["op"] == "run":
            for g, cs in o["refine"]:
                gmax = max(gmax, g)
                for c in cs:
                    cells.setdefault(c, g)
    return {c: BIG ** (gmax + 1 - g) for c, g in cells.items()}


def execute(ops, geo, workdir, adpt_fac=1, ncpu=2, klist_part=10):
    """runs the script on the real code; returns (trace events, list of exceptions, world)"""
    if os.path.isdir(workdir):
        shutil.rmtree(workdir)
    w = World(geo, workdir, priority=priorities(ops))
    errs = []
    for o in ops:
        if o["op"] == "markref":
            w.mark("MarkRef")
            w.clear_results()
            continue
        m = o["mode"]
        listing = o.get("listing")
        lf = None
        if listing is not None:
            def lf(files, listing=listing):
                key = {int(f.split("-")[-1].split(".")[0]): f for f in files}
                if sorted(key) != sorted(listing):
                    return files
                return [key[i] for i in listing]
        sched = o.get("sched_fn") or scripted_schedule(o.get("sched", {}))
        if o["restart"] and not os.path.exists(os.path.join(w.kdir, "K_list.pickle")):
            break
        res, err = w.run(o["nit"], parallel=m["par"], dump=m["dump"], allow=m["allow"], sym=m["sym"], restart=o["restart"],
                         adpt_fac=adpt_fac, schedule=sched, ncpu=ncpu, listing_fn=lf, klist_part=klist_part)
        if err:
            errs.append(err)
            break
    shutil.rmtree(workdir, ignore_errors=True)
    return w.events, errs, w


def random_ops(rng, geo, niter, adpt_fac, allow_par=True):
    """an uninterrupted run, then the same calculation stopped/restarted at random places; refinement choices are made
    by random priorities (the code's own selection decides; the spec accepts any selection)"""
    sym = rng.random() < 0.7

    def mode(par=None):
        d = rng.random() < 0.4
        return dict(par=(rng.random() < 0.5 and allow_par) if par is None else par, dump=d,
                    allow=d or rng.random() < 0.6, sym=sym, restart=False)
    ops = []
    mA = mode()
    ops.append(dict(op="run", restart=False, mode=mA, nit=niter, refine=[], sched_fn=random_schedule(rng, rng.random() < 0.5)))
    ops.append(dict(op="markref"))
    done = rng.randint(0, niter - 1) if niter > 0 else 0
    mB = mode()
    mB["allow"] = True
    ops.append(dict(op="run", restart=False, mode=mB, nit=done, refine=[], sched_fn=random_schedule(rng, rng.random() < 0.5)))
    while done < niter:
        n = rng.randint(1, niter - done)
        m = mode()
        m["restart"] = True
        if done + n < niter:
            m["allow"] = True
        perm = None
        ops.append(dict(op="run", restart=True, mode=m, nit=n, refine=[], listing=perm, shuffle=True,
                        sched_fn=random_schedule(rng, rng.random() < 0.5)))
        done += n
    return ops


def random_priorities(rng, geo, nchoices=12):
    """random cells get large random priorities so that refinement is scattered"""
    pr = {}
    U = geo.U
    for _ in range(nchoices):
        lev = rng.randint(0, geo.LMAX - 1)
        c = (rng.randrange(U), rng.randrange(U) if geo.D == 2 else 0)
        pr[(c, lev)] = BIG ** rng.randint(1, 3) * rng.choice([1, 2, 3, 5])
    return pr


def execute_random(ops, geo, workdir, rng, adpt_fac=1, ncpu=2):
    if os.path.isdir(workdir):
        shutil.rmtree(workdir)
    # priorities on all potential cells: every cell of level < LMAX gets a distinct random priority
    pr = {}
    w = World(geo, workdir, priority=None)
    seedv = rng.randrange(1 << 30)

    def pri(cell, lev, seedv=seedv):
        r = random.Random(hash((cell, lev, seedv)))
        return float(r.choice([1, 2, 3, 5, 7]) * 10 ** r.randint(0, 6))
    w.calc.pri = pri
    errs = []
    for o in ops:
        if o["op"] == "markref":
            w.mark("MarkRef")
            w.clear_results()
            continue
        m = o["mode"]
        lf = None
        if o.get("shuffle"):
            def lf(files, rng=rng):
                f2 = list(files)
                rng.shuffle(f2)
                return f2
        if o["restart"] and not os.path.exists(os.path.join(w.kdir, "K_list.pickle")):
            break
        res, err = w.run(o["nit"], parallel=m["par"], dump=m["dump"], allow=m["allow"], sym=m["sym"], restart=o["restart"],
                         adpt_fac=adpt_fac, schedule=o["sched_fn"], ncpu=ncpu, listing_fn=lf,
                         klist_part=rng.choice([1, 2, 10]))
        if err:
            errs.append(err)
            break
    shutil.rmtree(workdir, ignore_errors=True)
    return w.events, errs, w


def load_behaviours(simdir, limit=None):
    import glob
    out = []
    for f in sorted(glob.glob(os.path.join(simdir, "tr_*")))[:limit]:
        try:
            out.append(tlaparse.parse_simulate_file(f))
        except Exception as ex:  # pragma: no cover
            raise RuntimeError(f"cannot parse {f}: {ex}")
    return out
