"""Scenario scripts for run(): derived from TLC behaviours of MC_RunGrid (spec -> code) or drawn at random, and their
execution on the real code (producing traces for RunGridTrace)."""
import os
import shutil

from . import tlaparse
from .rungrid_world import (World, Priority, scripted_schedule, random_schedule, listing_fn,  # noqa: F401
                            factor_iters)

BIG = 1.0e4


def script_from_behaviour(beh):
    """beh: list of (action, state) from tlaparse.parse_simulate_file -> list of ops"""
    ops = []
    cur = None
    for _, st in beh:
        a = st["act"]
        n = a["name"]
        if n in ("StartFresh", "StartRestart"):
            cur = dict(op="run", restart=(n == "StartRestart"), mode=dict(a["mode"]), nit=a["nit"], refine=[],
                       sched={}, listing=list(a["listing"]) if n == "StartRestart" else None, ri=a.get("ri", -1), batch=-1, pend=[],
                       start=st["start"])
            cur["allow_arg"] = bool(a.get("allowarg", cur["mode"]["allow"])) if n == "StartFresh" else bool(cur["mode"]["allow"])
            ops.append(cur)
        elif n == "EndA":
            ops.append(dict(op="markref"))
            cur = None
        elif cur is None:
            continue
        elif n == "BeginProcess":
            if len(st["sel"]) > 0:
                cur["batch"] += 1
                cur["sched"][cur["batch"]] = []
                cur["pend"] = []
        elif n == "Complete":
            cur["pend"].append(a["t"] - 1)
        elif n == "Wait":
            cur["sched"][cur["batch"]].append((cur["pend"], sorted(t - 1 for t in a["ready"])))
            cur["pend"] = []
        elif n == "Refine":
            g = st["start"] + st["it"] - 1  # global iteration at which the refinement was decided
            cur["refine"].append((g, [(tuple(c[0]), c[1]) for c in a["cells"]]))
    for o in ops:
        o.pop("pend", None)
        o.pop("batch", None)
    return ops


def priorities(ops):
    cells = {}
    gmax = 0
    for o in ops:
        if o["op"] == "run":
            for g, cs in o["refine"]:
                gmax = max(gmax, g)
                for c in cs:
                    cells.setdefault(c, g)
    return {c: BIG ** (gmax + 1 - g) for c, g in cells.items()}


def classes_of(ops_or_summary, world):
    """scenario classes a script/summary belongs to (for the non-vacuity counters of the check)"""
    cl = set()
    nrest = sum(1 for o in ops_or_summary if isinstance(o, dict) and (o.get("restart") is True or o.get("run") == "restart"))
    if nrest >= 2:
        cl.add("two_restarts")
    seq = [o for o in ops_or_summary if isinstance(o, dict)]
    for a, b in zip(seq, seq[1:]):
        ma = a.get("mode")
        dumpa = ma.get("dump") if isinstance(ma, dict) else (ma is not None and "d" in ma)
        fresh = a.get("restart") is False or a.get("run") == "fresh"
        brest = b.get("restart") is True or b.get("run") == "restart"
        if fresh and brest and dumpa and a.get("allow_arg") is False and a.get("nit") == 0:
            cl.add("dump_without_allow_zero_first_leg_then_restart")
    for o in ops_or_summary:
        if not isinstance(o, dict):
            continue
        m = o.get("mode")
        if isinstance(m, dict):
            m = "".join(k[0] for k in ("par", "dump", "allow", "sym") if m.get(k))
        restart = o.get("restart") is True or o.get("run") == "restart"
        if restart:
            cl.add("restart")
            if o.get("ri", -1) != -1:
                cl.add("restart_back_or_explicit")
            if o.get("listing") and list(o["listing"]) != sorted(o["listing"]):
                cl.add("listing_permuted")
        if m is not None:
            if "p" in m:
                cl.add("parallel")
            if "d" in m:
                cl.add("dump")
            if "a" not in m and "d" not in m:
                cl.add("memory_only" if o.get("nit", 0) > 0 else "discarded")
            if "s" in m:
                cl.add("symmetry")
    if world.listing_consulted:
        cl.add("listing_consulted")
    return cl


def execute(ops, geo, workdir, adpt_fac=1, ncpu=2, klist_part=10):
    """runs the script on the real code; returns (trace events, list of error texts, world).  world.skipped_ops tells how
    many ops of the script were not executed (a run raised, or there was nothing to restart from)."""
    if os.path.isdir(workdir):
        shutil.rmtree(workdir)
    w = World(geo, workdir, priority=Priority("table", priorities(ops), salt=1))
    errs = []
    w.skipped_ops = 0
    for j, o in enumerate(ops):
        if o["op"] == "markref":
            w.mark("MarkRef")
            w.clear_results()
            continue
        m = o["mode"]
        listing = o.get("listing")
        lf = listing_fn(listing) if listing is not None else None
        sched = o.get("sched_fn") or scripted_schedule(o.get("sched", {}))
        if o["restart"] and not os.path.isdir(w.kdir):
            w.skipped_ops = len(ops) - j      # nothing was ever stored (the script starts in the middle of a behaviour)
            break
        # a restart that the specification allows is attempted even if the restart files are not there: then run() raises
        res, err = w.run(o["nit"], parallel=m["par"], dump=m["dump"], allow=o.get("allow_arg", m["allow"]), sym=m["sym"], restart=o["restart"],
                         adpt_fac=adpt_fac, schedule=sched, ncpu=ncpu, listing_fn=lf, klist_part=klist_part,
                         restart_iteration=o.get("ri", -1))
        if err or w.private_gone:
            if err:
                errs.append(err)
            w.skipped_ops = len(ops) - j - 1
            break
    shutil.rmtree(workdir, ignore_errors=True)
    w.geo.release()
    return w.events, errs, w


def random_mode(rng, sym, allow_par=True):
    d = rng.random() < 0.4
    return dict(par=(rng.random() < 0.5 and allow_par), dump=d, allow=d or rng.random() < 0.6, sym=sym, restart=False)


def execute_random(geo, workdir, rng, niter, adpt_fac=1, ncpu=2, allow_par=True, back=True, dump_noallow_zero=False):
    """an uninterrupted run (reference), then the same calculation stopped and restarted at random places (random
    modes, shuffled directory listings, sometimes restart_iteration going back); refinement choices are made by the
    code's own selection on pseudo-random priorities (a deterministic, tie-free function of the cell), the spec accepts
    any.  returns (events, errors, world, summary of the ops actually executed)"""
    import glob as _glob
    if os.path.isdir(workdir):
        shutil.rmtree(workdir)
    w = World(geo, workdir, priority=Priority("random", salt=rng.randrange(1 << 30)))
    sym = rng.random() < 0.7
    errs = []
    summary = []

    def go(nit, m, restart=False, ri=-1, shuffle=False, allow_arg=None):
        allow_arg = m["allow"] if allow_arg is None else allow_arg
        def shuffled(files):
            f2 = list(files)
            rng.shuffle(f2)
            return f2
        lf = shuffled if shuffle else None
        rec = dict(run="restart" if restart else "fresh", nit=nit, ri=ri, allow_arg=bool(allow_arg),
                   mode="".join(k[0] for k in ("par", "dump", "allow", "sym") if m[k]))
        summary.append(rec)
        res, err = w.run(nit, parallel=m["par"], dump=m["dump"], allow=allow_arg, sym=m["sym"], restart=restart,
                         adpt_fac=adpt_fac, schedule=random_schedule(rng, rng.random() < 0.5), ncpu=ncpu, listing_fn=lf,
                         klist_part=rng.choice([1, 2, 10]), restart_iteration=ri)
        if restart:
            rec["listing"] = list(w._listing_before)
        if err:
            errs.append(err)
        return err or (w.private_gone and "private names gone") or None
    if go(niter, random_mode(rng, sym, allow_par)) is None and niter > 0:
        w.mark("MarkRef")
        w.clear_results()
        summary.append("MarkRef")
        mB = random_mode(rng, sym, allow_par)
        mB["allow"] = True
        done = rng.randint(0, niter - 1)
        aarg = True
        if dump_noallow_zero:      # dump_results without allow_restart, stopped right after iteration 0
            mB["dump"], done, aarg = True, 0, False
        elif mB["dump"] and rng.random() < 0.5:
            aarg = False           # restartable "for free": dump_results implies allow_restart
        err = go(done, mB, allow_arg=aarg)
        steps = 0
        while err is None and steps < 4:
            steps += 1
            its = sorted(factor_iters(_glob.glob(os.path.join(w.kdir, "factors_iter-*.npy"))) or [])
            if not its:
                break
            ri = -1
            if back and sym and rng.random() < 0.35:
                ri = rng.choice([-2, -3, 0, its[0]])
            if ri >= 0:
                land = ri
            else:
                x = its[-1] + ri + 1
                land = 0 if x < 0 else max(i for i in its if i <= x)
            if land >= niter:
                break
            n = rng.randint(1, niter - land)
            m = random_mode(rng, sym, allow_par)
            m["restart"] = True
            m["allow"] = True
            err = go(n, m, restart=True, ri=ri, shuffle=True)
            if land + n >= niter and rng.random() < 0.7:
                break
    shutil.rmtree(workdir, ignore_errors=True)
    w.geo.release()
    return w.events, errs, w, summary


def load_behaviours(simdir, limit=None):
    import glob
    out = []
    for f in sorted(glob.glob(os.path.join(simdir, "tr_*")))[:limit]:
        try:
            out.append(tlaparse.parse_simulate_file(f))
        except Exception as ex:  # pragma: no cover
            raise RuntimeError(f"cannot parse {f}: {ex}")
    return out
