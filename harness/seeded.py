"""Evaluate the checks against a seeded change:  /venv/bin/python -m harness.seeded <seeded dir> [ids...] [--tier quick]

Default: applies seeded/<name>/patch.diff in a scratch git worktree of /repo HEAD (under /tmp, removed afterwards) and
runs the demonstration and the checks with PYTHONPATH pointing at it (so concurrent work on /repo is not disturbed).
With --inplace the patch is applied to /repo itself and ALWAYS reverted (`git -C /repo checkout -- .`).
Writes seeded/<name>/result.json."""
import json
import os
import subprocess
import sys
import time

REPO = "/repo"
VERIF = os.path.dirname(os.path.dirname(os.path.abspath(__file__)))


def sh(cmd, **kw):
    return subprocess.run(cmd, shell=True, capture_output=True, text=True, **kw)


def main():
    args = [a for a in sys.argv[1:] if not a.startswith("--")]
    tier = "quick"
    if "--tier" in sys.argv:
        tier = sys.argv[sys.argv.index("--tier") + 1]
        args = [a for a in args if a != tier]
    d = os.path.abspath(args[0])
    meta = json.load(open(os.path.join(d, "meta.json")))
    ids = args[1:] or [meta["property"]]
    patch = os.path.join(d, "patch.diff")
    demo = os.path.join(d, "demo.py")
    inplace = "--inplace" in sys.argv
    if inplace and sh(f"git -C {REPO} status --porcelain --untracked-files=no").stdout.strip():
        print("refusing: /repo has uncommitted changes")
        return 2
    res = dict(property=meta["property"], tier=tier, checks={}, mode="inplace" if inplace else "worktree")
    target = REPO
    if not inplace:
        target = f"/tmp/wt_eval_{os.path.basename(d)}_{os.getpid()}"
        sh(f"git -C {REPO} worktree remove --force {target}")
        r = sh(f"git -C {REPO} worktree add -q --detach {target} HEAD")
        if r.returncode != 0:
            print("cannot create worktree:", r.stderr)
            return 2
        sh(f"cp {REPO}/wannierberri/_version.py {target}/wannierberri/")
        res["repo_head"] = sh(f"git -C {REPO} log --format=%h -1").stdout.strip()
    env = dict(os.environ, PYTHONPATH=target)
    if os.path.exists(demo):
        r0 = subprocess.run(["/venv/bin/python", demo], capture_output=True, text=True, env=env, cwd=d)
        res["demo_without_patch"] = r0.returncode
    ap = sh(f"git -C {target} apply {patch}")
    if ap.returncode != 0:
        print("patch does not apply:", ap.stderr)
        return 2
    try:
        if os.path.exists(demo):
            r1 = subprocess.run(["/venv/bin/python", demo], capture_output=True, text=True, env=env, cwd=d)
            res["demo_with_patch"] = r1.returncode
            res["demo_output"] = (r1.stdout + r1.stderr)[-600:]
        for pid in ids:
            t0 = time.time()
            r = subprocess.run([os.path.join(VERIF, "bin", "check"), pid, tier], capture_output=True, text=True, cwd=VERIF, env=env)
            lines = [l for l in r.stdout.splitlines() if l.startswith(("VIOLATION", "  key=", "violation keys", "MACHINERY", "KNOWN-FINDING", "["))]
            res["checks"][pid] = dict(exit=r.returncode, wall_s=round(time.time() - t0, 1), lines=lines[:12])
            print(pid, "exit", r.returncode, f"{time.time() - t0:.0f}s", lines[:3])
    finally:
        if inplace:
            sh(f"git -C {REPO} checkout -- .")
        else:
            sh(f"git -C {REPO} worktree remove --force {target}")
    res["detected_by"] = [p for p, c in res["checks"].items() if c["exit"] == 1]
    with open(os.path.join(d, "result.json"), "w") as f:
        json.dump(res, f, indent=1)
    # evidence files were rewritten by runs on a mutated tree: restore the committed ones
    sh(f"git -C {VERIF} checkout -- evidence", cwd=VERIF)
    return 0


if __name__ == "__main__":
    sys.exit(main())
