"""Replay of MC_SysAlgOps states on real wannierberri objects (helper of props/sysalg.py; C05, C25, C26)."""
import json
import os
import re
import shutil
import warnings
import numpy as np

from .. import tlc, ftable
from ..common import MachineryError, quiet, WORK
from . import _sysalg_world as W

INVARIANTS = ["LawReorder", "LawRotate", "LawDoubleSpin", "LawMakeSOC", "LawToPlainR", "LawInterpolate", "AlwaysHermitian"]
DEFAULTS = dict(NWS="{1, 2}", KDIRS=2, MAXHOPS=1, MAXHOPS2=1, NEPS=2, NCEN=2, WITHX="{FALSE}", OPS='{"Reorder"}', MAXLEN=1,
                PHS="{0, 1}", ANGM="{0, 1}", ANGN="{0, 1}", ALS="{1}", MAXSOC=1, DEN=2, SC=1, AEXT=0, NSPINS="{2}", NAMES="{}", Variant='"ok"')
OP_SITE = {"Reorder": "System_R.reorder", "Rotate": "rotate_all_R_matrices", "DoubleSpin": "System_R.double_spin",
           "MakeSOC": "SystemSOC", "SetSOC": "SystemSOC.set_soc_axis", "ToPlainR": "SystemSOC.get_system_R",
           "Interpolate": "SystemInterpolator.interpolate", "base": "System_R.from_sparse"}
TLC_WORKERS = 4


# ------------------------------------------------------------------ scratch: unique per property id and process
_SCRATCH = {}


def scratch(pid=None):
    if pid is not None:
        _SCRATCH["root"] = os.path.join(WORK, f"sysalg_{pid}_{os.getpid()}")
        os.makedirs(_SCRATCH["root"], exist_ok=True)
    if "root" not in _SCRATCH:
        _SCRATCH["root"] = os.path.join(WORK, f"sysalg_x_{os.getpid()}")
        os.makedirs(_SCRATCH["root"], exist_ok=True)
    return _SCRATCH["root"]


def scratch_cleanup():
    r = _SCRATCH.pop("root", None)
    if r:
        shutil.rmtree(r, ignore_errors=True)


def ops_cfg(invariants=INVARIANTS, **kw):
    d = dict(DEFAULTS)
    d.update(kw)
    return ("SPECIFICATION Spec\nCONSTANTS\n" + "".join(f"  {k} = {v}\n" for k, v in d.items()) +
            "".join(f"INVARIANT {i}\n" for i in invariants) + "CHECK_DEADLOCK FALSE\n"), d


def run_tlc(module, cfg, name, **kw):
    kw.setdefault("workers", TLC_WORKERS)
    kw.setdefault("coverage", False)
    return tlc.run_tlc(module, cfg, name, workroot=scratch(), **kw)


def enumerate_states(module, cfg, name, workers=None, timeout=1700):
    """like ftable.enumerate_states, without -coverage (the cost model disables TLC's caching of lazily evaluated operator
    arguments, which makes the matrix arithmetic of SysNum many times slower); non-vacuity is decided from the dump instead"""
    st = run_tlc(module, cfg, name, workers=workers or TLC_WORKERS, dump=True, timeout=timeout)
    if st.get("timeout"):
        raise MachineryError(f"TLC timed out on {name}")
    if st.get("error") and not st.get("violation"):
        raise MachineryError(f"TLC error on {name}: {st['error'][:600]}")
    return st


def sorted_states(st, keyf):
    """the states of a dump in an order that does not depend on TLC's scheduling"""
    states = list(ftable.dump_states(st))
    states.sort(key=keyf)
    return states


def validate_records(module, cfg, records, name, timeout=1500):
    """ftable.validate_records with a scratch directory that is unique per property id and process"""
    wd = os.path.join(scratch(), "records", name)
    os.makedirs(wd, exist_ok=True)
    tf = os.path.join(wd, "recs.json")
    with open(tf, "w") as f:
        json.dump({"recs": records}, f)
    st = run_tlc(module, cfg, f"rec_{name}", workers=1, env={"TRACE_FILE": tf}, timeout=timeout)
    if st.get("error") or st.get("timeout") or st["distinct"] == 0:
        raise MachineryError(f"record validation TLC run failed ({name}): {st.get('error') or st.get('output', '')[-800:]}")
    if st["distinct"] != len(records):
        raise MachineryError(f"record validation ({name}): {st['distinct']} states for {len(records)} records")
    bad = {}
    for i, cl in re.findall(r'^<<"BAD", (\d+), "([\w.:-]+)">>', st["output"], re.M):
        bad.setdefault(int(i) - 1, []).append(cl)
    tot = dict(distinct=st["distinct"], generated=st["generated"], wall_s=st["wall_s"], mode="record-validation")
    return tot, bad


def run_ops(rep, name, workers, **kw):
    cfg, consts = ops_cfg(**kw)
    st = enumerate_states("MC_SysAlgOps.tla", cfg, name, workers=workers)
    st["constants"] = consts
    if ftable.spec_violation(rep, st, name):
        return None
    rep.add_tlc(name, st)
    return st


def sensitivity(rep, name, expect, workers, **kw):
    cfg, _ = ops_cfg(**kw)
    st = run_tlc("MC_SysAlgOps.tla", cfg, name, workers=workers, timeout=1200)
    if not st.get("violation") or st["violation"][1] != expect:
        raise MachineryError(f"sensitivity self-test {name}: expected TLC to violate {expect}, got {st.get('violation')} {str(st.get('error'))[:300]}")
    rep.part(name, sensitivity_violation=st["violation"][1], variant=kw.get("Variant"))


def ks_of(state):
    return sorted(state["obs"].keys())


def state_key(state):
    return W.stable_key((state["base"], state["hist"]))


PAULI_XYZ = np.array([[[0, 1], [1, 0]], [[0, -1j], [1j, 0]], [[1, 0], [0, -1]]], dtype=complex)


def interlaced_ss(nw2):
    exp = np.zeros((nw2, nw2, 3), dtype=complex)
    for m in range(nw2 // 2):
        exp[2 * m:2 * m + 2, 2 * m:2 * m + 2, :] = np.transpose(PAULI_XYZ, (1, 2, 0))
    return exp


def axis_of(m, n):
    th, ph = m * np.pi / 2, n * np.pi / 2
    return np.array([np.sin(th) * np.cos(ph), np.sin(th) * np.sin(ph), np.cos(th)])


def ss_at_R0(real):
    """SS(R = 0) of a real system, or None when it is not reachable"""
    return W.private("SS(R=0)", lambda: np.array(real.get_R_mat("SS"))[[tuple(int(x) for x in R) for R in real.rvec.iRvec].index((0, 0, 0))])


def normalise_double_spin(real, info=None):
    """after double_spin: the pairing (up, down) is read from the code's SS; any order of the doubled functions that keeps
    the order of the orbitals is accepted and brought to the interlaced order of the specification with the public reorder"""
    ss0 = ss_at_R0(real)
    if ss0 is None:
        return None
    pairs = W.spin_pairs_of(ss0)
    if pairs is None:
        return False
    q = [i for p in pairs for i in p]
    if q != list(range(len(q))):
        if info is not None:
            info["double_spin_order"] = q
        W.under_test(real.reorder, q)
    return True


def _mutate(system):
    """spoil a result of interpolate in place (the next call of the same interpolator must not see it)"""
    for key in ("Ham", "AA"):
        if system.has_R_mat(key):
            system.get_R_mat(key)[...] += 7.0
    system.wannier_centers_cart += 0.37


def apply_hist(state, var, hist=None):
    """base + operation history on real objects. Only the public call of each operation runs through `under_test`.
    Returns (kind, real object, info). Raises W.UnderTestError (with .op set) / W.HarnessMisuse"""
    from wannierberri.system.interpolate import SystemInterpolator
    hist = state["hist"] if hist is None else hist
    ks = ks_of(state)
    bkw = dict(periodic=var["periodic"], lattice=var["lattice"])
    real = W.setup(W.build, W.sys_from_tla(state["base"]), **bkw)
    kind, nspin, hassoc = "R", 2, False
    info = dict(ss_exp=None)
    for idx, op in enumerate(hist):
        name = op["op"]
        last = idx == len(hist) - 1
        try:
            with quiet(), warnings.catch_warnings():
                warnings.simplefilter("ignore")
                if last and kind == "R":
                    info["dh_prev"] = W.under_test(W.real_dhk, real, ks)
                if name == "Reorder":
                    p0 = [x - 1 for x in op["p"]]
                    names = None
                    if var["names"]:
                        names = np.array([f"w{i}" for i in range(real.num_wann)])
                        real.wannier_names = names.copy()
                    W.under_test(real.reorder, p0)
                    if names is not None:
                        got = W.private("wannier_names", lambda: list(real.wannier_names))
                        if last and got is not None and got != list(names[p0]):
                            info["names_diff"] = dict(expected=list(names[p0]), got=got)
                        if hasattr(real, "wannier_names"):
                            del real.wannier_names                 # the harness put them there; later operations do not maintain them
                    if info["ss_exp"] is not None:
                        info["ss_exp"] = info["ss_exp"][p0][:, p0]
                    info["p0"] = p0
                elif name == "Rotate":
                    U = W.tla_mat(op["U"])
                    W.setup(W.op_rotate, real, U)
                    if info["ss_exp"] is not None:
                        info["ss_exp"] = np.einsum("ab,bcx,cd->adx", U.conj().T, info["ss_exp"], U)
                    info["U"] = U
                elif name == "DoubleSpin":
                    W.under_test(real.double_spin)
                    info["pairing_ok"] = normalise_double_spin(real, info)
                    info["ss_exp"] = interlaced_ss(real.num_wann)
                elif name == "MakeSOC":
                    nspin = int(op.get("nspin", 2))
                    upnw = real.num_wann
                    dn = None if nspin == 1 else W.setup(W.build, W.sys_from_tla(op["dn"]), **bkw)
                    real = W.make_soc(real, dn)
                    kind, info["ss_exp"] = "SOC", None
                elif name == "SetSOC":
                    nw = upnw
                    rsS = sorted(tuple(R) for R in op["rsS"])
                    D = {st: {R: np.array([[[complex(g[0], g[1]) for g in op["D"][st][R][m][n]] for n in range(nw)] for m in range(nw)], dtype=complex)
                              for R in rsS} for st in ("00", "11", "01")}
                    info["soc_ret"] = W.set_soc(real, dict(up=dict(nw=nw), rsS=rsS, D=D, al=op["al"]), op["m"], op["n"], nspin=nspin,
                                                degrees=bool(var["h"] & 1))
                    info["mn"] = (op["m"], op["n"])
                    hassoc = True
                elif name == "ToPlainR":
                    info["no_soc_terms"] = not hassoc
                    if last:
                        info["hk_prev"] = W.under_test(W.real_hk, real, ks)
                    real = W.under_test(real.get_system_R)
                    kind = "R"
                elif name == "Interpolate":
                    s1 = W.setup(W.build, W.sys_from_tla(op["s1"]), **bkw)
                    if (var["h"] >> 4) & 1:                          # the same R-vectors need not be stored in the same order
                        info["shuffled_R"] = W.shuffle_R(s1)
                    upg = (1, 1, 0, -1)[(var["h"] >> 2) & 3]
                    before0, before1 = W.project(real)[0], W.project(s1)[0]
                    itp = W.under_test(SystemInterpolator, real, s1, use_pointgroup=upg) if upg != 1 else W.under_test(SystemInterpolator, real, s1)
                    if (var["h"] >> 1) & 1:                        # re-use: an earlier result, spoiled, must not influence the next one
                        first = W.under_test(itp.interpolate, op["a"] / op["den"])      # the same alpha: a result that aliases the interpolator's own data shows
                        W.setup(_mutate, first)
                        info["reused"] = True
                    res = W.under_test(itp.interpolate, op["a"] / op["den"])
                    ch = W.diff_sys(before0, W.project(real)[0]) + W.diff_sys(before1, W.project(s1)[0])
                    if ch:
                        info["inputs_changed"] = ch[:4]
                    real = res
                    info["use_pointgroup"] = upg
                    info["ss_exp"] = None
                else:
                    raise MachineryError(f"unknown op {name}")
        except (W.UnderTestError, W.HarnessMisuse) as e:
            e.op = name
            e.no_soc_terms = bool(info.get("no_soc_terms")) and name == "ToPlainR"
            raise
        except (TypeError, AttributeError) as ex:                 # outside the public calls: the harness's own use of the API
            e = W.HarnessMisuse(f"{type(ex).__name__}: {ex}"[:300]) if W._site_of(ex) is None else W.UnderTestError(ex, W._site_of(ex))
            e.op, e.no_soc_terms = name, False
            raise e from ex
    info["nspin"] = nspin
    return kind, real, info


def _key_raises(e):
    site = OP_SITE.get(getattr(e, "op", None), "sysalg")
    return f"{site}:no_soc_terms:raises" if getattr(e, "no_soc_terms", False) else f"{site}:raises"


def replay_state(rep, state, pid, tag=""):
    """one TLC state on the real code, exact comparison with cur / obs / aux. Returns the real object (for numeric follow-ups)"""
    hist = state["hist"]
    last = hist[-1]["op"] if hist else "base"
    site = OP_SITE[last]
    ks = ks_of(state)
    var = W.variant_of((state["base"], hist))
    rep.case((tag, state_key(state)), nontrivial=bool(hist))
    detail = dict(base=_js(state["base"]), hist=_js(hist), lattice=var["lattice"].tolist(), periodic=list(var["periodic"]))
    try:
        kind, real, info = apply_hist(state, var)
    except W.NonIntegral as ex:
        rep.violation(f"{site}:non-integral", dict(detail, error=str(ex)))
        return None
    except W.UnderTestError as e:                              # the real code raised where the specification defines a result
        rep.violation(_key_raises(e), dict(detail, error=str(e)[:400], raised_in=e.site, during=getattr(e, "op", None)))
        return None
    except W.HarnessMisuse as e:
        W.note_skip(f"replay:{getattr(e, 'op', 'base')}", e)
        return None
    if kind != state["kind"]:
        raise MachineryError("replay lost track of the system kind")
    if info.get("names_diff"):
        rep.violation("System_R.reorder:wannier_names", dict(detail, **info["names_diff"]))
    if info.get("inputs_changed"):
        rep.violation("SystemInterpolator.interpolate:inputs_modified", dict(detail, differences=info["inputs_changed"]))
    if info.get("pairing_ok") is False:
        rep.violation("System_R.double_spin:SS", dict(detail, note="SS(R=0) after double_spin is not a pairing of every function with one partner"))
    if info.get("double_spin_order"):
        rep.part("double_spin_order_not_interlaced", cases=rep.parts.get("double_spin_order_not_interlaced", {}).get("cases", 0) + 1)
    # the code's rotated Pauli matrices may be any valid choice (Pauli algebra, spin along the axis diagonal)
    exp_hk, pauli_alt = None, None
    if "mn" in info:
        m, n = info["mn"]
        socspec = W.soc_from_tla(state["cur"] if kind == "SOC" else state["prev"])
        ok, pcode = W.guarded(rep, "SOC.get_pauli_rotated", detail, W.code_pauli, m, n)
        if ok and np.max(np.abs(pcode - socspec["P"])) > 1e-12:
            defect = W.pauli_defect(pcode, axis_of(m, n))
            if defect > 1e-12:
                rep.violation("SOC.get_pauli_rotated:algebra", dict(detail, m=m, n=n, defect=defect, got=_c(pcode)))
                return real
            pauli_alt = dict(socspec, P=pcode)
            rep.part("pauli_choice_differs_from_spec", cases=rep.parts.get("pauli_choice_differs_from_spec", {}).get("cases", 0) + 1)
            exp_hk = lambda k: W.abs_hk_soc(pauli_alt, k)
    if kind == "R":
        cur = W.sys_from_tla(state["cur"])
        try:
            got, views = W.project(real)
        except W.NonIntegral as ex:
            rep.violation(f"{site}:non-integral", dict(detail, error=str(ex)))
            return real
        if pauli_alt is None:
            d = W.diff_sys(cur, got, centres=True)
            if d:
                rep.violation(f"{site}:projection", dict(detail, differences=d[:6]))
        else:
            cur = got                                            # the absolute prediction used the specification's Pauli choice
        if bool(got["spinor"]) != bool(cur["spinor"]):
            c = rep.parts.get("spinor_flag_differs", {})
            rep.part("spinor_flag_differs", **{site: c.get(site, 0) + 1}, example=repr(got.get("spinor_raw")))
        _check_centres(rep, real, got, cur, views, ks, site, last, detail, var, info)
        if info.get("ss_exp") is not None:
            ss = ss_at_R0(real)
            if ss is not None and (ss.shape != info["ss_exp"].shape or np.max(np.abs(ss - info["ss_exp"])) > 1e-12):
                rep.violation(f"{site}:SS", dict(detail, expected=_c(info["ss_exp"]), got=_c(ss)))
        if last == "ToPlainR" and info.get("hk_prev") is not None:
            ok, hk = W.guarded(rep, f"{site}:HH_K", detail, W.real_hk, real, ks)
            if ok and (hk.shape != info["hk_prev"].shape or np.max(np.abs(hk - info["hk_prev"])) > 1e-9):
                rep.violation(f"{site}:same_hamiltonian", dict(detail, k_quarters=ks, soc=_c(info["hk_prev"]), plain=_c(hk)))
    _compare_obs(rep, state, real, ks, site, detail, exp_hk=exp_hk)
    if kind == "SOC" and state["cur"]["hassoc"]:
        socabs = pauli_alt or W.soc_from_tla(state["cur"])
        hs, ss_all = info.get("soc_ret", (None, None))
        rs = [tuple(int(x) for x in R) for R in real.rvec.iRvec]
        if hs is not None:
            expd = W.abs_ham_soc(socabs) if pauli_alt else {R: W.tla_mat(state["aux"][R]) for R in rs}
            for R in rs:
                g = hs[rs.index(R)]
                if np.max(np.abs(g - expd[R])) > 1e-9:
                    rep.violation("SystemSOC.set_soc_axis:Ham_SOC", dict(detail, R=R, expected=_c(expd[R]), got=_c(g)))
                    break
        if ss_all is not None:
            ss = ss_all[rs.index((0, 0, 0))]
            nw = socabs["up"]["nw"]
            exp = np.zeros((2 * nw, 2 * nw, 3), dtype=complex)
            for m in range(nw):
                exp[2 * m:2 * m + 2, 2 * m:2 * m + 2, :] = np.transpose(socabs["P"], (1, 2, 0))
            if np.max(np.abs(ss - exp)) > 1e-9:
                rep.violation("SystemSOC.set_soc_axis:SS", dict(detail, expected=_c(exp), got=_c(ss)))
    return real


def _bump(rep, part, key):
    c = rep.parts.get(part, {})
    rep.part(part, **{key: c.get(key, 0) + 1})


def _check_centres(rep, real, got, cur, views, ks, site, last, detail, var, info):
    """the centres of the result are in force everywhere: the public wannier_centers_red, and (observably) the Wannier-gauge
    derivative of H(k), which uses the shifts of the R-vectors, equals that of a system freshly built from the result"""
    ksite = f"{site}:centres_not_propagated" if last == "Interpolate" else f"{site}:shifts"
    dv = W.diff_views(got["cen"], views, only=("cen_red",))
    if dv:
        rep.violation(ksite, dict(detail, centres_twelfths=got["cen"].tolist(), differences=dv,
                                  note="the public wannier_centers_red must be wannier_centers_cart in reduced coordinates"))
    dsh = W.diff_views(got["cen"], views, only=("shifts_left", "shifts_right"))
    ok, dh = W.guarded(rep, f"{site}:dHk", detail, W.real_dhk, real, ks)
    if not ok:
        return
    if dh is None:
        if dsh:                                                   # fall-back on the private view when the derivative is not reachable
            rep.violation(ksite, dict(detail, centres_twelfths=got["cen"].tolist(), differences=dsh))
        return
    try:
        fresh = W.setup(W.build, dict(got, M={}), periodic=var["periodic"], lattice=var["lattice"])
        dh2 = W.real_dhk(fresh, ks)
    except W.HarnessMisuse as e:
        W.note_skip("rebuild", e)
        dh2 = None
    if dh2 is not None and (dh.shape != dh2.shape or np.max(np.abs(dh - dh2)) > 1e-8):
        rep.violation(ksite, dict(detail, centres_twelfths=got["cen"].tolist(), private_views=dsh,
                                  note="the Wannier-gauge derivative of H(k) of the result differs from that of a system built from "
                                       "the result's own matrices and centres: the shifts of its R-vectors are not its centres",
                                  k_quarters=ks[0], got=_c(dh[0]), rebuilt=_c(dh2[0])))
        return
    if dsh:
        _bump(rep, "private_shift_views_differ_but_derivative_consistent", site)
    # C05: relational form, independent of the convention of the Wannier gauge
    prev = info.get("dh_prev")
    if prev is not None and last in ("Reorder", "Rotate"):
        if last == "Reorder":
            p0 = info["p0"]
            exp = prev[:, p0][:, :, p0]
        else:
            U = info["U"]
            exp = np.einsum("ab,kbcx,cd->kadx", U.conj().T, prev, U)
        if exp.shape != dh.shape or np.max(np.abs(dh - exp)) > 1e-8:
            rep.violation(f"{site}:dHk", dict(detail, k_quarters=ks, expected=_c(exp), got=_c(dh),
                                              note="derivative after the operation vs the permuted / rotated derivative before it"))
    # information only: the absolute convention i (R + tau_b - tau_a) H of the specification
    for i, k in enumerate(ks):
        if np.max(np.abs(dh[i] - W.abs_dhk(cur, k))) > 1e-8:
            _bump(rep, "dHk_absolute_convention_differs", site)
            break


def _compare_obs(rep, state, real, ks, site, detail, exp_hk=None):
    """HH_K of the real data_K class at the quarter k-points vs the specification's H(k) (exact) and spectrum"""
    ok, val = W.guarded(rep, f"{site}:HH_K", detail, W.real_hk_ek, real, ks)
    if not ok:
        return
    hk, ek = val
    for i, k in enumerate(ks):
        exp = W.tla_mat(state["obs"][k][0]) if exp_hk is None else exp_hk(k)
        if hk[i].shape != exp.shape or np.max(np.abs(hk[i] - exp)) > 1e-9:
            rep.violation(f"{site}:HH_K", dict(detail, k_quarters=k, expected=_c(exp), got=_c(hk[i])))
            return
        ev = np.linalg.eigvalsh(exp)
        if np.max(np.abs(np.sort(ek[i]) - ev)) > 1e-8:
            rep.violation(f"{site}:E_K", dict(detail, k_quarters=k, expected=ev.tolist(), got=ek[i].tolist()))
            return
        cp = np.array([g[0] for g in state["obs"][k][1]], dtype=float)      # the spectrum does not depend on the Pauli choice
        got = W.esym(ek[i])
        if np.max(np.abs(got - cp)) > 1e-7 * max(1.0, np.max(np.abs(cp))):
            rep.violation(f"{site}:charpoly", dict(detail, k_quarters=k, expected=cp.tolist(), got=got.tolist()))
            return


def _c(a):
    a = np.asarray(a)
    return [[float(np.round(x.real, 10)), float(np.round(x.imag, 10))] for x in a.reshape(-1)][:64]


def _js(v):
    """TLA value (parsed) -> JSON-able"""
    return W.jsable(v)


def count_ops(states):
    c = {}
    for s in states:
        n = s["hist"][-1]["op"] if s["hist"] else "base"
        c[n] = c.get(n, 0) + 1
    return c


# ------------------------------------------------------------------ numeric observation through the public API
GENERIC_K = (0.137, 0.291, 0.0)


def observe(system, k=GENERIC_K, quantities=("energy", "berry_curvature_internal_terms")):
    import wannierberri as wb
    with quiet(), warnings.catch_warnings():
        warnings.simplefilter("ignore")
        return wb.evaluate_k(system, k=k, quantities=list(quantities), return_single_as_dict=True)


def compare_observations(a, b, tol, band_resolved=True, mult=1):
    """a, b: dicts of evaluate_k; energies (b may have every band `mult` times), other quantities per band where the spectrum is
    non-degenerate, else summed over all bands. Deviations are relative to max(1, |value|). Returns max deviation and what was compared."""
    ea, eb = np.sort(a["energy"]), np.sort(b["energy"])
    dev = float(np.max(np.abs(np.repeat(ea, mult) - eb)))
    what = ["energy"]
    for q in a:
        if q == "energy":
            continue
        gap = np.min(np.diff(ea)) if len(ea) > 1 else 1.0
        scale = max(1.0, float(np.max(np.abs(a[q]))))
        if band_resolved and mult == 1 and gap > 1e-3:
            dev = max(dev, float(np.max(np.abs(a[q] - b[q]))) / scale)
            what.append(q + ":band_resolved")
        else:
            dev = max(dev, float(np.max(np.abs(a[q].sum(axis=0) * mult - b[q].sum(axis=0)))) / scale)
            what.append(q + ":trace")
    return dev, what


def run_integrated(system, nk=4, external=False, more=False):
    """a few integrated outputs of run() on a small grid"""
    import wannierberri as wb
    ef = np.array([-1.375, -0.125, 0.625, 1.875])
    st = wb.calculators.static
    calcs = {"cumdos": st.CumDOS(Efermi=ef), "ahc": st.AHC(Efermi=ef, kwargs_formula=dict(external_terms=bool(external)))}
    if more:
        calcs["ohmic_sea"] = st.Ohmic_FermiSea(Efermi=ef)
        calcs["dos"] = st.DOS(Efermi=ef)
    out = os.path.join(scratch(), "run")
    os.makedirs(out, exist_ok=True)
    with quiet(), warnings.catch_warnings():
        warnings.simplefilter("ignore")
        grid = wb.Grid(system=system, NKdiv=[nk, nk, 1], NKFFT=[1, 1, 1])
        res = wb.run(system, grid=grid, calculators=calcs, adpt_num_iter=0, parallel=False, restart=False,
                     use_irred_kpt=False, symmetrize=False, print_Kpoints=False, fout_name=os.path.join(out, "res"))
    return {k: np.array(res.results[k].data) for k in calcs}


def rel_dev(ra, rb):
    """max over the outputs of |a - b| / max(1, |a|)"""
    return max(float(np.max(np.abs(ra[k] - rb[k]))) / max(1.0, float(np.max(np.abs(ra[k])))) for k in ra)
