"""Replay of MC_SysAlgOps states on real wannierberri objects (helper of props/sysalg.py; C05, C25, C26)."""
import os
import warnings
import numpy as np

from .. import tlc, ftable
from ..common import MachineryError, quiet, workdir
from . import _sysalg_world as W

INVARIANTS = ["LawReorder", "LawRotate", "LawDoubleSpin", "LawMakeSOC", "LawToPlainR", "LawInterpolate", "AlwaysHermitian"]
DEFAULTS = dict(NWS="{1, 2}", KDIRS=2, MAXHOPS=1, MAXHOPS2=1, NEPS=2, NCEN=2, WITHX="{FALSE}", OPS='{"Reorder"}', MAXLEN=1,
                PHS="{0, 1}", ANGM="{0, 1}", ANGN="{0, 1}", ALS="{1}", MAXSOC=1, DEN=2, SC=1, Variant='"ok"')
OP_SITE = {"Reorder": "System_R.reorder", "Rotate": "rotate_all_R_matrices", "DoubleSpin": "System_R.double_spin",
           "MakeSOC": "SystemSOC", "SetSOC": "SystemSOC.set_soc_axis", "ToPlainR": "SystemSOC.get_system_R",
           "Interpolate": "SystemInterpolator.interpolate", "base": "System_R.from_sparse"}


def ops_cfg(invariants=INVARIANTS, **kw):
    d = dict(DEFAULTS)
    d.update(kw)
    return ("SPECIFICATION Spec\nCONSTANTS\n" + "".join(f"  {k} = {v}\n" for k, v in d.items()) +
            "".join(f"INVARIANT {i}\n" for i in invariants) + "CHECK_DEADLOCK FALSE\n"), d


def enumerate_states(module, cfg, name, workers=16, timeout=1700):
    """like ftable.enumerate_states, without -coverage (the cost model disables TLC's caching of lazily evaluated operator
    arguments, which makes the matrix arithmetic of SysNum many times slower); non-vacuity is decided from the dump instead"""
    st = tlc.run_tlc(module, cfg, name, workers=workers, dump=True, coverage=False, timeout=timeout)
    if st.get("timeout"):
        raise MachineryError(f"TLC timed out on {name}")
    if st.get("error") and not st.get("violation"):
        raise MachineryError(f"TLC error on {name}: {st['error'][:600]}")
    return st


def run_ops(rep, name, workers, **kw):
    cfg, consts = ops_cfg(**kw)
    st = enumerate_states("MC_SysAlgOps.tla", cfg, name, workers=workers)
    st["constants"] = consts
    if ftable.spec_violation(rep, st, name):
        return None
    rep.add_tlc(name, st)
    return st


def sensitivity(rep, name, expect, workers, **kw):
    cfg, _ = ops_cfg(**kw)
    st = tlc.run_tlc("MC_SysAlgOps.tla", cfg, name, workers=workers, coverage=False, timeout=1200)
    if not st.get("violation") or st["violation"][1] != expect:
        raise MachineryError(f"sensitivity self-test {name}: expected TLC to violate {expect}, got {st.get('violation')} {str(st.get('error'))[:300]}")
    rep.part(name, sensitivity_violation=st["violation"][1], variant=kw.get("Variant"))


def ks_of(state):
    return sorted(state["obs"].keys())


def replay_state(rep, state, pid, tag=""):
    """one TLC state on the real code, exact comparison with cur / obs / aux. Returns the real object (for numeric follow-ups)"""
    hist = state["hist"]
    last = hist[-1]["op"] if hist else "base"
    site = OP_SITE[last]
    ks = ks_of(state)
    key = (tag, repr(state["base"]), repr(hist))
    rep.case(key, nontrivial=bool(hist))
    # SetSOC needs the abstract SOC data of the state it leads to: replay it with the data of `cur` / `prev`
    try:
        kind, real = _apply(state)
    except W.NonIntegral as ex:
        rep.violation(f"{site}:non-integral", dict(base=_js(state["base"]), hist=_js(hist), error=str(ex)))
        return None
    except MachineryError:
        raise
    except Exception as ex:                                    # the real code raised where the specification defines a result
        rep.violation(f"{site}:raises", dict(base=_js(state["base"]), hist=_js(hist), error=repr(ex)[:400]))
        return None
    if kind != state["kind"]:
        raise MachineryError("replay lost track of the system kind")
    detail = dict(base=_js(state["base"]), hist=_js(hist))
    if kind == "R":
        cur = W.sys_from_tla(state["cur"])
        try:
            got, views = W.project(real)
        except W.NonIntegral as ex:
            rep.violation(f"{site}:non-integral", dict(detail, error=str(ex)))
            return real
        d = W.diff_sys(cur, got, centres=True)
        if d:
            rep.violation(f"{site}:projection", dict(detail, differences=d[:6]))
        dv = W.diff_views(cur["cen"], views)
        if dv:
            ksite = f"{site}:centres_not_propagated" if last == "Interpolate" else f"{site}:shifts"
            rep.violation(ksite, dict(detail, expected_centres_twelfths=cur["cen"].tolist(), differences=dv,
                                      note="wannier_centers_cart, the cached wannier_centers_red and rvec.shifts_*_red must all be the centres of the result"))
        # derivative in the Wannier gauge uses the shifts: exact comparison with the specification's DHk
        if not dv:
            dh = W.real_dhk(real, ks)
            for i, k in enumerate(ks):
                if np.max(np.abs(dh[i] - W.abs_dhk(cur, k))) > 1e-8:
                    rep.violation(f"{site}:dHk", dict(detail, k_quarters=k, expected=_c(W.abs_dhk(cur, k)), got=_c(dh[i])))
                    break
    _compare_obs(rep, state, real, ks, site, detail)
    if kind == "SOC" and state["cur"]["hassoc"]:
        socabs = W.soc_from_tla(state["cur"])
        hs = np.array(real.get_R_mat("Ham_SOC"))
        rs = [tuple(int(x) for x in R) for R in real.rvec.iRvec]
        for R in rs:
            exp = W.tla_mat(state["aux"][R])
            g = hs[rs.index(R)]
            if np.max(np.abs(g - exp)) > 1e-9:
                rep.violation("SystemSOC.set_soc_axis:Ham_SOC", dict(detail, R=R, expected=_c(exp), got=_c(g)))
                break
        iR0 = rs.index((0, 0, 0))
        ss = np.array(real.get_R_mat("SS"))[iR0]
        nw = socabs["up"]["nw"]
        exp = np.zeros((2 * nw, 2 * nw, 3), dtype=complex)
        for m in range(nw):
            exp[2 * m:2 * m + 2, 2 * m:2 * m + 2, :] = np.transpose(socabs["P"], (1, 2, 0))
        if np.max(np.abs(ss - exp)) > 1e-9:
            rep.violation("SystemSOC.set_soc_axis:SS", dict(detail, expected=_c(exp), got=_c(ss)))
    if hist and last == "DoubleSpin":
        ss = np.array(real.get_R_mat("SS"))[real.rvec.iR0]
        nw = real.num_wann // 2
        pa = np.array([[[0, 1], [1, 0]], [[0, -1j], [1j, 0]], [[1, 0], [0, -1]]])
        exp = np.zeros((2 * nw, 2 * nw, 3), dtype=complex)
        for m in range(nw):
            exp[2 * m:2 * m + 2, 2 * m:2 * m + 2, :] = np.transpose(pa, (1, 2, 0))
        if np.max(np.abs(ss - exp)) > 1e-12:
            rep.violation("System_R.double_spin:SS", dict(detail, expected=_c(exp), got=_c(ss)))
    return real


def _apply(state):
    """like apply_hist, but SetSOC is executed with the abstract SOC data (D, angles, alpha) of the operation"""
    real = W.build(W.sys_from_tla(state["base"]))
    kind = "R"
    upabs = None
    for op in state["hist"]:
        name = op["op"]
        with quiet(), warnings.catch_warnings():
            warnings.simplefilter("ignore")
            if name == "Reorder":
                real.reorder([x - 1 for x in op["p"]])
            elif name == "Rotate":
                W.op_rotate(real, W.tla_mat(op["U"]))
            elif name == "DoubleSpin":
                real.double_spin()
            elif name == "MakeSOC":
                upnw = real.num_wann
                real = W.make_soc(real, W.build(W.sys_from_tla(op["dn"])))
                kind = "SOC"
                upabs = dict(nw=upnw)
            elif name == "SetSOC":
                nw = upabs["nw"]
                rsS = sorted(tuple(R) for R in op["rsS"])
                D = {st: {R: np.array([[[complex(g[0], g[1]) for g in op["D"][st][R][m][n]] for n in range(nw)] for m in range(nw)], dtype=complex)
                          for R in rsS} for st in ("00", "11", "01")}
                W.set_soc(real, dict(up=dict(nw=nw), rsS=rsS, D=D, al=op["al"]), op["m"], op["n"])
            elif name == "ToPlainR":
                real = real.get_system_R()
                kind = "R"
            elif name == "Interpolate":
                from wannierberri.system.interpolate import SystemInterpolator
                s1 = W.build(W.sys_from_tla(op["s1"]))
                real = SystemInterpolator(real, s1).interpolate(op["a"] / op["den"])
            else:
                raise MachineryError(f"unknown op {name}")
    return kind, real


def _compare_obs(rep, state, real, ks, site, detail):
    """HH_K of the real data_K class at the quarter k-points vs the specification's H(k) (exact) and spectrum"""
    d = W.data_k_list(real, ks)
    hk = np.array(d.HH_K)
    ek = np.array(d.E_K)
    for i, k in enumerate(ks):
        exp = W.tla_mat(state["obs"][k][0])
        if hk[i].shape != exp.shape or np.max(np.abs(hk[i] - exp)) > 1e-9:
            rep.violation(f"{site}:HH_K", dict(detail, k_quarters=k, expected=_c(exp), got=_c(hk[i])))
            return
        ev = np.linalg.eigvalsh(exp)
        if np.max(np.abs(np.sort(ek[i]) - ev)) > 1e-8:
            rep.violation(f"{site}:E_K", dict(detail, k_quarters=k, expected=ev.tolist(), got=ek[i].tolist()))
            return
        cp = np.array([g[0] for g in state["obs"][k][1]], dtype=float)
        got = W.esym(ek[i])
        if np.max(np.abs(got - cp)) > 1e-7 * max(1.0, np.max(np.abs(cp))):
            rep.violation(f"{site}:charpoly", dict(detail, k_quarters=k, expected=cp.tolist(), got=got.tolist()))
            return


def _c(a):
    a = np.asarray(a)
    return [[float(np.round(x.real, 10)), float(np.round(x.imag, 10))] for x in a.reshape(-1)][:64]


def _js(v):
    """TLA value (parsed) -> JSON-able"""
    if isinstance(v, dict):
        return {str(k): _js(x) for k, x in v.items()}
    if isinstance(v, (tuple, list, frozenset, set)):
        return [_js(x) for x in (sorted(v, key=repr) if isinstance(v, (set, frozenset)) else v)]
    return v


def count_ops(states):
    c = {}
    for s in states:
        n = s["hist"][-1]["op"] if s["hist"] else "base"
        c[n] = c.get(n, 0) + 1
    return c


# ------------------------------------------------------------------ numeric observation through the public API
GENERIC_K = (0.137, 0.291, 0.0)


def observe(system, k=GENERIC_K, quantities=("energy", "berry_curvature_internal_terms")):
    import wannierberri as wb
    with quiet(), warnings.catch_warnings():
        warnings.simplefilter("ignore")
        return wb.evaluate_k(system, k=k, quantities=list(quantities), return_single_as_dict=True)


def compare_observations(a, b, tol, band_resolved=True, mult=1):
    """a, b: dicts of evaluate_k; energies (b may have every band `mult` times), curvature per band where the spectrum is
    non-degenerate, else summed over all bands. Returns max deviation and what was compared."""
    ea, eb = np.sort(a["energy"]), np.sort(b["energy"])
    dev = float(np.max(np.abs(np.repeat(ea, mult) - eb)))
    what = ["energy"]
    for q in a:
        if q == "energy":
            continue
        gap = np.min(np.diff(ea)) if len(ea) > 1 else 1.0
        if band_resolved and mult == 1 and gap > 1e-3:
            dev = max(dev, float(np.max(np.abs(a[q] - b[q]))))
            what.append(q + ":band_resolved")
        else:
            dev = max(dev, float(np.max(np.abs(a[q].sum(axis=0) * mult - b[q].sum(axis=0)))))
            what.append(q + ":trace")
    return dev, what


def run_integrated(system, nk=4):
    """a few integrated outputs of run() on a small grid (exactly representable inputs)"""
    import wannierberri as wb
    ef = np.array([-1.375, -0.125, 0.625, 1.875])
    calcs = {"cumdos": wb.calculators.static.CumDOS(Efermi=ef), "ahc": wb.calculators.static.AHC(Efermi=ef, kwargs_formula=dict(external_terms=False))}
    with quiet(), warnings.catch_warnings():
        warnings.simplefilter("ignore")
        grid = wb.Grid(system=system, NKdiv=[nk, nk, 1], NKFFT=[1, 1, 1])
        res = wb.run(system, grid=grid, calculators=calcs, adpt_num_iter=0, parallel=False, restart=False,
                     use_irred_kpt=False, symmetrize=False, print_Kpoints=False, fout_name=os.path.join(workdir("sysalg_run", clean=False), "res"))
    return {k: np.array(res.results[k].data) for k in calcs}
