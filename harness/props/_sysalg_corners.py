"""C33: replay of MC_SysAlgCorners states on the real data_K classes (helper of props/sysalg.py)."""
import random
import warnings
import numpy as np

from .. import tlc, ftable
from ..common import MachineryError, seed, quiet
from . import _sysalg_world as W
from . import _sysalg_ops as O
from . import _sysalg_rand as RND

INV = ["NeverRaises", "CornersAreDirect", "CornersHermitian"]
CORNERS = [(x, y, z) for x in (0, 1) for y in (0, 1) for z in (0, 1)]


def cfg(invariants=INV, **kw):
    d = dict(KINDS='{"R", "SOC", "KP"}', SHAPES='{"par", "tet"}', NWS="{1}", MAXHOPS=1, MAXHOPS2=1, MAXSOC=0, KDIRS=2, NGRIDS=2, DownFrom='"down"')
    d.update(kw)
    return ("SPECIFICATION Spec\nCONSTANTS\n" + "".join(f"  {k} = {v}\n" for k, v in d.items()) +
            "".join(f"INVARIANT {i}\n" for i in invariants) + "CHECK_DEADLOCK FALSE\n"), d


def build_real(kind, sysd, phonon=False):
    """real system of the kind from its abstract description"""
    a = sysd
    if kind == "SOC":
        soc = W.make_soc(W.build(a["up"]), W.build(a["dn"]))
        if a["hassoc"]:
            W.set_soc(soc, a, 1, 1)          # theta = phi = pi/2 in the catalogue and in the records; P is part of the abstract data
        return soc, a
    if kind == "R":
        real = W.build(a)
        if phonon:
            real.is_phonon = True
        return real, a
    # k.p system: the lattice Hamiltonian as a function of the reduced k-vector
    from wannierberri.system.system_kp import SystemKP
    rs = a["rs"]
    mats = np.array([a["H"][R] for R in rs])
    Rarr = np.array(rs, dtype=float)

    def ham(k):
        return np.tensordot(np.exp(2j * np.pi * Rarr.dot(np.asarray(k, dtype=float))), mats, axes=(0, 0))
    with quiet(), warnings.catch_warnings():
        warnings.simplefilter("ignore")
        real = SystemKP(Ham=ham, kmax=None, real_lattice=np.eye(3), k_vector_cartesian=False, finite_diff_dk=1e-3)
    return real, a


def corner_energies(real, shape, nk, kp, h, verts):
    """E_K_corners_parallel / _tetra of the real data_K object and of its own reference implementation (direct evaluation)"""
    import wannierberri as wb
    from wannierberri.data_K import get_data_k_class_from_system
    from wannierberri.grid.Kpoint import KpointBZparallel
    from wannierberri.grid.Kpoint_tetra import KpointBZtetra
    nk = np.array(nk)
    with quiet(), warnings.catch_warnings():
        warnings.simplefilter("ignore")
        grid = wb.Grid(system=real, NKdiv=1, NKFFT=list(nk))
        if not np.array_equal(grid.FFT, nk):
            raise MachineryError(f"grid FFT {grid.FFT} != {nk}")
        if shape == "par":
            Kp = KpointBZparallel(K=np.array(kp) * nk / 4.0, dK=np.array(h) * nk / 2.0, NKFFT=nk)
        else:
            Kp = KpointBZtetra(vertices=np.array(verts, dtype=float) * nk[None, :] / 4.0, K=np.array(kp) * nk / 4.0, NKFFT=nk)
            if np.max(np.abs(Kp.vertices_fullBZ * 4 - np.array(verts))) > 1e-12 or np.max(np.abs(Kp.Kp_fullBZ * 4 - np.array(kp))) > 1e-12:
                raise MachineryError("tetrahedron K-point not as intended")
        cls = get_data_k_class_from_system(real)
        d = cls(real, dK=Kp.Kp_fullBZ, grid=grid, Kpoint=Kp)
        E = d.E_K_corners_parallel() if shape == "par" else d.E_K_corners_tetra()
        d2 = cls(real, dK=Kp.Kp_fullBZ, grid=grid, Kpoint=Kp)
        Eref = d2.E_K_corners_parallel_test() if shape == "par" else d2.E_K_corners_tetra_test()
    E = np.array(E)
    Eref = np.array(Eref)
    if shape == "par":
        E = E.reshape(E.shape[0], 8, E.shape[-1])
        Eref = Eref.reshape(Eref.shape[0], 8, Eref.shape[-1])
    return E, Eref


def expected_spectra(state_ham, shape, phonon=False):
    out = []
    for per_k in state_ham:
        row = []
        keys = CORNERS if shape == "par" else [1, 2, 3, 4]
        for c in keys:
            m = W.tla_mat(per_k[c] if shape == "par" else per_k[c - 1])
            ev = np.linalg.eigvalsh(m)
            if phonon:
                ev = np.sign(ev) * np.sqrt(np.abs(ev))
            row.append(ev)
        out.append(row)
    return np.array(out)


def site_of(kind, shape):
    cls = {"R": "Data_K_R", "SOC": "Data_K_soc", "KP": "Data_K_k"}[kind]
    return f"{cls}.E_K_corners_{'parallel' if shape == 'par' else 'tetra'}"


def replay_corner(rep, s, tag, phonon=False):
    kind, shape = s["kind"], s["shape"]
    site = site_of(kind, shape) + (":phonon" if phonon else "")
    detail = dict(config=tag, kind=kind, shape=shape, system=O._js(s["sys"]), NKFFT=list(s["nk"]), Kp_fullBZ_quarters=list(s["kp"]),
                  half_dK_fullBZ_quarters=list(s["h"]), vertices_fullBZ_quarters=O._js(s["verts"]))
    rep.case((tag, kind, shape, repr(s["sys"]), s["nk"], s["kp"], s["h"], s["verts"], phonon))
    real, a = build_real(kind, W.soc_from_tla(s["sys"]) if kind == "SOC" else W.sys_from_tla(s["sys"]), phonon)
    exp = expected_spectra(s["ham"], shape, phonon)
    differ = ""
    if kind == "SOC":
        differ = ":down_R_vectors_differ" if a["up"]["rs"] != a["dn"]["rs"] else ""
    try:
        E, Eref = corner_energies(real, shape, s["nk"], s["kp"], s["h"], s["verts"])
    except MachineryError:
        raise
    except Exception as ex:
        rep.violation(f"{site}:raises{differ}", dict(detail, error=repr(ex)[:300]))
        return None
    if E.shape != exp.shape:
        rep.violation(f"{site}:shape{differ}", dict(detail, expected_shape=list(exp.shape), got_shape=list(E.shape)))
        return None
    dev = float(np.max(np.abs(np.sort(E, axis=-1) - exp)))
    if dev > 1e-8:
        rep.violation(f"{site}:corner_energies{differ}", dict(detail, expected=exp.tolist(), got=E.tolist(), deviation=dev,
                                                             note="expected = eigenvalues of the Hamiltonian at the corner k-points (specification, exact matrices)"))
    dref = float(np.max(np.abs(np.sort(Eref, axis=-1) - exp))) if Eref.shape == exp.shape else float("inf")
    if dref > 1e-8:
        rep.violation(f"{site}_test:direct_evaluation", dict(detail, expected=exp.tolist(), got=Eref.tolist(), deviation=dref))
    return max(dev, 0.0)


def check_c33(rep, thorough):
    rng = random.Random(seed() * 7919 + 33)
    w = 16
    rep.rule("TLC enumerates systems of each kind (real-space, spin-orbit with up/down R-sets smaller/equal/larger and with SOC terms, k.p), FFT grids, "
             "K-points and cell shapes (parallelepiped, tetrahedron) with all corner k-points on the quarter grid; a case = one TLC state executed on "
             "the real data_K class, corner energies compared with the eigenvalues of the specification's exact corner matrices (1e-8, sorted spectra) "
             "and with the code's own direct evaluation; plus seeded random recorded calls whose integer characteristic polynomials are validated by TLC")
    rep.assume("K-points and cell sizes are chosen so that every corner lies on the quarter grid of the reciprocal cell (phases are powers of i); "
               "the k.p system is the lattice Hamiltonian as a function of reduced k; phonon-flagged systems reuse the real-space cases")
    if thorough:
        runs = [("c33_corners", dict(NWS="{1}", MAXHOPS=1, MAXHOPS2=1, MAXSOC=0, KDIRS=2, NGRIDS=5)),
                ("c33_corners_nw2", dict(KINDS='{"R", "SOC"}', NWS="{2}", MAXHOPS=1, MAXHOPS2=1, MAXSOC=0, KDIRS=2, NGRIDS=1)),
                ("c33_corners_3d", dict(KINDS='{"R", "KP"}', NWS="{1, 2}", MAXHOPS=1, KDIRS=3, NGRIDS=5)),
                ("c33_corners_soc_terms", dict(KINDS='{"SOC"}', NWS="{1}", MAXHOPS=1, MAXHOPS2=1, MAXSOC=1, KDIRS=2, NGRIDS=3))]
    else:
        runs = [("c33_corners", dict(NWS="{1}", MAXHOPS=1, MAXHOPS2=1, MAXSOC=0, KDIRS=2, NGRIDS=2)),
                ("c33_corners_3d", dict(KINDS='{"R", "KP"}', NWS="{2}", MAXHOPS=1, KDIRS=3, NGRIDS=2)),
                ("c33_corners_soc_terms", dict(KINDS='{"SOC"}', NWS="{1}", MAXHOPS=1, MAXHOPS2=1, MAXSOC=1, KDIRS=2, NGRIDS=1))]
    maxdev = 0.0
    classes = {}
    for name, kw in runs:
        c, consts = cfg(**kw)
        st = O.enumerate_states("MC_SysAlgCorners.tla", c, name, workers=w)
        st["constants"] = consts
        if ftable.spec_violation(rep, st, name):
            continue
        rep.add_tlc(name, st)
        n = 0
        for s in ftable.dump_states(st):
            n += 1
            if name == "c33_corners_soc_terms" and not s["sys"]["hassoc"]:
                continue                                                   # those cases are replayed in c33_corners
            cls = (s["kind"], s["shape"], (s["kind"] == "SOC" and s["sys"]["up"]["rs"] != s["sys"]["dn"]["rs"]), s["kind"] == "SOC" and s["sys"]["hassoc"])
            classes[cls] = classes.get(cls, 0) + 1
            d = replay_corner(rep, s, name)
            if d is not None:
                maxdev = max(maxdev, d)
            if s["kind"] == "R" and classes[cls] % 7 == 1:
                classes[("R-phonon", s["shape"])] = classes.get(("R-phonon", s["shape"]), 0) + 1
                replay_corner(rep, s, name, phonon=True)
            if n in (2, 200):
                rep.sample(dict(config=name, kind=s["kind"], shape=s["shape"], NKFFT=list(s["nk"]), Kp=list(s["kp"]), system=O._js(s["sys"]) if s["kind"] != "SOC" else "SOC"))
        if n != st["distinct"]:
            raise MachineryError(f"{name}: dump has {n} states, TLC reported {st['distinct']}")
    need = [("R", "par"), ("R", "tet"), ("KP", "par"), ("KP", "tet")]
    for k, sh in need:
        if not any(c[0] == k and c[1] == sh for c in classes if len(c) == 4):
            raise MachineryError(f"vacuous: no {k} {sh} case")
    for differ in (False, True):
        for sh in ("par", "tet"):
            if not any(len(c) == 4 and c[0] == "SOC" and c[1] == sh and c[2] == differ for c in classes):
                raise MachineryError(f"vacuous: no SOC {sh} case with R-sets {'different' if differ else 'equal'}")
    if not any(len(c) == 4 and c[3] for c in classes):
        raise MachineryError("vacuous: no SOC case with SOC terms")
    rep.part("replayed_classes", **{"/".join(map(str, k)): v for k, v in classes.items()}, max_deviation=maxdev, tolerance=1e-8)
    # sensitivity: the spin-orbit code before the repair is rejected by TLC, once because it raises, once because it is wrong
    for invs, nm in ((["NeverRaises"], "c33_soc_up_phases_raise"), (["CornersAreDirect"], "c33_soc_up_phases_wrong")):
        c0, _ = cfg(invariants=invs, KINDS='{"SOC"}', SHAPES='{"par"}', DownFrom='"up"')
        st0 = tlc.run_tlc("MC_SysAlgCorners.tla", c0, nm, workers=4, coverage=False, timeout=900)
        if not st0.get("violation") or st0["violation"][1] != invs[0]:
            raise MachineryError(f"sensitivity self-test {nm} failed: {st0.get('violation')} {str(st0.get('error'))[:300]}")
        rep.part(nm, sensitivity_violation=invs[0])

    # ---- code -> spec: random systems, the code's corner spectra as integer characteristic polynomials
    recs = []
    nrec = 200 if thorough else 24
    grids_par = [((1, 1, 1), (0, 0, 0), (1, 1, 2)), ((2, 1, 1), (1, 2, 0), (1, 1, 2)), ((1, 2, 1), (3, 0, 2), (1, 1, 1)), ((2, 2, 1), (0, 0, 0), (2, 1, 2))]
    grids_tet = [((1, 1, 1), (1, 1, 1), ((-1, -1, -1), (3, -1, -1), (-1, 3, -1), (-1, -1, 3))), ((2, 1, 1), (0, 2, 0), ((-2, -1, 0), (2, -1, 0), (0, 2, 1), (0, 0, -1)))]
    for i in range(nrec):
        kind = ("R", "SOC", "KP")[i % 3]
        shape = "par" if rng.random() < 0.6 else "tet"
        nw = rng.choice([1, 2]) if kind == "SOC" else rng.choice([1, 2, 3])
        if kind == "SOC":
            up, dn = RND.rand_sys(rng, nw=nw, with_x=False, amp=2), RND.rand_sys(rng, nw=nw, with_x=False, amp=2)
            if rng.random() < 0.3:
                dn = RND.rand_same_rs(rng, up, amp=2)
            socdata = RND.rand_soc_data(rng, nw) if rng.random() < 0.4 else None
            a = dict(up=up, dn=dn, hassoc=socdata is not None, rsS=[(0, 0, 0)],
                     D={st: {(0, 0, 0): np.zeros((nw, nw, 3), dtype=complex)} for st in ("00", "11", "01")}, P=RND.PAULI.copy(), al=0)
            if socdata is not None:
                a.update(rsS=socdata[0], D=socdata[1], al=rng.choice([1, 2]), P=RND.exact_pauli_rot(1, 1))
            sysj = W.soc_json(a)
            differ = ":down_R_vectors_differ" if up["rs"] != dn["rs"] else ""
        else:
            a = RND.rand_sys(rng, nw=nw, with_x=False, dirs=3 if kind == "KP" else 2, amp=2)
            sysj = W.sys_json(a)
            differ = ""
        nk, kp, hv = rng.choice(grids_par) if shape == "par" else rng.choice(grids_tet)
        h, verts = (list(hv), []) if shape == "par" else ([0, 0, 0], [list(v) for v in hv])
        site = site_of(kind, shape)
        rep.case(("rec", kind, shape, i))
        try:
            real, _ = build_real(kind, a)
            E, _ = corner_energies(real, shape, nk, kp, h, verts)
        except MachineryError:
            raise
        except Exception as ex:
            rep.violation(f"{site}:raises{differ}", dict(kind=kind, shape=shape, system=sysj, NKFFT=nk, Kp=kp, error=repr(ex)[:300]))
            continue
        try:
            cp = [[W.cp_ints(E[j, c], "corner spectrum") for c in range(E.shape[1])] for j in range(E.shape[0])]
        except W.NonIntegral as ex:
            rep.violation(f"{site}:corner_energies{differ}", dict(kind=kind, shape=shape, system=sysj, NKFFT=nk, Kp=kp, error=str(ex),
                                                                 note="the spectrum of an integer matrix has an integer characteristic polynomial"))
            continue
        recs.append(dict(fn="corners", kind=kind, shape=shape, sys=sysj, nk=list(nk), kp=list(kp), h=h, verts=verts, cp=cp, _differ=differ))
    from .sysalg import _validate, _selftest
    for r in recs:
        r["differ"] = r.pop("_differ")
    _validate(rep, recs, "c33", lambda r: site_of(r["kind"], r["shape"]) + r["differ"])

    def corrupt(r):
        r["cp"][0][0][-1] += 1
    _selftest(rep, recs[0], corrupt, "c33", "equals_spec")
    return rep.finish()
