"""C33: replay of MC_SysAlgCorners states on the real data_K classes (helper of props/sysalg.py)."""
import random
import warnings
import numpy as np

from .. import ftable
from ..common import MachineryError, seed, quiet
from . import _sysalg_world as W
from . import _sysalg_ops as O
from . import _sysalg_rand as RND

INV = ["NeverRaises", "CornersAreDirect", "CornersHermitian"]
CORNERS = [(x, y, z) for x in (0, 1) for y in (0, 1) for z in (0, 1)]


def cfg(invariants=INV, **kw):
    d = dict(KINDS='{"R", "SOC", "KP"}', SHAPES='{"par", "tet"}', NWS="{1}", MAXHOPS=1, MAXHOPS2=1, MAXSOC=0, KDIRS=2, NGRIDS=2, DownFrom='"down"')
    d.update(kw)
    return ("SPECIFICATION Spec\nCONSTANTS\n" + "".join(f"  {k} = {v}\n" for k, v in d.items()) +
            "".join(f"INVARIANT {i}\n" for i in invariants) + "CHECK_DEADLOCK FALSE\n"), d


def kp_system(a, lattice, cartesian):
    """k.p system: the lattice Hamiltonian as a function of the reduced (or, on a non-cubic cell, Cartesian) k-vector"""
    from wannierberri.system.system_kp import SystemKP
    rs = a["rs"]
    mats = np.array([a["H"][R] for R in rs])
    Rarr = np.array(rs, dtype=float)
    recip = 2 * np.pi * np.linalg.inv(lattice).T
    rinv = np.linalg.inv(recip)

    def ham(k):
        kr = np.asarray(k, dtype=float) @ rinv if cartesian else np.asarray(k, dtype=float)
        return np.tensordot(np.exp(2j * np.pi * Rarr.dot(kr)), mats, axes=(0, 0))
    with quiet(), warnings.catch_warnings():
        warnings.simplefilter("ignore")
        real = SystemKP(Ham=ham, kmax=None, real_lattice=np.array(lattice, dtype=float), k_vector_cartesian=bool(cartesian), finite_diff_dk=1e-3)
    if np.max(np.abs(np.asarray(real.recip_lattice) - recip)) > 1e-12:
        raise MachineryError("SystemKP: reciprocal lattice convention differs from the harness's")
    return real


def build_real(kind, a, phonon=False, skew=False):
    """real system of the kind from its abstract description (harness-side set-up; SystemSOC(up) when up and down coincide)"""
    lattice = W.LAT_SKEW if skew else W.LAT_ID
    if kind == "SOC":
        nspin = 1 if W.sys_json(a["up"]) == W.sys_json(a["dn"]) else 2
        soc = W.make_soc(W.build(a["up"], lattice=lattice), None if nspin == 1 else W.build(a["dn"], lattice=lattice))
        if a["hassoc"]:
            W.set_soc(soc, a, 1, 1, nspin=nspin)          # theta = phi = pi/2 in the catalogue and in the records; P is part of the abstract data
        return soc, nspin
    if kind == "R":
        real = W.build(a, lattice=lattice)
        if phonon:
            real.is_phonon = True
        return real, 0
    return kp_system(a, lattice, cartesian=skew), 0


def corner_points(shape, nk, kp, h, verts):
    """the corner k-points in quarters, [grid point][corner] (grid.points_FFT order: z fastest; corners in the order of the code)"""
    nk = [int(x) for x in nk]
    out = []
    for ix in range(nk[0]):
        for iy in range(nk[1]):
            for iz in range(nk[2]):
                kg = np.array([ix * 4 // nk[0], iy * 4 // nk[1], iz * 4 // nk[2]]) + np.array(kp)
                if shape == "par":
                    out.append([tuple(kg + (2 * np.array(c) - 1) * np.array(h)) for c in CORNERS])
                else:
                    out.append([tuple(kg + np.array(v)) for v in verts])
    return out


def data_k(real, shape, nk, kp, h, verts, **window):
    """harness-side construction of the data_K object for one K-point of the grid (not under test: failures here are the harness's)"""
    import wannierberri as wb
    from wannierberri.data_K import get_data_k_class_from_system
    from wannierberri.grid.Kpoint import KpointBZparallel
    from wannierberri.grid.Kpoint_tetra import KpointBZtetra
    nk = np.array(nk)
    with quiet(), warnings.catch_warnings():
        warnings.simplefilter("ignore")
        grid = wb.Grid(system=real, NKdiv=1, NKFFT=list(nk))
        if not np.array_equal(grid.FFT, nk):
            raise MachineryError(f"grid FFT {grid.FFT} != {nk}")
        if shape == "par":
            Kp = KpointBZparallel(K=np.array(kp) * nk / 4.0, dK=np.array(h) * nk / 2.0, NKFFT=nk)
        else:
            Kp = KpointBZtetra(vertices=np.array(verts, dtype=float) * nk[None, :] / 4.0, K=np.array(kp) * nk / 4.0, NKFFT=nk)
            if np.max(np.abs(Kp.vertices_fullBZ * 4 - np.array(verts))) > 1e-12:
                raise MachineryError("tetrahedron K-point not as intended")
        if np.max(np.abs(Kp.Kp_fullBZ * 4 - np.array(kp))) > 1e-12:
            raise MachineryError("K-point not as intended")
        cls = get_data_k_class_from_system(real)
        return cls(real, dK=Kp.Kp_fullBZ, grid=grid, Kpoint=Kp, **window)


def corner_call(d, shape, centre_first=False):
    """the call under test"""
    with quiet(), warnings.catch_warnings():
        warnings.simplefilter("ignore")
        if centre_first:
            _ = d.E_K                      # the order of use in Data_K.tetraWeights: the centre energies first
        E = np.array(d.E_K_corners_parallel() if shape == "par" else d.E_K_corners_tetra())
    if shape == "par":
        E = E.reshape(E.shape[0], 8, E.shape[-1])
    return E


def direct_energies(real, pts):
    """the class's own evaluation at the corner k-points: [grid point][corner] -> spectrum"""
    flat = [k for row in pts for k in row]
    e = W.real_ek(real, flat)
    return np.array(e).reshape(len(pts), len(pts[0]), -1)


def helper_energies(d2, shape):
    """E_K_corners_*_test of the package, when it (still) exists: information only"""
    f = getattr(d2, "E_K_corners_parallel_test" if shape == "par" else "E_K_corners_tetra_test", None)
    if f is None:
        return None
    with quiet(), warnings.catch_warnings():
        warnings.simplefilter("ignore")
        E = np.array(f())
    return E.reshape(E.shape[0], 8, E.shape[-1]) if shape == "par" else E


def expected_spectra(state_ham, shape):
    out = []
    for per_k in state_ham:
        row = []
        keys = CORNERS if shape == "par" else [1, 2, 3, 4]
        for c in keys:
            m = W.tla_mat(per_k[c] if shape == "par" else per_k[c - 1])
            row.append(np.linalg.eigvalsh(m))
        out.append(row)
    return np.array(out)


def squares(E):
    """phonon frequencies -> signed squares (the eigenvalues of the dynamical matrix); avoids the square root at a zero mode"""
    return np.sign(E) * E ** 2


def site_of(kind, shape):
    cls = {"R": "Data_K_R", "SOC": "Data_K_soc", "KP": "Data_K_k"}[kind]
    return f"{cls}.E_K_corners_{'parallel' if shape == 'par' else 'tetra'}"


def choose_window(exp, centre):
    """Emax that cuts exactly the top band off (no energy within half the gap of it), or None"""
    nb = exp.shape[-1]
    if nb < 2:
        return None
    top = np.concatenate([exp[..., -1].ravel(), centre[..., -1].ravel()])
    rest = np.concatenate([exp[..., :-1].ravel(), centre[..., :-1].ravel()])
    tmin = float(top.min())
    below = rest[rest < tmin - 1e-6]              # everything else is >= tmin - 1e-6, i.e. far above Emax
    if below.size == 0:
        return None
    gap = tmin - float(below.max())
    if gap < 1e-3:
        return None
    return tmin - gap / 2


def replay_corner(rep, s, tag, phonon=False, window=False):
    kind, shape = s["kind"], s["shape"]
    site = site_of(kind, shape) + (":phonon" if phonon else "") + (":window" if window else "")
    skew = bool(W.stable_hash((s["sys"], s["nk"], s["kp"])) & 1)
    detail = dict(config=tag, kind=kind, shape=shape, system=O._js(s["sys"]), NKFFT=list(s["nk"]), Kp_fullBZ_quarters=list(s["kp"]),
                  half_dK_fullBZ_quarters=list(s["h"]), vertices_fullBZ_quarters=O._js(s["verts"]), skew_lattice=skew)
    rep.case((tag, kind, shape, W.stable_key(s["sys"]), s["nk"], s["kp"], s["h"], s["verts"], phonon, window))
    a = W.soc_from_tla(s["sys"]) if kind == "SOC" else W.sys_from_tla(s["sys"])
    differ = ""
    if kind == "SOC":
        differ = ":down_R_vectors_differ" if a["up"]["rs"] != a["dn"]["rs"] else ""
    exp = expected_spectra(s["ham"], shape)
    if window and exp.shape[-1] < 2:
        return None
    try:
        real, nspin = W.setup(build_real, kind, a, phonon, skew)
        if nspin == 1:
            site += ":nspin1"
        pts = corner_points(shape, s["nk"], s["kp"], s["h"], s["verts"])
        win = {}
        if window:
            centre = W.under_test(lambda: np.array(data_k(real, shape, s["nk"], s["kp"], s["h"], s["verts"]).E_K))
            emax = choose_window(exp, centre)
            if emax is None:
                return None
            win = dict(Emax=emax)
            detail["Emax"] = emax
        d = W.setup(data_k, real, shape, s["nk"], s["kp"], s["h"], s["verts"], **win)
    except W.HarnessMisuse as e:
        W.note_skip(f"corners:{kind}", e)
        return None
    except W.UnderTestError as e:
        rep.violation(f"{site}:raises{differ}", dict(detail, error=str(e)[:300], raised_in=e.site, during="construction of the system / data_K object"))
        return None
    ok, E = W.guarded(rep, f"{site}{differ}", detail, corner_call, d, shape, bool(window))
    if not ok:
        return None
    if window:
        selK = W.private("select_K", lambda: np.asarray(d.select_K, dtype=bool))
        selB = W.private("select_B", lambda: np.asarray(d.select_B, dtype=bool))
        if selK is None or selB is None:
            return None
        if selK.all() and selB.all():                     # how bands are selected is not part of the statement
            O._bump(rep, "energy_window_cut_nothing", site)
        expw = exp[selK][:, :, selB]
    else:
        expw = exp
    if E.shape != expw.shape:
        rep.violation(f"{site}:shape{differ}", dict(detail, expected_shape=list(expw.shape), got_shape=list(E.shape)))
        return None
    got = squares(E) if phonon else E
    dev = float(np.max(np.abs(np.sort(got, axis=-1) - expw))) if E.size else 0.0
    if dev > 1e-8:
        rep.violation(f"{site}:corner_energies{differ}", dict(detail, expected=expw.tolist(), got=got.tolist(), deviation=dev,
                                                             note="expected = eigenvalues of the Hamiltonian at the corner k-points (specification, exact matrices)"
                                                                  + ("; phonons: signed squares of the frequencies" if phonon else "")))
    if not window:
        # the class's own evaluation at the corner k-points (the statement's right-hand side, on the real code)
        ok, Edir = W.guarded(rep, f"{site}:direct_evaluation", detail, direct_energies, real, pts)
        if ok:
            gd = squares(Edir) if phonon else Edir
            dd = float(np.max(np.abs(np.sort(gd, axis=-1) - exp))) if gd.shape == exp.shape else float("inf")
            if dd > 1e-8:
                rep.violation(f"{site}:direct_evaluation", dict(detail, expected=exp.tolist(), got=gd.tolist(), deviation=dd,
                                                               note="E_K of the class on the list of corner k-points vs the specification"))
        if not phonon and W.stable_hash(("helper", s["sys"], s["kp"])) % 5 == 0:
            try:
                Eh = helper_energies(W.setup(data_k, real, shape, s["nk"], s["kp"], s["h"], s["verts"]), shape)
                if Eh is not None and (Eh.shape != exp.shape or np.max(np.abs(np.sort(Eh, axis=-1) - exp)) > 1e-8):
                    O._bump(rep, "package_test_helper_differs", site_of(kind, shape) + "_test")
            except Exception as ex:                              # the helper is not part of the property
                W.note_skip("E_K_corners_*_test", repr(ex))
    return max(dev, 0.0)


def numeric_cases(rep, rng, thorough):
    """deciding numeric part (1e-8): FFT grids with 3 points per direction and k.p systems with Cartesian k on a non-cubic cell:
    corner energies vs the class's own evaluation at the corner k-points (no exact representation on the quarter grid)"""
    nprng = np.random.RandomState(seed() + 3333)
    maxdev, n = 0.0, 0
    grids = [(3, 1, 1), (1, 3, 1), (3, 3, 1), (3, 1, 2)]
    for it in range(24 if thorough else 6):
        kind = ("R", "SOC", "KP")[it % 3]
        shape = ("par", "tet")[(it // 3) % 2]
        nk = np.array(grids[it % len(grids)])
        skew = bool(it % 2)
        nw = rng.choice([1, 2])
        if kind == "SOC":
            nspin = 1 if it % 4 == 1 else 2
            up, dn = RND.rand_sys(rng, nw=nw, with_x=False, amp=2), RND.rand_sys(rng, nw=nw, with_x=False, amp=2)
            a = dict(up=up, dn=up if nspin == 1 else dn, hassoc=True, al=1, P=None)
            rsS, D = RND.rand_soc_data(rng, nw)
            a.update(rsS=rsS, D=W.nspin1_D(D) if nspin == 1 else D)
        else:
            a = RND.rand_sys(rng, nw=max(nw, 2), with_x=False, dirs=3 if kind == "KP" else 2, amp=2)
        kpf = nprng.rand(3) / nk                                   # Kp_fullBZ
        if shape == "par":
            dK = 1.0 / nk * np.array([1.0, 1.0, 0.5])
            offs = [(np.array(c) - 0.5) * dK for c in CORNERS]
            verts = None
        else:
            v = nprng.rand(4, 3) * 0.2
            verts = v - v.mean(axis=0)
            offs = list(verts)
        detail = dict(kind=kind, shape=shape, NKFFT=nk.tolist(), Kp_fullBZ=kpf.tolist(), skew_lattice=skew,
                      system=W.soc_json(dict(a, P=RND.PAULI)) if kind == "SOC" else W.sys_json(a))
        site = site_of(kind, shape) + ":nkfft3"

        def make():
            import wannierberri as wb
            from wannierberri.data_K import get_data_k_class_from_system
            from wannierberri.grid.Kpoint import KpointBZparallel
            from wannierberri.grid.Kpoint_tetra import KpointBZtetra
            if kind == "SOC":
                lattice = W.LAT_SKEW if skew else W.LAT_ID
                nsp = 1 if a["dn"] is a["up"] else 2
                real = W.make_soc(W.build(a["up"], lattice=lattice), None if nsp == 1 else W.build(a["dn"], lattice=lattice))
                W.set_soc(real, a, 1, 1, nspin=nsp)
            else:
                real, _ = build_real(kind, a, False, skew)
            with quiet(), warnings.catch_warnings():
                warnings.simplefilter("ignore")
                grid = wb.Grid(system=real, NKdiv=1, NKFFT=list(nk))
                if shape == "par":
                    Kp = KpointBZparallel(K=kpf * nk, dK=dK * nk, NKFFT=nk)
                else:
                    Kp = KpointBZtetra(vertices=verts * nk[None, :], K=kpf * nk, NKFFT=nk)
                if np.max(np.abs(Kp.Kp_fullBZ - kpf)) > 1e-12:
                    raise MachineryError("K-point not as intended")
                cls = get_data_k_class_from_system(real)
                d = cls(real, dK=Kp.Kp_fullBZ, grid=grid, Kpoint=Kp)
                pf = np.asarray(grid.points_FFT)
            return real, d, pf
        try:
            real, d, pf = W.setup(make)
        except W.HarnessMisuse as e:
            W.note_skip("corners:numeric", e)
            continue
        ok, E = W.guarded(rep, site, detail, corner_call, d, shape)
        if not ok:
            continue
        pts = [[tuple(4 * (g + kpf + o)) for o in offs] for g in pf]
        ok, Edir = W.guarded(rep, f"{site}:direct_evaluation", detail, direct_energies, real, pts)
        if not ok:
            continue
        n += 1
        rep.case(("nkfft3", it))
        dev = float(np.max(np.abs(np.sort(E, axis=-1) - np.sort(Edir, axis=-1)))) if E.shape == Edir.shape else float("inf")
        maxdev = max(maxdev, dev)
        if dev > 1e-8:
            rep.violation(f"{site}:corner_energies", dict(detail, deviation=dev, corners=E.tolist(), direct=Edir.tolist()))
    rep.part("numeric_deciding_nkfft3_and_cartesian_kp", cases=n, max_deviation=maxdev, tolerance=1e-8)


def check_c33(rep, thorough):
    rng = random.Random(seed() * 7919 + 33)
    w = O.TLC_WORKERS
    rep.rule("TLC enumerates systems of each kind (real-space, spin-orbit with one spin channel or with up/down R-sets smaller/equal/larger and "
             "with SOC terms, k.p), FFT grids, K-points and cell shapes (parallelepiped, tetrahedron) with all corner k-points on the quarter grid; a "
             "case = one TLC state executed on the real data_K class (identity or non-orthogonal lattice by a hash of the case), corner energies "
             "compared with the eigenvalues of the specification's exact corner matrices (1e-8, sorted spectra) and with the class's own evaluation "
             "on the list of corner k-points; a hash-drawn 1/7 of the cases is repeated phonon-flagged (real-space) and with an energy window "
             "that cuts the top band; plus seeded random recorded calls whose integer characteristic polynomials are validated by TLC")
    rep.assume("K-points and cell sizes are chosen so that every corner lies on the quarter grid of the reciprocal cell (phases are powers of i); "
               "the k.p system is the lattice Hamiltonian as a function of reduced k (identity cell) or Cartesian k (non-cubic cell); phonon-flagged "
               "systems reuse the real-space cases, their frequencies are compared through their signed squares; the order of the corners of a "
               "parallelepiped is the interface to the tetrahedron weights and is required, as is the order of the vertices of a tetrahedron; "
               "fftlib is the default; with an energy window the masks select_K / select_B of the object itself are used")
    if thorough:
        runs = [("c33_corners", dict(NWS="{1}", MAXHOPS=1, MAXHOPS2=1, MAXSOC=0, KDIRS=2, NGRIDS=5)),
                ("c33_corners_nw2", dict(KINDS='{"R", "SOC"}', NWS="{2}", MAXHOPS=1, MAXHOPS2=1, MAXSOC=0, KDIRS=2, NGRIDS=1)),
                ("c33_corners_3d", dict(KINDS='{"R", "KP"}', NWS="{1, 2}", MAXHOPS=1, KDIRS=3, NGRIDS=5)),
                ("c33_corners_soc_terms", dict(KINDS='{"SOC"}', NWS="{1}", MAXHOPS=1, MAXHOPS2=1, MAXSOC=1, KDIRS=2, NGRIDS=3))]
    else:
        runs = [("c33_corners", dict(NWS="{1}", MAXHOPS=1, MAXHOPS2=1, MAXSOC=0, KDIRS=2, NGRIDS=1)),
                ("c33_corners_3d", dict(KINDS='{"R", "KP"}', NWS="{2}", MAXHOPS=1, KDIRS=3, NGRIDS=1)),
                ("c33_corners_soc_terms", dict(KINDS='{"SOC"}', NWS="{1}", MAXHOPS=1, MAXHOPS2=0, MAXSOC=1, KDIRS=2, NGRIDS=1))]
    maxdev = 0.0
    classes = {}
    nwin = 0
    for name, kw in runs:
        c, consts = cfg(**kw)
        st = O.enumerate_states("MC_SysAlgCorners.tla", c, name, workers=w)
        st["constants"] = consts
        if ftable.spec_violation(rep, st, name):
            continue
        rep.add_tlc(name, st)
        n = 0
        for s in O.sorted_states(st, lambda s: W.stable_key((s["kind"], s["shape"], s["sys"], s["nk"], s["kp"]))):
            n += 1
            if name == "c33_corners_soc_terms" and not s["sys"]["hassoc"]:
                continue                                                   # those cases are replayed in c33_corners
            soc = s["kind"] == "SOC"
            nspin1 = soc and s["sys"]["up"] == s["sys"]["dn"]
            cls = (s["kind"], s["shape"], (soc and s["sys"]["up"]["rs"] != s["sys"]["dn"]["rs"]), soc and s["sys"]["hassoc"], nspin1)
            classes[cls] = classes.get(cls, 0) + 1
            d = replay_corner(rep, s, name)
            if d is not None:
                maxdev = max(maxdev, d)
            pick = W.stable_hash(("sub", s["kind"], s["shape"], s["sys"], s["nk"], s["kp"])) % 7
            if s["kind"] == "R" and (pick == 0 or classes[cls] == 1):
                classes[("R-phonon", s["shape"])] = classes.get(("R-phonon", s["shape"]), 0) + 1
                replay_corner(rep, s, name, phonon=True)
            if pick == 1 or classes[cls] <= 2:
                if replay_corner(rep, s, name, window=True) is not None:
                    nwin += 1
                    classes[("window", s["kind"])] = classes.get(("window", s["kind"]), 0) + 1
            if n in (2, 200):
                rep.sample(dict(config=name, kind=s["kind"], shape=s["shape"], NKFFT=list(s["nk"]), Kp=list(s["kp"]), system=O._js(s["sys"]) if s["kind"] != "SOC" else "SOC"))
        if n != st["distinct"]:
            raise MachineryError(f"{name}: dump has {n} states, TLC reported {st['distinct']}")
    if not rep.violations:
        need = [("R", "par"), ("R", "tet"), ("KP", "par"), ("KP", "tet")]
        for k, sh in need:
            if not any(c[0] == k and c[1] == sh for c in classes if len(c) == 5):
                raise MachineryError(f"vacuous: no {k} {sh} case")
        for differ in (False, True):
            for sh in ("par", "tet"):
                if not any(len(c) == 5 and c[0] == "SOC" and c[1] == sh and c[2] == differ for c in classes):
                    raise MachineryError(f"vacuous: no SOC {sh} case with R-sets {'different' if differ else 'equal'}")
        if not any(len(c) == 5 and c[3] for c in classes):
            raise MachineryError("vacuous: no SOC case with SOC terms")
        if not any(len(c) == 5 and c[4] for c in classes):
            raise MachineryError("vacuous: no SOC case with one spin channel")
        if nwin == 0 and "select_K" not in W.SKIPPED and "select_B" not in W.SKIPPED:
            raise MachineryError("vacuous: no case with an energy window that cuts a band")
    rep.part("replayed_classes", **{"/".join(map(str, k)): v for k, v in classes.items()}, max_deviation=maxdev, tolerance=1e-8)
    # sensitivity: the spin-orbit code before the repair is rejected by TLC, once because it raises, once because it is wrong
    for invs, nm in ((["NeverRaises"], "c33_soc_up_phases_raise"), (["CornersAreDirect"], "c33_soc_up_phases_wrong"))[0 if thorough else 1:]:
        c0, _ = cfg(invariants=invs, KINDS='{"SOC"}', SHAPES='{"par"}', NGRIDS=1, DownFrom='"up"')
        st0 = O.run_tlc("MC_SysAlgCorners.tla", c0, nm, workers=2, timeout=900)
        if not st0.get("violation") or st0["violation"][1] != invs[0]:
            raise MachineryError(f"sensitivity self-test {nm} failed: {st0.get('violation')} {str(st0.get('error'))[:300]}")
        rep.part(nm, sensitivity_violation=invs[0])
    numeric_cases(rep, rng, thorough)

    # ---- code -> spec: random systems, the code's corner spectra as integer characteristic polynomials
    recs = []
    nrec = 200 if thorough else 12
    grids_par = [((1, 1, 1), (0, 0, 0), (1, 1, 2)), ((2, 1, 1), (1, 2, 0), (1, 1, 2)), ((1, 2, 1), (3, 0, 2), (1, 1, 1)), ((2, 2, 1), (0, 0, 0), (2, 1, 2))]
    grids_tet = [((1, 1, 1), (1, 1, 1), ((-1, -1, -1), (3, -1, -1), (-1, 3, -1), (-1, -1, 3))), ((2, 1, 1), (0, 2, 0), ((-2, -1, 0), (2, -1, 0), (0, 2, 1), (0, 0, -1)))]

    def one_record(rng, i, kind=None, shape=None):
        kind = kind or ("R", "SOC", "KP")[i % 3]
        shape = shape or ("par" if rng.random() < 0.6 else "tet")
        nw = rng.choice([1, 2]) if kind == "SOC" else rng.choice([1, 2, 3])
        if kind == "SOC":
            up, dn = RND.rand_sys(rng, nw=nw, with_x=False, amp=2), RND.rand_sys(rng, nw=nw, with_x=False, amp=2)
            r = rng.random()
            if r < 0.3:
                dn = RND.rand_same_rs(rng, up, amp=2)
            elif r < 0.5:
                dn = up                                                # one spin channel
            socdata = RND.rand_soc_data(rng, nw) if rng.random() < 0.4 else None
            a = dict(up=up, dn=dn, hassoc=socdata is not None, rsS=[(0, 0, 0)],
                     D={st: {(0, 0, 0): np.zeros((nw, nw, 3), dtype=complex)} for st in ("00", "11", "01")}, P=RND.PAULI.copy(), al=0)
            if socdata is not None:
                one = W.sys_json(up) == W.sys_json(dn)                 # build_real then makes SystemSOC(up)
                a.update(rsS=socdata[0], D=W.nspin1_D(socdata[1]) if one else socdata[1], al=rng.choice([1, 2]), P=RND.exact_pauli_rot(1, 1))
            sysj = W.soc_json(a)
            differ = ":down_R_vectors_differ" if up["rs"] != dn["rs"] else ""
        else:
            a = RND.rand_sys(rng, nw=nw, with_x=False, dirs=3 if kind == "KP" else 2, amp=2)
            sysj = W.sys_json(a)
            differ = ""
        nk, kp, hv = rng.choice(grids_par) if shape == "par" else rng.choice(grids_tet)
        h, verts = (list(hv), []) if shape == "par" else ([0, 0, 0], [list(v) for v in hv])
        site = site_of(kind, shape)
        rep.case(("rec", kind, shape, i))
        detail = dict(kind=kind, shape=shape, system=sysj, NKFFT=nk, Kp=kp)
        try:
            real, _ = W.setup(build_real, kind, a, False, bool(i % 2))
            d = W.setup(data_k, real, shape, nk, kp, h, verts)
        except W.HarnessMisuse as e:
            W.note_skip("corners:record", e)
            return None
        except W.UnderTestError as e:
            rep.violation(f"{site}:raises{differ}", dict(detail, error=str(e)[:300], raised_in=e.site))
            return None
        ok, E = W.guarded(rep, f"{site}{differ}", detail, corner_call, d, shape)
        if not ok:
            return None
        try:
            cp = [[W.cp_ints(E[j, c], "corner spectrum") for c in range(E.shape[1])] for j in range(E.shape[0])]
        except W.NonIntegral as ex:
            rep.violation(f"{site}:corner_energies{differ}", dict(detail, error=str(ex),
                                                                 note="the spectrum of an integer matrix has an integer characteristic polynomial"))
            return None
        return dict(fn="corners", kind=kind, shape=shape, sys=sysj, nk=list(nk), kp=list(kp), h=h, verts=verts, cp=cp, differ=differ)
    for i in range(nrec):
        try:
            r = one_record(rng, i)
        except RND.PauliNotExact:
            O._bump(rep, "records_skipped_pauli_choice_not_exact", "corners")
            continue
        if r is not None:
            recs.append(r)
    from .sysalg import _validate, _selftest
    _validate(rep, recs, "c33", lambda r: site_of(r["kind"], r["shape"]) + r["differ"])

    def corrupt(r):
        r["cp"][0][0][-1] += 1
    try:
        r0 = one_record(random.Random(4711), 0, kind="R", shape="par")
    except W.NonIntegral:
        r0 = None
    _selftest(rep, r0, corrupt, "c33", "equals_spec")
    return rep.finish()
