"""X04 helpers: realisation of the specification's structures as irrep space groups, exact conversion of what the real
functions return (numerators over DEN, primitive integer directions), calls of the real functions under test and the
tables of Wannier functions read off real Projection / ProjectionsSet / SymmetrizerSAWF objects."""
import io
import math
import re
import warnings
import contextlib
from fractions import Fraction

import numpy as np

from ..common import MachineryError

DEN = 12
SQ3 = math.sqrt(3.0)
CELL = {"cubic": (4.0, 4.0, 4.0), "tetra": (4.0, 4.0, 6.0), "ortho": (4.0, 5.0, 6.0), "hex": (4.0, 4.0, 6.0)}
TOL = 1e-9          # exact fractions k/12 pass through a few float additions: deviation ~1e-16


def lattice_of(lat):
    a, b, c = CELL[lat]
    if lat == "hex":
        return np.array([[a, 0.0, 0.0], [-a / 2, a * SQ3 / 2, 0.0], [0.0, 0.0, c]])
    return np.diag([a, b, c])


@contextlib.contextmanager
def hush():
    """the library prints a lot and warns about split projections"""
    with warnings.catch_warnings():
        warnings.simplefilter("ignore")
        with contextlib.redirect_stdout(io.StringIO()):
            yield


class NotOnGrid(Exception):
    pass


def nums(v):
    """float vector / array of positions -> nested lists of integer numerators over DEN (exact within TOL)"""
    a = np.asarray(v, dtype=float) * DEN
    r = np.round(a)
    if a.size and np.abs(a - r).max() > TOL * DEN:
        raise NotOnGrid(f"{np.asarray(v).tolist()} is not a multiple of 1/{DEN}")
    return r.astype(int).tolist()


def ints(v):
    a = np.asarray(v, dtype=float)
    r = np.round(a)
    if a.size and np.abs(a - r).max() > TOL:
        raise NotOnGrid(f"{a.tolist()} is not integer")
    return r.astype(int).tolist()


_GROUPS = {}


def real_group(lat, sites, include_TR=False, spinor=False):
    """sites: list of (type, (n1, n2, n3)) -> irrep SpaceGroup (cached)"""
    key = (lat, tuple((t, tuple(p)) for t, p in sites), bool(include_TR), bool(spinor))
    if key not in _GROUPS:
        from irrep.spacegroup import SpaceGroup
        with hush():
            _GROUPS[key] = SpaceGroup.from_cell(real_lattice=lattice_of(lat), positions=np.array([p for _, p in sites], dtype=float) / DEN,
                                                typat=[t for t, _ in sites], magmom=None, include_TR=bool(include_TR), spinor=bool(spinor))
    return _GROUPS[key]


def ops_of(sg):
    """the real group as listed: [dict(W, t (numerators mod DEN), tr)]"""
    out = []
    for s in sg.symmetries:
        W = ints(s.rotation)
        t = [int(x) % DEN for x in nums(s.translation)]
        out.append(dict(W=W, t=t, tr=bool(s.time_reversal)))
    return out


def check_same_group(sg, spec_ops, what):
    """the spatial parts irrep/spglib found are the ones of the specification's SpaceGroupOf (machinery: the realisation)"""
    real = {(tuple(map(tuple, o["W"])), tuple(o["t"])) for o in ops_of(sg)}
    spec = {(tuple(map(tuple, o["W"])), tuple(x % DEN for x in o["t"])) for o in spec_ops}
    if real != spec:
        raise MachineryError(f"irrep/spglib finds {len(real)} spatial operations, the specification {len(spec)} for {what}: "
                             f"only real {sorted(real - spec)[:2]}, only spec {sorted(spec - real)[:2]}")


def mod(p):
    return tuple(int(x) % DEN for x in p)


def apply_op(o, p):
    W, t = o["W"], o["t"]
    return tuple(sum(W[r][c] * p[c] for c in range(3)) + t[r] for r in range(3))


# ----------------------------------------------------------------------------- directions
def direction(v):
    """float vector -> primitive integer direction (same sense), None if there is none with small components"""
    v = np.asarray(v, dtype=float)
    m = np.abs(v).max()
    if not m > 1e-12:
        return None
    # components of a normalised small-integer direction are n / sqrt(N): squares of the ratios are rational
    k = int(np.argmax(np.abs(v)))
    fr = []
    for x in v:
        r2 = Fraction((x / v[k]) ** 2).limit_denominator(400)
        if abs(float(r2) - (x / v[k]) ** 2) > 1e-9:
            return None
        num, den = r2.numerator, r2.denominator
        sn, sd = math.isqrt(num), math.isqrt(den)
        if sn * sn != num or sd * sd != den:
            return None
        fr.append(Fraction(sn, sd) * (1 if x * v[k] >= 0 else -1))
    L = 1
    for f in fr:
        L = L * f.denominator // math.gcd(L, f.denominator)
    d = [int(f * L) for f in fr]
    if v[k] < 0:
        d = [-x for x in d]
    g = 0
    for x in d:
        g = math.gcd(g, abs(x))
    d = [x // g for x in d]
    dn = np.array(d, dtype=float)
    if np.abs(dn / np.linalg.norm(dn) - v / np.linalg.norm(v)).max() > 1e-9:
        return None
    return d


def frame_dirs(B):
    """3x3 frame (rows x, y, z) -> dict(X, Y, Z integer directions, unit) or None"""
    B = np.asarray(B, dtype=float)
    if B.shape != (3, 3):
        return None
    ds = [direction(r) for r in B]
    if any(d is None for d in ds):
        return None
    unit = bool(np.abs(np.linalg.norm(B, axis=1) - 1.0).max() < 1e-9)
    return dict(X=ds[0], Y=ds[1], Z=ds[2], unit=unit)


# ----------------------------------------------------------------------------- Wannier90 block
_LINE = re.compile(r"^f=\s*([-\d.eE+]+)\s*,\s*([-\d.eE+]+)\s*,\s*([-\d.eE+]+)\s*:\s*([^:]+?)\s*((?::.*)?)$")


def parse_w90_block(text):
    """-> (num_wann or None, [dict(pos (numerators), orbital (str), opts {z, x, r, zona})], has_begin_end)"""
    num_wann, lines, inside, seen_be = None, [], False, False
    for raw in text.splitlines():
        l = raw.strip()
        if not l:
            continue
        m = re.match(r"^num_wann\s*[=:]?\s*(\d+)$", l)
        if m:
            num_wann = int(m.group(1))
            continue
        if l.lower() == "begin projections":
            inside, seen_be = True, True
            continue
        if l.lower() == "end projections":
            inside = False
            continue
        m = _LINE.match(l)
        if not m:
            raise ValueError(f"not a Wannier90 projection line: {l!r}")
        pos = nums([float(m.group(k)) for k in (1, 2, 3)])
        opts = {}
        for o in m.group(5).split(":"):
            if o.strip():
                k, v = o.split("=")
                opts[k.strip()] = v.strip()
        lines.append(dict(pos=pos, orbital=m.group(4).strip(), opts=opts))
    return num_wann, lines, seen_be


# ----------------------------------------------------------------------------- tables of a real projection set
def canon_sites(seq):
    """[(proj, point key)] -> [[proj (1-based), rank of first appearance of the point inside the projection (1-based)]]"""
    rank = {}
    out = []
    for i, k in seq:
        d = rank.setdefault(i, {})
        if k not in d:
            d[k] = len(d) + 1
        out.append([i + 1, d[k]])
    return out, rank


def relabel(seq, rank):
    out = []
    for i, k in seq:
        if k not in rank.get(i, {}):
            return None
        out.append([i + 1, rank[i][k]])
    return out
