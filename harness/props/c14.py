"""C14: tetrahedron weights equal the exact linear-tetrahedron volume fractions.

spec  : TetraWeights.tla -- ClosedOcc (Hermite-Genocchi divided difference of (ef-t)_+^3, confluent for coincident corners),
        TruncPow (symmetric truncated-power sum), WeightsTetra (transcription of weights_tetra: sort, 1e-12 nudge chain as
        an infinitesimal, piece selection, accurate product form / polynomial coefficients, der 0..3), ParalWeight
        (12-tetrahedra mean of TetraWeightsParal), AllBandGroups (weights_all_band_groups: groups in range, sea and
        anti-sea completion); exact rationals (BandsRat.tla).
        MC_TetraWeights / MC_TetraParal / MC_TetraGroups: TLC checks transcription = closed form and the C14 clauses for
        every input inside the constants.
bind  : spec -> code: every TLC state is replayed on the real weights_tetra (both branches, der 0..3, permuted corner order),
        TetraWeightsParal.weight_1k1b(_priv), TetraWeights.weights_all_band_groups (der 0, -1, 1) and the real CumDOS / DOS
        calculators with tetra=True on a duck-typed data_K; code -> spec: seeded random calls (larger magnitudes) are
        recorded and validated by TLC against TetraWeightsRec.tla (exact rationals, integer tolerance).
"""
import copy
import random
from fractions import Fraction

import numpy as np

from .. import tlc, ftable
from ..common import Report, MachineryError, seed, quiet
from ._c1314_util import tlc_jobs, validate_parallel

PROPS = {
    "C14": dict(level="model_checking",
                technique="TLC exhaustive on TetraWeights.tla (rational transcription of both branches of weights_tetra, of the 12-tetrahedra "
                          "parallelepiped mean and of weights_all_band_groups vs the exact divided-difference volume fraction) + replay of every TLC "
                          "state on the real functions and on CumDOS/DOS(tetra=True) + TLC validation of recorded calls in exact rationals",
                text="TLC checks for every corner multiset / Fermi level / derivative order / branch inside the constants that the code's formulas "
                     "equal the exact volume fraction and its derivatives, lie in [0,1], are monotone, order independent, 0 below and 1 above the "
                     "corners, continuous at the break points to the order the corner multiplicity allows, that the parallelepiped weight is the "
                     "mean of its 12 tetrahedra and that the sea / anti-sea completion of band groups reproduces the sum of the exact band "
                     "occupations (CumDOS 0 below all bands, num_wann above); every state is executed on the real code and compared with the "
                     "rational; random real calls are validated by TLC.",
                note="energies are integers times 1/16 (replay) or 1/8 (records), exact in binary floating point. Float tolerances: 1e-9 for "
                     "distinct corners (observed deviation <= 2e-15); 1e-5 for coincident corners (the code replaces them by a 1e-12 chain: "
                     "observed deviation <= 3e-10); records are compared after rounding to 1e-8 with tolerances 1e-8 (accurate branch, distinct), "
                     "1e-7 (polynomial branch, |E| <= 5: observed 2e-12) and 1e-5 (coincident). Named exclusions: a Fermi level equal to a "
                     "coincident corner energy is never used (NotOnDegenerateCorner: the polynomial branch evaluates the cubic of the 1e-12 "
                     "wide piece there, error 1e-3 .. 1e8 for accurate=False, see DESIGN 7); der n at a corner of multiplicity m is compared "
                     "with the closed form only if m + n <= 3 (WellDefined), otherwise with the code's right-continuous convention; bands are "
                     "ordered at every corner (BandsOrderedAtCorners, true for sorted eigenvalues). Nearly coincident corners (gaps 2^-10..2^-46, "
                     "not representable in TLC) are checked outside TLC on the accurate branch by the rigorous bracket exact(ef-4e-12) <= w <= "
                     "exact(ef) (the 1e-12 nudge moves corners up by <= 3e-12) and only measured on the polynomial branch (numeric_only parts).",
                ref="DESIGN.md 3.5"),
}

U_MC = 1.0 / 16     # unit of the model-checking replays (corners are even integers: multiples of 1/8; Fermi levels also odd)
U_REC = 1.0 / 8     # unit of the recorded calls
TOL_DISTINCT = 1e-9
TOL_COINCIDENT = 1e-5
INV_TETRA = ["CodeEqualsClosedForm", "ClosedEqualsTruncPow", "UnitRange", "DensityNonNegative", "Monotone", "MonotoneCode", "Outside",
             "OrderIrrelevant", "DerivativeOfPieceCubic", "BreakPoints", "Nudge"]
INV_PARAL = ["ParalCodeEqualsClosed", "ParalUnitRange", "ParalOutside", "ParalMonotone", "FaceSplit"]
INV_GROUPS = ["Assumed", "GroupsAreDisjoint", "SeaComplete", "AntiSeaComplete", "SeaPlusAntiSea", "SurfaceComplete", "CumDosLimits", "CumDosMonotone"]
REC_CFG = 'SPECIFICATION RecSpec\nCONSTANTS\n  TWVariant = "code"\nINVARIANT Report\nCHECK_DEADLOCK FALSE\n'
import os
WORKERS = int(os.environ.get("VERIF_TLC_WORKERS", "16"))


def tlaset(xs):
    return "{" + ", ".join(str(x) for x in xs) + "}"


def cfg_of(constants, invariants):
    return "SPECIFICATION Spec\nCONSTANTS\n" + "".join(f"  {k} = {v}\n" for k, v in constants.items()) + \
           "".join(f"INVARIANT {i}\n" for i in invariants) + "CHECK_DEADLOCK FALSE\n"


def frac(r):
    if r[1] == 0:
        return None
    return Fraction(r[0], r[1])


def py_closed(e, ef, n):
    """Python copy of TetraWeights.ClosedOcc (exact Fractions); certified against every TLC state in part_tetra"""
    from math import factorial
    s = sorted(Fraction(x) for x in e)
    ef = Fraction(ef)

    def hder(k, t):
        p = 3 - n - k
        x = ef - t
        if p < 0 or x <= 0:
            return Fraction(0)
        return (-1) ** k * Fraction(6, factorial(p)) * x ** p

    def dd(i, j):
        if s[i] == s[j]:
            return hder(j - i, s[i]) / factorial(j - i)
        return (dd(i + 1, j) - dd(i, j - 1)) / (s[j] - s[i])
    return -dd(0, 3)


def real_weights_tetra(efs, e, der, acc, unit):
    from wannierberri.grid.tetrahedron import weights_tetra
    got = weights_tetra(np.array(efs, dtype=float) * unit, e[0] * unit, e[1] * unit, e[2] * unit, e[3] * unit, der=der, accurate=acc)
    return got * unit ** der


class DuckTetraDataK:
    """what StaticCalculator.__call__ (tetra branch) and frml.Identity touch"""
    force_internal_terms_only = False

    def __init__(self, tw, cell_volume=2.0):
        self.tetraWeights = tw
        self.nk = tw.nk
        self.num_wann = tw.nb
        self.cell_volume = cell_volume


# --------------------------------------------------------------------------------------------------------------------
def tetra_jobs(thorough):
    corners = list(range(0, 17, 2)) if thorough else list(range(0, 9, 2))
    # EFLO is given shifted by one (cfg files cannot hold negative numbers)
    return {"c14_tetra": ("MC_TetraWeights.tla", cfg_of(dict(TWVariant='"code"', CORNERS=tlaset(corners), EFLO1=0, EFHI=corners[-1] + 1), INV_TETRA), True),
            # sensitivity: a slip in one polynomial coefficient must be rejected by TLC
            "c14_tetra_typo": ("MC_TetraWeights.tla", cfg_of(dict(TWVariant='"typo_c22"', CORNERS=tlaset(range(0, 7, 2)), EFLO1=0, EFHI=7), INV_TETRA), False)}


def part_tetra(rep, res, rng):
    st, st0 = res["c14_tetra"], res["c14_tetra_typo"]
    ftable.spec_violation(rep, st, "c14_tetra")
    tlc.check_not_vacuous(st, ["Step"], "c14_tetra")
    rep.add_tlc("c14_tetra", st)
    if not st0.get("violation"):
        raise MachineryError("sensitivity self-test failed: TWVariant=typo_c22 must violate an invariant of MC_TetraWeights")
    rep.part("c14_tetra_typo", sensitivity_violation=st0["violation"][1])

    groups = {}
    nst = 0
    classes = dict(distinct=0, coincident=0, on_simple_corner=0, excluded=0, accurate=0, poly=0)
    for s in ftable.dump_states(st):
        nst += 1
        groups.setdefault((tuple(s["e"]), s["der"], s["acc"]), []).append(s)
    if nst != st["distinct"]:
        raise MachineryError(f"dump has {nst} states, TLC reported {st['distinct']}")
    mc_oracle = []
    for (e, der, acc), sts in sorted(groups.items()):
        adm = [s for s in sts if s["admissible"]]
        classes["excluded"] += len(sts) - len(adm)
        if not adm:
            continue
        efs = [s["ef"] for s in adm]
        perm = list(e)
        rng.shuffle(perm)
        got = real_weights_tetra(efs, e, der, acc, U_MC)
        gotp = real_weights_tetra(efs, perm, der, acc, U_MC)
        distinct = len(set(e)) == 4
        tol = TOL_DISTINCT if distinct else TOL_COINCIDENT
        branch = "accurate" if (acc and der == 0) else "poly"
        for s, g, gp in zip(adm, got, gotp):
            exp = frac(s["w"])
            classes["distinct" if distinct else "coincident"] += 1
            classes[branch] += 1
            if s["ef"] in e:
                classes["on_simple_corner"] += 1
            rep.case(("tetra", e, s["ef"], der, acc), nontrivial=min(e) <= s["ef"] <= max(e))
            if exp is None:
                raise MachineryError("admissible state without a value")
            if abs(g - float(exp)) > tol or abs(gp - float(exp)) > tol:
                rep.violation(f"weights_tetra:{branch}:der{der}:" + ("distinct" if distinct else "coincident"),
                              dict(corners=list(e), permuted=perm, ef=s["ef"], unit=U_MC, der=der, accurate=acc,
                                   expected=[exp.numerator, exp.denominator], got_times_unit_pow_der=float(g), got_permuted=float(gp), tol=tol))
            if s["welldef"]:
                if py_closed(e, s["ef"], der) != frac(s["closed"]):
                    raise MachineryError(f"Python copy of ClosedOcc differs from the specification at {e} {s['ef']} der={der}")
                if der == 0 and acc:
                    mc_oracle.append((e, s["ef"], float(frac(s["closed"]))))
        if len(rep.cov["samples"]) < 2:
            s = adm[len(adm) // 2]
            rep.sample(dict(fn="weights_tetra", corners=list(e), ef=s["ef"], der=der, accurate=acc, unit=U_MC, exact=list(s["w"])))
    for k in ("distinct", "coincident", "on_simple_corner", "excluded", "accurate", "poly"):
        if classes[k] == 0:
            raise MachineryError(f"vacuous replay class {k}")
    rep.part("c14_tetra_replay", **classes)
    return mc_oracle


def part_oracle_numeric(rep, mc_oracle, rng):
    """numeric_only: the TLA+ closed form against a Monte-Carlo estimate of the volume fraction (validates the oracle)"""
    gen = np.random.default_rng(seed() + 14)
    n = 40000
    lam = gen.dirichlet(np.ones(4), size=n)
    worst = 0.0
    pick = mc_oracle if len(mc_oracle) < 400 else rng.sample(mc_oracle, 400)
    bad = 0
    for e, ef, exact in pick:
        est = float(np.mean(lam @ np.array(e, dtype=float) <= ef))
        sig = max(np.sqrt(max(exact * (1 - exact), 1e-4) / n), 1e-4)
        worst = max(worst, abs(est - exact) / sig)
        if abs(est - exact) > 6 * sig:
            bad += 1
    rep.part("numeric_only", oracle_vs_montecarlo_cases=len(pick), worst_deviation_in_sigma=round(worst, 2), beyond_6_sigma=bad)
    if bad:
        # the oracle itself would be wrong: machinery problem, not a finding about wannierberri
        raise MachineryError(f"closed form disagrees with Monte-Carlo volume fraction in {bad} cases")


def part_near_coincident(rep, thorough, rng):
    """nearly coincident corners (gaps 2^-10 .. 2^-46, not representable in TLC's integers): the code moves corners closer than 1e-12 up
    by at most 3e-12, and the occupation is monotone in every corner, hence exact(ef - 4e-12) <= weights_tetra(ef) <= exact(ef) must hold
    for the accurate branch whatever the gaps (exact = ClosedOcc in Fractions of the binary inputs). The polynomial branch (der >= 1) is
    only measured (numeric_only): for Fermi levels outside the tiny intervals between nearly coincident corners."""
    from wannierberri.grid.tetrahedron import weights_tetra
    n = bad = 0
    worst_poly = {1: 0.0, 2: 0.0, 3: 0.0}
    shift = Fraction(4, 10 ** 12)
    for it in range(3000 if thorough else 400):
        g = 2.0 ** -rng.choice([10, 20, 28, 34, 38, 40, 42, 46])
        base = [rng.randint(0, 4) * 0.125 for _ in range(4)]
        idx = rng.sample(range(4), rng.randint(2, 4))
        e = list(base)
        for i in idx:
            e[i] = base[idx[0]] + rng.randint(0, 3) * g
        srt = sorted(e)
        fe = [Fraction(t) for t in e]
        cands = [srt[0] - 0.0625, srt[3] + 0.0625] + [(a + b) / 2 for a, b in zip(srt, srt[1:]) if b > a] + [srt[1] + g / 4, srt[2] - g / 4, srt[0], srt[3]]
        got = weights_tetra(np.array(cands), *e, der=0)
        for x, gv in zip(cands, got):
            fx = Fraction(x)
            if all(t == fx for t in fe) or all(t == fx - shift for t in fe):
                continue
            hi = float(py_closed(fe, fx, 0))
            lo = float(py_closed(fe, fx - shift, 0))
            n += 1
            rep.case(("near", tuple(e), x), nontrivial=srt[0] <= x <= srt[3])
            if not (lo - 1e-9 <= gv <= hi + 1e-9):
                bad += 1
                rep.violation("weights_tetra:accurate:nearly_coincident", dict(corners=e, ef=x, exact_at_ef_minus_4e_12=lo, got=float(gv), exact_at_ef=hi,
                                                                              note="expected lo - 1e-9 <= got <= hi + 1e-9"))
        wide = [srt[0] - 0.0625, srt[3] + 0.0625] + [(a + b) / 2 for a, b in zip(srt, srt[1:]) if b - a >= 0.0625]
        for der in (1, 2, 3):
            gd = weights_tetra(np.array(wide), *e, der=der)
            for x, gv in zip(wide, gd):
                ex = float(py_closed(fe, Fraction(x), der))
                worst_poly[der] = max(worst_poly[der], abs(gv - ex) / max(1.0, abs(ex)))
    if n == 0:
        raise MachineryError("no nearly coincident case")
    rep.part("numeric_only_near_coincident", accurate_branch_bracket_cases=n, outside_bracket=bad,
             polynomial_branch_worst_relative_deviation_away_from_tiny_intervals={f"der{k}": float(v) for k, v in worst_poly.items()})


# --------------------------------------------------------------------------------------------------------------------
def paral_jobs(thorough):
    if thorough:
        consts = dict(TWVariant='"code"', CVALS="{0, 2}", CENTERS="{0, 1, 2, 3}", EFS1="{0, 1, 2, 3, 4}")
    else:
        consts = dict(TWVariant='"code"', CVALS="{0, 2}", CENTERS="{1}", EFS1="{2, 3}")
    jobs = {"c14_paral": ("MC_TetraParal.tla", cfg_of(consts, INV_PARAL), True)}
    if thorough:
        jobs["c14_paral_b"] = ("MC_TetraParal.tla", cfg_of(dict(TWVariant='"code"', CVALS="{0, 4}", CENTERS="{1, 2, 3}", EFS1="{2, 3, 4}"), INV_PARAL), True)
    return jobs


def part_paral(rep, res, rng):
    from wannierberri.grid.tetrahedron import TetraWeightsParal
    n_adm = n_exc = n_in = n_calc = n_low = 0
    states = []
    for name in sorted(k for k in res if k.startswith("c14_paral")):
        ftable.spec_violation(rep, res[name], name)
        rep.add_tlc(name, res[name])
        states.append(ftable.dump_states(res[name]))
    import itertools
    for s in itertools.chain(*states):
        if not s["admissible"]:
            n_exc += 1
            continue
        n_adm += 1
        c = np.array(s["c"], dtype=float)          # [x][y][z]
        tw = TetraWeightsParal(eCenter=np.array([[s["ec"] * U_MC]]), eCorners=(c * U_MC)[None, :, :, :, None])
        ef = np.array([s["ef"] * U_MC])
        der = s["der"]
        got = float(tw.weight_1k1b_priv(ef, 0, 0, der)[0]) * U_MC ** der
        exp = frac(s["w"])
        inside = min(c.min(), s["ec"]) <= s["ef"] <= max(c.max(), s["ec"])
        n_in += int(inside)
        rep.case(("paral", s["c"], s["ec"], s["ef"], der), nontrivial=bool(inside))
        if abs(got - float(exp)) > TOL_COINCIDENT:
            rep.violation(f"TetraWeightsParal.weight_1k1b_priv:der{der}",
                          dict(corners_xyz=s["c"], centre=s["ec"], ef=s["ef"], unit=U_MC, der=der, expected=[exp.numerator, exp.denominator], got=got))
        n_low += der <= 1
        if der <= 1 and n_low % 3 == 0:
            # the same K-point through the real calculators (identity formula): CumDOS / DOS with tetra=True
            from wannierberri.calculators.static import CumDOS, DOS
            dk = DuckTetraDataK(TetraWeightsParal(eCenter=np.array([[s["ec"] * U_MC]]), eCorners=(c * U_MC)[None, :, :, :, None]))
            with quiet():
                val = float((CumDOS if der == 0 else DOS)(Efermi=ef, tetra=True)(dk).data[0]) * U_MC ** der
            n_calc += 1
            rep.case(("paral_calc", s["c"], s["ec"], s["ef"], der), nontrivial=bool(inside))
            if abs(val - float(exp)) > TOL_COINCIDENT:
                rep.violation(("CumDOS" if der == 0 else "DOS") + ":tetra:parallelepiped",
                              dict(corners_xyz=s["c"], centre=s["ec"], ef=s["ef"], unit=U_MC, expected=[exp.numerator, exp.denominator], got=val))
        if n_adm == 1:
            rep.sample(dict(fn="TetraWeightsParal.weight_1k1b_priv", corners_xyz=s["c"], centre=s["ec"], ef=s["ef"], der=der, exact=list(s["w"])))
    if n_adm == 0 or n_exc == 0 or n_in == 0 or n_calc == 0:
        raise MachineryError(f"vacuous parallelepiped replay: admissible={n_adm} excluded={n_exc} inside={n_in} calculators={n_calc}")
    rep.part("c14_paral_replay", admissible=n_adm, excluded=n_exc, inside_band=n_in, calculators=n_calc)


# --------------------------------------------------------------------------------------------------------------------
def real_groups(tw, efs_arr, der, th, kr, unit):
    res = tw.weights_all_band_groups(efs_arr, der=der, degen_thresh=th * unit, degen_Kramers=kr)
    out = []
    for (ib1, ib2), w in sorted(res[0].items()):
        out.append((int(ib1), int(ib2), np.array(w, dtype=float) * unit ** max(der, 0)))
    return out


def groups_consts(thorough):
    return {"c14_groups_nb2": dict(TWVariant='"code"', NB=2, VALS="{0, 2, 4}" if thorough else "{0, 2}",
                                   STARTS1="{0, 2, 3, 5}" if thorough else "{0, 1, 2, 4}", STEPS="{2}" if thorough else "{1, 2}", NEF=3, THS="{0, 2}"),
            "c14_groups_nb3": dict(TWVariant='"code"', NB=3, VALS="{0, 2}", STARTS1=tlaset(range(0, 5)) if thorough else "{0, 1, 3}",
                                   STEPS="{1, 2}" if thorough else "{1}", NEF=3, THS="{0, 2}")}


def groups_jobs(thorough):
    return {name: ("MC_TetraGroups.tla", cfg_of(consts, INV_GROUPS), True) for name, consts in groups_consts(thorough).items()}


def part_groups(rep, res, thorough, rng):
    from wannierberri.grid.tetrahedron import TetraWeights
    from wannierberri.calculators.static import CumDOS, DOS
    cls = dict(sea_extra_group=0, antisea_extra_group=0, multi_band_group=0, band_left_out=0, calculators=0)
    for name, consts in groups_consts(thorough).items():
        st = res[name]
        ftable.spec_violation(rep, st, name)
        rep.add_tlc(name, st)
        nb = consts["NB"]
        for ist, s in enumerate(ftable.dump_states(st)):
            ec = np.array(s["ec"], dtype=float) * U_MC
            cor = np.array(s["cor"], dtype=float).T * U_MC             # [corner, band]
            efs = np.array(s["efs"], dtype=float) * U_MC
            th, kr = s["th"], s["kr"]
            tw = TetraWeights(eCenter=ec[None, :], eCorners=cor[None, :, :])
            key0 = ("groups", s["ec"], s["cor"], s["efs"], th, kr)
            for der, G in ((0, s["G0"]), (-1, s["Gm"]), (1, s["G1"])):
                exp = sorted((g[0], g[1], [Fraction(x[0], x[1]) for x in g[2]]) for g in G)
                got = real_groups(tw, efs, der, th, kr, U_MC)
                rep.case(key0 + (der,), nontrivial=len(exp) > 0)
                ok = [(a, b) for a, b, _ in exp] == [(a, b) for a, b, _ in got]
                if ok:
                    ok = all(abs(float(x) - y) <= TOL_COINCIDENT for ge, gg in zip(exp, got) for x, y in zip(ge[2], gg[2]))
                if not ok:
                    rep.violation(f"weights_all_band_groups:der{der}",
                                  dict(eCenter=s["ec"], eCorners_per_band=s["cor"], efs=s["efs"], unit=U_MC, th=th, kramers=kr, der=der,
                                       expected=[(a, b, [[x.numerator, x.denominator] for x in w]) for a, b, w in exp],
                                       got=[(a, b, [float(x) for x in w]) for a, b, w in got]))
                if any(b - a > 1 for a, b, _ in exp):
                    cls["multi_band_group"] += 1
                if sum(b - a for a, b, _ in exp) < nb:
                    cls["band_left_out"] += 1
            lo, hi = s["efs"][0], s["efs"][-1]
            emax = [max([s["ec"][b]] + list(s["cor"][b])) for b in range(nb)]
            emin = [min([s["ec"][b]] + list(s["cor"][b])) for b in range(nb)]
            if any(x < lo for x in emax):
                cls["sea_extra_group"] += 1
            if any(x > hi for x in emin):
                cls["antisea_extra_group"] += 1
            # the real calculators (identity formula): CumDOS / DOS with tetra=True on a duck data_K holding this TetraWeights
            if ist % (3 if thorough else 2) == 0:
                cls["calculators"] += 1
                dk = DuckTetraDataK(TetraWeights(eCenter=ec[None, :], eCorners=cor[None, :, :]))
                with quiet():
                    cum = CumDOS(Efermi=efs, tetra=True, degen_thresh=th * U_MC, degen_Kramers=kr)(dk).data
                    dos = DOS(Efermi=efs, tetra=True, degen_thresh=th * U_MC, degen_Kramers=kr)(dk).data * U_MC
                for i in range(len(efs)):
                    e0 = sum((g[1] - g[0]) * Fraction(g[2][i][0], g[2][i][1]) for g in s["G0"])
                    e1 = sum((g[1] - g[0]) * Fraction(g[2][i][0], g[2][i][1]) for g in s["G1"])
                    rep.case(key0 + ("calc", i))
                    if abs(float(cum[i]) - float(e0)) > TOL_COINCIDENT * nb:
                        rep.violation("CumDOS:tetra", dict(eCenter=s["ec"], eCorners_per_band=s["cor"], efs=s["efs"], unit=U_MC, th=th, kramers=kr,
                                                           level=i, expected=[e0.numerator, e0.denominator], got=float(cum[i])))
                    if abs(float(dos[i]) - float(e1)) > TOL_COINCIDENT * nb:
                        rep.violation("DOS:tetra", dict(eCenter=s["ec"], eCorners_per_band=s["cor"], efs=s["efs"], unit=U_MC, th=th, kramers=kr,
                                                        level=i, expected_times_unit=[e1.numerator, e1.denominator], got_times_unit=float(dos[i])))
                    allc = emin + emax
                    if s["efs"][i] < min(allc) and float(cum[i]) != 0.0:
                        rep.violation("CumDOS:tetra:below_all_bands", dict(eCenter=s["ec"], eCorners_per_band=s["cor"], efs=s["efs"], got=float(cum[i])))
                    if s["efs"][i] > max(allc) and abs(float(cum[i]) - nb) > 1e-12:
                        rep.violation("CumDOS:tetra:above_all_bands", dict(eCenter=s["ec"], eCorners_per_band=s["cor"], efs=s["efs"], got=float(cum[i]), num_wann=nb))
            if ist == 0:
                rep.sample(dict(fn="weights_all_band_groups", eCenter=s["ec"], eCorners_per_band=s["cor"], efs=s["efs"], th=th, kramers=kr,
                                sea_groups=[[g[0], g[1], [list(x) for x in g[2]]] for g in s["G0"]]))
    for k, v in cls.items():
        if v == 0:
            raise MachineryError(f"vacuous group-completion class {k}")
    rep.part("c14_groups_replay", **cls)


# --------------------------------------------------------------------------------------------------------------------
def to8(x):
    v = float(x) * 1e8
    r = int(round(v))
    return r


def admissible_levels(cands, tetras, der):
    n = max(der, 0)
    out = []
    for x in cands:
        if all(t.count(x) <= 1 and t.count(x) + n <= 3 for t in tetras):
            out.append(x)
    return out


def part_records(rep, thorough, rng):
    from wannierberri.grid.tetrahedron import TetraWeights, TetraWeightsParal
    recs = []
    nrec = 2500 if thorough else 320
    stats = dict(tetra=0, paral=0, groups=0, coincident=0, large_magnitude=0)
    while len(recs) < nrec:
        r = rng.random()
        if r < 0.6:
            der = rng.randint(0, 3)
            acc = rng.random() < 0.6
            accurate_branch = acc and der == 0
            base = rng.choice([0, 8, 40, 100, 400, 800] if accurate_branch else [0, 8, 24, 36]) * rng.choice([-1, 1])
            span = rng.randint(1, 14)
            e = [base + rng.randint(0, span) for _ in range(4)]
            if rng.random() < 0.3:
                e[rng.randrange(4)] = e[rng.randrange(4)]
            efs = admissible_levels(sorted(set(rng.randint(min(e) - 2, max(e) + 2) for _ in range(7))), [e], der)
            if not efs:
                continue
            distinct = len(set(e)) == 4
            tol8 = (1 if accurate_branch else 10) if distinct else 1000
            got = real_weights_tetra(efs, e, der, acc, U_REC)
            recs.append(dict(fn="tetra", e=e, efs=efs, der=der, acc=acc, tol8=tol8, got8=[to8(g) for g in got]))
            stats["coincident"] += not distinct
            stats["large_magnitude"] += abs(base) >= 100
        elif r < 0.8:
            der = rng.randint(0, 3)
            base = rng.choice([0, 8, 24]) * rng.choice([-1, 1])
            span = rng.randint(1, 6)
            c = [[[base + rng.randint(0, span) for _ in range(2)] for _ in range(2)] for _ in range(2)]
            flat = [c[x][y][z] for x in range(2) for y in range(2) for z in range(2)]
            ec = rng.choice([sum(flat) // 8, base + rng.randint(0, span)])
            tw = TetraWeightsParal(eCenter=np.array([[ec * U_REC]]), eCorners=(np.array(c, dtype=float) * U_REC)[None, :, :, :, None])
            tetras = []
            for iface in (0, 1):
                a = np.array(c)
                for f in (a[iface, :, :], a[:, iface, :], a[:, :, iface]):
                    tetras.append([ec, int(f[0, 0]), int(f[0, 1]), int(f[1, 1])])
                    tetras.append([ec, int(f[0, 0]), int(f[1, 0]), int(f[1, 1])])
            efs = admissible_levels(sorted(set(rng.randint(min(flat + [ec]) - 1, max(flat + [ec]) + 1) for _ in range(5))), tetras, der)
            if not efs:
                continue
            got = tw.weight_1k1b_priv(np.array(efs, dtype=float) * U_REC, 0, 0, der) * U_REC ** der
            recs.append(dict(fn="paral", c=c, ec=ec, efs=efs, der=der, tol8=1000, got8=[to8(g) for g in got]))
        else:
            nb = rng.randint(1, 4)
            der = rng.choice([0, 0, -1, 1, 2])
            base = rng.choice([0, 8, 16]) * rng.choice([-1, 1])
            cols = [sorted(base + rng.randint(0, 8) for _ in range(nb)) for _ in range(5)]     # ordered at centre and every corner
            ec = [cols[0][b] for b in range(nb)]
            cor = [[cols[1 + i][b] for i in range(4)] for b in range(nb)]
            th = rng.choice([0, 1, 2])
            kr = (nb % 2 == 0) and rng.random() < 0.3
            a0 = rng.randint(base - 2, base + 9)
            d = rng.randint(1, 3)
            efs = [a0 + i * d for i in range(rng.randint(2, 5))]
            if admissible_levels(efs, cor, der) != efs:
                continue
            tw = TetraWeights(eCenter=np.array(ec, dtype=float)[None, :] * U_REC, eCorners=np.array(cor, dtype=float).T[None, :, :] * U_REC)
            got = real_groups(tw, np.array(efs, dtype=float) * U_REC, der, th, kr, U_REC)
            recs.append(dict(fn="groups", ec=ec, cor=cor, efs=efs, der=der, th=th, kr=kr, tol8=1000,
                             out=[[a, b, [to8(x) for x in w]] for a, b, w in got]))
        stats[recs[-1]["fn"]] += 1
        rep.case(("rec", len(recs), recs[-1]["fn"], str(recs[-1].get("e", recs[-1].get("ec"))), tuple(recs[-1]["efs"]), recs[-1]["der"]))
    for k, v in stats.items():
        if v == 0:
            raise MachineryError(f"vacuous record class {k}")
    stv, bad = validate_parallel("TetraWeightsRec.tla", REC_CFG, recs, "c14", 8)
    rep.add_tlc("c14_records", stv)
    rep.add_traces(len(recs))
    rep.part("c14_records", **stats)
    for i, clauses in bad.items():
        r = recs[i]
        if "admissible" in clauses:
            raise MachineryError(f"the harness recorded an inadmissible input: {r}")
        fnname = {"tetra": "weights_tetra", "paral": "TetraWeightsParal.weight_1k1b_priv", "groups": "weights_all_band_groups"}[r["fn"]]
        rep.violation(f"{fnname}:recorded:der{r['der']}", dict(record=r, failing_clauses=clauses, unit=U_REC,
                                                              note="got8 = round(value * unit^der * 1e8), tol8 in 1e-8"))
    rep.sample(recs[0])
    # binding self-test: corrupted records must be rejected
    for fn, corrupt in (("tetra", lambda q: q["got8"].__setitem__(0, q["got8"][0] + 5000)),
                        ("groups", lambda q: q["out"].pop())):
        cand = [r for r in recs if r["fn"] == fn and (fn != "groups" or len(r["out"]) > 0)][:1]
        if not cand:
            raise MachineryError(f"no record for the self-test of {fn}")
        b = copy.deepcopy(cand)
        corrupt(b[0])
        _, b2 = ftable.validate_records("TetraWeightsRec.tla", REC_CFG, b, "c14_selftest")
        if 0 not in b2:
            raise MachineryError(f"binding self-test failed: corrupted {fn} record accepted")
        rep.part("binding_selftest_" + fn, corrupted_record_rejected=b2[0])


def check(pid, tier):
    rep = Report(pid, tier, "model_checking")
    thorough = tier == "thorough"
    rng = random.Random(seed() * 7919 + 14)
    rep.rule("TLC enumerates every sorted corner multiset x Fermi level x der x branch (MC_TetraWeights), every parallelepiped corner assignment "
             "(MC_TetraParal) and every band table / Fermi grid / threshold (MC_TetraGroups) inside the constants; a case = one TLC state replayed on "
             "the real function (float vs exact rational), plus seeded random recorded calls validated by TLC; distinct by input tuple")
    rep.assume("energies are integer multiples of 1/16 or 1/8, so all comparisons inside the code are exact and only rounding of the arithmetic remains")
    rep.assume("a Fermi level never equals a coincident corner energy (NotOnDegenerateCorner); bands are ordered at every corner")
    jobs = {}
    jobs.update(tetra_jobs(thorough))
    jobs.update(paral_jobs(thorough))
    jobs.update(groups_jobs(thorough))
    import time
    t = [time.time()]

    def lap(name):
        t.append(time.time())
        rep.part("wall_s_by_part", **{name: round(t[-1] - t[-2], 1)})
    res = tlc_jobs(jobs, WORKERS)
    lap("tlc_models_concurrent")
    oracle = part_tetra(rep, res, rng)
    lap("replay_tetra")
    part_oracle_numeric(rep, oracle, rng)
    part_near_coincident(rep, thorough, rng)
    part_paral(rep, res, rng)
    lap("replay_paral")
    part_groups(rep, res, thorough, rng)
    lap("replay_groups")
    part_records(rep, thorough, rng)
    lap("records")
    return rep.finish()
