"""C14: tetrahedron weights equal the exact linear-tetrahedron volume fractions.

spec  : TetraWeights.tla -- ClosedOcc (Hermite-Genocchi divided difference of (ef-t)_+^3, confluent for coincident corners),
        TruncPow (symmetric truncated-power sum), WeightsTetra (transcription of weights_tetra: sort, 1e-12 nudge chain as
        an infinitesimal, piece selection, accurate product form / polynomial coefficients, der 0..3), ParalWeight
        (12-tetrahedra mean of TetraWeightsParal; either diagonal of a face), AllBandGroups (weights_all_band_groups: groups
        in range, sea and anti-sea completion; compared per band); exact rationals (BandsRat.tla).
        MC_TetraWeights / MC_TetraParal / MC_TetraGroups: TLC checks transcription = closed form and the C14 clauses for
        every input inside the constants.
bind  : spec -> code: every TLC state is replayed on the real weights_tetra (both branches, der 0..3, permuted corner order),
        on one-band TetraWeightsParal objects (through weights_all_band_groups and, if still there, weight_1k1b_priv), on
        TetraWeights.weights_all_band_groups (der 0, -1, 1; per-band weights) and, for a fixed subset, on the real CumDOS / DOS
        calculators with tetra=True on a duck-typed data_K; objects with three k-points are queried with two Fermi arrays in
        the order der 0, 1, 1, 0, 0 (weight cache); one real wb.run (pythtb model, real Data_K.tetraWeights) is compared with
        the closed form on corner energies that the harness gets from pythtb; code -> spec: seeded random calls (larger
        magnitudes) are recorded and validated by TLC against TetraWeightsRec.tla (exact rationals, integer tolerance).
"""
import copy
import itertools
import os
import random
from fractions import Fraction

import numpy as np

from .. import ftable
from ..common import Report, MachineryError, seed, quiet, WORK
from ._c1314_util import (tlc_jobs, validate_parallel, validate_records, lib_call, run_parts, Guard, PrivateGone, uniq, compiled_call)

PROPS = {
    "C14": dict(level="model_checking",
                technique="TLC exhaustive on TetraWeights.tla (rational transcription of both branches of weights_tetra, of the 12-tetrahedra "
                          "parallelepiped mean and of weights_all_band_groups vs the exact divided-difference volume fraction) + replay of every "
                          "admissible TLC state on the real functions and of a fixed subset on CumDOS/DOS(tetra=True) + TLC validation of recorded "
                          "calls in exact rationals + one real run through Data_K.tetraWeights (floating point)",
                text="TLC checks for every corner multiset / Fermi level / derivative order / branch inside the constants that the code's formulas "
                     "equal the exact volume fraction and its derivatives, lie in [0,1], are monotone, order independent, 0 below and 1 above the "
                     "corners, continuous at the break points to the order the corner multiplicity allows, that the parallelepiped weight is the "
                     "mean of its 12 tetrahedra (independent of the face diagonals on cubes with planar faces) and that the sea / anti-sea "
                     "completion of band groups gives every band the mean exact weight of its degenerate group (CumDOS 0 below all bands, "
                     "num_wann above). Every admissible state is executed on the real weights_tetra / TetraWeightsParal / weights_all_band_groups "
                     "and compared with the rational (parallelepipeds with non-planar faces: with the bounds over the possible face diagonals; "
                     "band groups: per band, not as a list of groups); every third parallelepiped state of der <= 1 and every second / third "
                     "group state also goes through CumDOS / DOS(tetra=True) on a duck-typed data_K; random real calls are validated by TLC. "
                     "Quick tier: corners from {0,2,4,6}, 48 of the 256 cubes over {0,4}; thorough: corners 0..16, all cubes over two pairs.",
                note="energies are integers times 1/16 (replay) or 1/8 (records), exact in binary floating point. Float tolerances: 1e-9 for "
                     "distinct corners (observed deviation <= 2e-15); 1e-5 for coincident corners (the code replaces them by a 1e-12 chain: "
                     "observed deviation <= 3e-10); records are compared after rounding to 1e-8 with tolerances 1e-8 (accurate branch, distinct), "
                     "1e-7 (polynomial branch, |E| <= 5: observed 2e-12) and 1e-5 (coincident). The polynomial branch is decided for |E| <= 4.5 and "
                     "exactly coincident or well separated corners only. Named exclusions: a Fermi level equal to a coincident corner energy is "
                     "not used in TLC (NotOnDegenerateCorner: the polynomial branch evaluates the cubic of the 1e-12 wide piece there, error 1e-3 .. "
                     "1e8 for accurate=False, see DESIGN 7); for the accurate branch such levels are checked outside TLC against the (continuous) "
                     "closed form with 1e-5. der 3 on a simple corner (the derivative jumps): either one-sided value is accepted for one "
                     "tetrahedron, such parallelepiped states are skipped; bands are ordered at every corner (BandsOrderedAtCorners, true for sorted "
                     "eigenvalues). Nearly coincident corners (gaps 2^-10..2^-46, not representable in TLC) are checked outside TLC on the accurate "
                     "branch by the two-sided bracket exact(ef-1e-9) - 1e-9 <= w <= exact(ef+1e-9) + 1e-9 (any nudge of the corners up to 1e-9 in "
                     "either direction) and only measured on the polynomial branch. The real run (pythtb 2-band model, 4x4x2 k-points) is compared "
                     "with the face-diagonal bounds computed from pythtb eigenvalues at k +- dk/2, tolerance 1e-7 (observed 1e-15 where the bounds "
                     "coincide); a harness-side model with corners at k +- dk must fall outside the bounds (sensitivity self-test).",
                ref="DESIGN.md 3.5"),
}

U_MC = 1.0 / 16     # unit of the model-checking replays (corners are even integers: multiples of 1/8; Fermi levels also odd)
U_REC = 1.0 / 8     # unit of the recorded calls
TOL_DISTINCT = 1e-9
TOL_COINCIDENT = 1e-5
INV_TETRA = ["CodeEqualsClosedForm", "ClosedEqualsTruncPow", "UnitRange", "DensityNonNegative", "Monotone", "MonotoneCode", "Outside",
             "OrderIrrelevant", "DerivativeOfPieceCubic", "BreakPoints", "Nudge", "OneSidedOnlyAtJumps"]
INV_PARAL = ["ParalCodeEqualsClosed", "ParalUnitRange", "ParalOutside", "ParalMonotone", "FaceSplit", "PlanarDiagonalFree"]
INV_GROUPS = ["Assumed", "GroupsAreDisjoint", "SeaComplete", "AntiSeaComplete", "SeaPlusAntiSea", "SurfaceComplete", "CumDosLimits", "CumDosMonotone",
              "PerBandExact", "WholeDegenerateGroups"]
REC_CFG = 'SPECIFICATION RecSpec\nCONSTANTS\n  TWVariant = "code"\nINVARIANT Report\nCHECK_DEADLOCK FALSE\n'
WORKERS = int(os.environ.get("VERIF_TLC_WORKERS", "16"))


def tlaset(xs):
    return "{" + ", ".join(str(x) for x in xs) + "}"


def cfg_of(constants, invariants):
    return "SPECIFICATION Spec\nCONSTANTS\n" + "".join(f"  {k} = {v}\n" for k, v in constants.items()) + \
           "".join(f"INVARIANT {i}\n" for i in invariants) + "CHECK_DEADLOCK FALSE\n"


def frac(r):
    if r[1] == 0:
        return None
    return Fraction(r[0], r[1])


def py_closed(e, ef, n):
    """Python copy of TetraWeights.ClosedOcc (exact Fractions); certified against every TLC state in part_tetra"""
    from math import factorial
    s = sorted(Fraction(x) for x in e)
    ef = Fraction(ef)

    def hder(k, t):
        p = 3 - n - k
        x = ef - t
        if p < 0 or x <= 0:
            return Fraction(0)
        return (-1) ** k * Fraction(6, factorial(p)) * x ** p

    def dd(i, j):
        if s[i] == s[j]:
            return hder(j - i, s[i]) / factorial(j - i)
        return (dd(i + 1, j) - dd(i, j - 1)) / (s[j] - s[i])
    return -dd(0, 3)


def py_borders(E, th, kr):
    b = [0] + [i for i in range(1, len(E)) if E[i] - E[i - 1] > th] + [len(E)]
    if kr:
        b = [i for i in b if i % 2 == 0 or i == len(E)]
    return list(zip(b, b[1:]))


def real_weights_tetra(efs, e, der, acc, unit):
    from wannierberri.grid.tetrahedron import weights_tetra
    got = compiled_call(weights_tetra, np.array(efs, dtype=float) * unit, e[0] * unit, e[1] * unit, e[2] * unit, e[3] * unit, der=der, accurate=acc)
    return np.array(got, dtype=float) * unit ** der


class DuckTetraDataK:
    """what StaticCalculator.__call__ (tetra branch) and frml.Identity touch"""
    force_internal_terms_only = False

    def __init__(self, tw, nk, nb, cell_volume=2.0):
        self.tetraWeights = tw
        self.nk = nk
        self.num_wann = nb
        self.cell_volume = cell_volume


def face_pairs(ec, c):
    """the six faces of the cube c[x][y][z] with the centre: for each face the two splits ((t1, t2) code's diagonal [0,0]-[1,1],
    (t1', t2') the other diagonal), each t a list of four corner energies"""
    c = np.asarray(c)
    out = []
    for iface in (0, 1):
        for F in (c[iface, :, :], c[:, iface, :], c[:, :, iface]):
            a, b, cc, d = F[0, 0], F[0, 1], F[1, 0], F[1, 1]
            out.append((([ec, a, b, d], [ec, a, cc, d]), ([ec, b, a, cc], [ec, b, d, cc])))
    return out


def paral_bounds(ec, c, ef, der):
    """-> (value with the code's diagonals, lower, upper) of the 12-tetrahedra mean over the possible face diagonals (Fractions)"""
    code = lo = hi = Fraction(0)
    for (A, B) in face_pairs(ec, c):
        va = py_closed(A[0], ef, der) + py_closed(A[1], ef, der)
        vb = py_closed(B[0], ef, der) + py_closed(B[1], ef, der)
        code += va
        lo += min(va, vb)
        hi += max(va, vb)
    return code / 12, lo / 12, hi / 12


def expand_per_band(groups, nb, nef):
    """list of (ib1, ib2, weights[nef]) -> array [band][level]: weight of the group containing the band, 0 for bands in no group;
    None if groups overlap"""
    out = np.zeros((nb, nef))
    seen = np.zeros(nb, dtype=int)
    for a, b, w in groups:
        w = np.asarray(w, dtype=float)
        if w.shape != (nef,) or a < 0 or b > nb or a >= b:
            return None
        out[a:b] = w
        seen[a:b] += 1
    if np.any(seen > 1):
        return None
    return out


def splits_degenerate_group(groups, ec, th, kr):
    for a, b, _ in groups:
        for ga, gb in py_borders(list(ec), th, kr):
            if ga < b and a < gb and not (a <= ga and gb <= b):
                return (a, b), (ga, gb)
    return None


# --------------------------------------------------------------------------------------------------------------------
def tetra_jobs(thorough):
    corners = list(range(0, 17, 2)) if thorough else list(range(0, 7, 2))
    # EFLO is given shifted by one (cfg files cannot hold negative numbers)
    return {"c14_tetra": ("MC_TetraWeights.tla", cfg_of(dict(TWVariant='"code"', CORNERS=tlaset(corners), EFLO1=0, EFHI=corners[-1] + 1), INV_TETRA), True),
            # sensitivity: a slip in one polynomial coefficient must be rejected by TLC
            "c14_tetra_typo": ("MC_TetraWeights.tla", cfg_of(dict(TWVariant='"typo_c22"', CORNERS=tlaset(range(0, 7, 2)), EFLO1=0, EFHI=7), INV_TETRA), False)}


def part_tetra(rep, res, rng):
    st, st0 = res["c14_tetra"], res["c14_tetra_typo"]
    ftable.spec_violation(rep, st, "c14_tetra")
    rep.add_tlc("c14_tetra", st)
    if not st0.get("violation"):
        raise MachineryError("sensitivity self-test failed: TWVariant=typo_c22 must violate an invariant of MC_TetraWeights")
    rep.part("c14_tetra_typo", sensitivity_violation=st0["violation"][1])

    groups = {}
    nst = 0
    classes = dict(distinct=0, coincident=0, on_simple_corner=0, excluded=0, accurate=0, poly=0, one_sided=0)
    for s in ftable.dump_states(st):
        nst += 1
        groups.setdefault((tuple(s["e"]), s["der"], s["acc"]), []).append(s)
    if nst != st["distinct"]:
        raise MachineryError(f"dump has {nst} states, TLC reported {st['distinct']}")
    if not any(s["ef"] > min(s["e"]) for sts in groups.values() for s in sts):
        raise MachineryError("vacuous model c14_tetra: the Fermi level never moves (action Step)")
    mc_oracle = []
    for (e, der, acc), sts in sorted(groups.items()):
        adm = sorted((s for s in sts if s["admissible"]), key=lambda s: s["ef"])
        classes["excluded"] += len(sts) - len(adm)
        if not adm:
            continue
        efs = [s["ef"] for s in adm]
        perm = list(e)
        rng.shuffle(perm)
        inputs = dict(corners=list(e), permuted=perm, efs=efs, unit=U_MC, der=der, accurate=acc)
        ok1, got = lib_call(rep, "weights_tetra", inputs, real_weights_tetra, efs, e, der, acc, U_MC)
        ok2, gotp = lib_call(rep, "weights_tetra", inputs, real_weights_tetra, efs, perm, der, acc, U_MC)
        distinct = len(set(e)) == 4
        tol = TOL_DISTINCT if distinct else TOL_COINCIDENT
        branch = "accurate" if (acc and der == 0) else "poly"
        for i, s in enumerate(adm):
            exp = frac(s["w"])
            alt = frac(s["alt"])
            classes["distinct" if distinct else "coincident"] += 1
            classes[branch] += 1
            classes["one_sided"] += alt != exp
            if s["ef"] in e:
                classes["on_simple_corner"] += 1
            rep.case(("tetra", e, s["ef"], der, acc), nontrivial=min(e) <= s["ef"] <= max(e))
            if exp is None or alt is None:
                raise MachineryError("admissible state without a value")
            if ok1 and ok2 and got.shape == (len(adm),) and gotp.shape == (len(adm),):
                g, gp = got[i], gotp[i]
                # where the derivative jumps (der 3 on a simple corner) either one-sided value is accepted, the same for both orders
                if not any(abs(g - float(x)) <= tol and abs(gp - float(x)) <= tol for x in {exp, alt}):
                    rep.violation(f"weights_tetra:{branch}:der{der}:" + ("distinct" if distinct else "coincident"),
                                  dict(corners=list(e), permuted=perm, ef=s["ef"], unit=U_MC, der=der, accurate=acc,
                                       expected=[exp.numerator, exp.denominator], other_one_sided_value=[alt.numerator, alt.denominator],
                                       got_times_unit_pow_der=float(g), got_permuted=float(gp), tol=tol))
            elif ok1 and ok2:
                rep.violation(f"weights_tetra:{branch}:der{der}:shape", dict(inputs, got_shape=list(got.shape)))
            if s["welldef"]:
                if py_closed(e, s["ef"], der) != frac(s["closed"]):
                    raise MachineryError(f"Python copy of ClosedOcc differs from the specification at {e} {s['ef']} der={der}")
                if der == 0 and acc:
                    mc_oracle.append((e, s["ef"], float(frac(s["closed"]))))
        if len(rep.cov["samples"]) < 2:
            s = adm[len(adm) // 2]
            rep.sample(dict(fn="weights_tetra", corners=list(e), ef=s["ef"], der=der, accurate=acc, unit=U_MC, exact=list(s["w"])))
    for k, v in classes.items():
        if v == 0:
            raise MachineryError(f"vacuous replay class {k}")
    rep.part("c14_tetra_replay", **classes)
    return mc_oracle


def part_oracle_numeric(rep, mc_oracle, rng):
    """numeric_only: the TLA+ closed form against a Monte-Carlo estimate of the volume fraction (validates the oracle)"""
    gen = np.random.default_rng(seed() + 14)
    n = 40000
    lam = gen.dirichlet(np.ones(4), size=n)
    worst = 0.0
    pick = mc_oracle if len(mc_oracle) < 300 else rng.sample(mc_oracle, 300)
    bad = 0
    for e, ef, exact in pick:
        est = float(np.mean(lam @ np.array(e, dtype=float) <= ef))
        sig = max(np.sqrt(max(exact * (1 - exact), 1e-4) / n), 1e-4)
        worst = max(worst, abs(est - exact) / sig)
        if abs(est - exact) > 6 * sig:
            bad += 1
    rep.part("numeric_only", oracle_vs_montecarlo_cases=len(pick), worst_deviation_in_sigma=round(worst, 2), beyond_6_sigma=bad)
    if bad:
        # the oracle itself would be wrong: machinery problem, not a finding about wannierberri
        raise MachineryError(f"closed form disagrees with Monte-Carlo volume fraction in {bad} cases")


def part_near_coincident(rep, thorough, rng):
    """floating-point part outside TLC (decides): nearly coincident corners (gaps 2^-10 .. 2^-46, not representable in TLC's integers)
    on the accurate branch.  An implementation may move nearly coincident corners a little (the code: up by at most 3e-12) and the
    occupation is monotone in every corner, hence exact(ef - d) - 1e-9 <= weights_tetra(ef) <= exact(ef + d) + 1e-9 with d = 1e-9 must
    hold whatever the gaps and the direction of the nudge (exact = ClosedOcc in Fractions of the binary inputs).  Also: Fermi level
    exactly on a coincident pair / triple of corners, where the occupation is continuous (accurate branch, 1e-5).  The polynomial
    branch (der >= 1) is only measured (numeric_only): for Fermi levels outside the tiny intervals between nearly coincident corners."""
    from wannierberri.grid.tetrahedron import weights_tetra
    n = bad = 0
    worst_poly = {1: 0.0, 2: 0.0, 3: 0.0}
    shift = Fraction(1, 10 ** 9)
    for it in range(3000 if thorough else 300):
        g = 2.0 ** -rng.choice([10, 20, 28, 34, 38, 40, 42, 46])
        base = [rng.randint(0, 4) * 0.125 for _ in range(4)]
        idx = rng.sample(range(4), rng.randint(2, 4))
        e = list(base)
        for i in idx:
            e[i] = base[idx[0]] + rng.randint(0, 3) * g
        srt = sorted(e)
        fe = [Fraction(t) for t in e]
        cands = [srt[0] - 0.0625, srt[3] + 0.0625] + [(a + b) / 2 for a, b in zip(srt, srt[1:]) if b > a] + [srt[1] + g / 4, srt[2] - g / 4, srt[0], srt[3]]
        inputs = dict(corners=e, efs=cands, der=0)
        ok, got = lib_call(rep, "weights_tetra", inputs, lambda: np.array(compiled_call(weights_tetra, np.array(cands), *e, der=0), dtype=float))
        if ok:
            for x, gv in zip(cands, got):
                fx = Fraction(x)
                hi = float(py_closed(fe, fx + shift, 0))
                lo = float(py_closed(fe, fx - shift, 0))
                n += 1
                rep.case(("near", tuple(e), x), nontrivial=srt[0] <= x <= srt[3])
                if not (lo - 1e-9 <= gv <= hi + 1e-9):
                    bad += 1
                    rep.violation("weights_tetra:accurate:nearly_coincident", dict(corners=e, ef=x, exact_at_ef_minus_1e_9=lo, got=float(gv), exact_at_ef_plus_1e_9=hi,
                                                                                  note="expected lo - 1e-9 <= got <= hi + 1e-9"))
        wide = [srt[0] - 0.0625, srt[3] + 0.0625] + [(a + b) / 2 for a, b in zip(srt, srt[1:]) if b - a >= 0.0625]
        for der in (1, 2, 3):
            try:
                gd = weights_tetra(np.array(wide), *e, der=der)
            except Exception:
                continue          # measured only
            for x, gv in zip(wide, gd):
                ex = float(py_closed(fe, Fraction(x), der))
                worst_poly[der] = max(worst_poly[der], abs(gv - ex) / max(1.0, abs(ex)))
    if n == 0 and not rep.violations:
        raise MachineryError("no nearly coincident case")
    # Fermi level exactly on a coincident pair / triple (multiplicity 2 or 3): the occupation is continuous there
    nd = worst_d = 0
    for it in range(600 if thorough else 150):
        v = rng.randint(0, 8)
        mult = rng.choice([2, 3])
        e = [v] * mult + [rng.choice([x for x in range(9) if x != v]) for _ in range(4 - mult)]
        rng.shuffle(e)
        ef = v * U_REC
        ee = [x * U_REC for x in e]
        ok, got = lib_call(rep, "weights_tetra", dict(corners=ee, ef=ef, der=0), lambda: float(compiled_call(weights_tetra, np.array([ef]), *ee, der=0)[0]))
        if not ok:
            continue
        exact = float(py_closed(e, v, 0))
        nd += 1
        worst_d = max(worst_d, abs(got - exact))
        rep.case(("on_degenerate", tuple(e), v))
        if abs(got - exact) > TOL_COINCIDENT:
            rep.violation("weights_tetra:accurate:level_on_coincident_corners",
                          dict(corners=ee, ef=ef, multiplicity=e.count(v), expected=exact, got=got, tol=TOL_COINCIDENT,
                               note="the volume fraction is continuous at a corner value of multiplicity <= 3"))
    if nd == 0 and not rep.violations:
        raise MachineryError("no case with the Fermi level on coincident corners")
    rep.part("float_near_coincident", accurate_branch_bracket_cases=n, outside_bracket=bad, level_on_coincident_corners_cases=nd,
             level_on_coincident_corners_worst_deviation=worst_d)
    rep.part("numeric_only_polynomial_branch", worst_relative_deviation_away_from_tiny_intervals={f"der{k}": float(v) for k, v in worst_poly.items()})


# --------------------------------------------------------------------------------------------------------------------
def paral_jobs(thorough):
    if thorough:
        jobs = {"c14_paral": dict(TWVariant='"code"', CVALS="{0, 2}", CENTERS="{0, 1, 2, 3}", EFS1="{0, 1, 2, 3, 4}", DERS="{0, 1, 2, 3}", CUBELIM=256),
                "c14_paral_b": dict(TWVariant='"code"', CVALS="{0, 4}", CENTERS="{1, 2, 3}", EFS1="{2, 3, 4}", DERS="{0, 1, 2, 3}", CUBELIM=256)}
    else:
        # corners 0 / 4, centre 1 or 3, Fermi levels 1, 2, 3: on the centre, strictly between centre and corners
        jobs = {"c14_paral": dict(TWVariant='"code"', CVALS="{0, 4}", CENTERS="{1, 3}", EFS1="{2, 3, 4}", DERS="{0, 1, 2, 3}", CUBELIM=48)}
    return {k: ("MC_TetraParal.tla", cfg_of(v, INV_PARAL), True) for k, v in jobs.items()}


def one_band_paral(ec, c, unit):
    from wannierberri.grid.tetrahedron import TetraWeightsParal
    return TetraWeightsParal(eCenter=np.array([[ec * unit]]), eCorners=(np.array(c, dtype=float) * unit)[None, :, :, :, None])


def paral_weight_public(ec, c, efs, der, unit):
    """the weight of the single band through weights_all_band_groups (no degeneracy grouping): group weight, completion -> 1, absent -> 0"""
    tw = one_band_paral(ec, c, unit)
    ef = np.array(efs, dtype=float) * unit
    res = tw.weights_all_band_groups(ef, der=der, degen_thresh=-1)
    pb = expand_per_band([(int(a), int(b), w) for (a, b), w in res[0].items()], 1, len(ef))
    if pb is None:
        raise MachineryError(f"weights_all_band_groups of a one-band object returned {res}")
    return pb[0] * unit ** der


def paral_weight_priv(ec, c, efs, der, unit):
    tw = one_band_paral(ec, c, unit)
    if not hasattr(tw, "weight_1k1b_priv"):
        raise PrivateGone("TetraWeightsParal.weight_1k1b_priv")
    return np.array(tw.weight_1k1b_priv(np.array(efs, dtype=float) * unit, 0, 0, der), dtype=float) * unit ** der


def paral_calculator(ec, c, efs, der, unit):
    from wannierberri.calculators.static import CumDOS, DOS
    dk = DuckTetraDataK(one_band_paral(ec, c, unit), 1, 1)
    with quiet():
        res = (CumDOS if der == 0 else DOS)(Efermi=np.array(efs, dtype=float) * unit, tetra=True)(dk)
    return np.array(res.data, dtype=float) * unit ** der


def paral_verdict(got, exact, lo, hi, planar):
    """planar faces: the value is fixed; otherwise anything between the face-wise bounds"""
    if planar:
        return abs(got - float(exact)) <= TOL_COINCIDENT
    return float(lo) - TOL_COINCIDENT <= got <= float(hi) + TOL_COINCIDENT


def part_paral(rep, res, rng, G):
    cls = dict(admissible=0, excluded=0, inside_band=0, calculators=0, planar=0, nonplanar=0, one_sided_skipped=0, equals_code_diagonal=0,
               between_centre_and_corner=0)
    states = []
    for name in sorted(k for k in res if k.startswith("c14_paral")):
        ftable.spec_violation(rep, res[name], name)
        rep.add_tlc(name, res[name])
        states += [s for s in ftable.dump_states(res[name]) if s["pc"] == "done"]
    states.sort(key=lambda s: (repr(s["c"]), s["ec"], s["ef"], s["der"]))
    n_low = 0
    for s in states:
        if not s["admissible"]:
            cls["excluded"] += 1
            continue
        if not s["welldef"]:
            cls["one_sided_skipped"] += 1       # der 3 with the level on a simple corner of one of the tetrahedra: one-sided value not demanded
            continue
        cls["admissible"] += 1
        c, ec, ef, der, planar = s["c"], s["ec"], s["ef"], s["der"], s["planar"]
        exp = frac(s["w"])
        code, lo, hi = paral_bounds(ec, c, ef, der)
        if code != exp:
            raise MachineryError(f"Python copy of the 12-tetrahedra mean differs from the specification at {c} {ec} {ef} der={der}")
        if planar and lo != hi:
            planar = False          # the level sits on a break point of a tetrahedron of the other split: use the bounds
        flat = [x for a in c for b in a for x in b]
        inside = min(flat + [ec]) <= ef <= max(flat + [ec])
        cls["inside_band"] += int(inside)
        cls["planar" if planar else "nonplanar"] += 1
        cls["between_centre_and_corner"] += ef != ec and ef not in flat
        inputs = dict(corners_xyz=c, centre=ec, ef=ef, unit=U_MC, der=der)
        detail = dict(inputs, planar_faces=planar, expected=[exp.numerator, exp.denominator], lower=float(lo), upper=float(hi))
        rep.case(("paral", repr(c), ec, ef, der), nontrivial=bool(inside))
        for name, site, fn in (("paral_public", "TetraWeightsParal.weights_all_band_groups", paral_weight_public),
                               ("paral_priv", "TetraWeightsParal.weight_1k1b_priv", paral_weight_priv)):
            ok, got = G.call(name, site, inputs, fn, ec, c, [ef], der, U_MC)
            if ok:
                g = float(got[0])
                if not paral_verdict(g, exp, lo, hi, planar):
                    rep.violation(f"{site}:der{der}", dict(detail, got=g))
                elif name == "paral_public":
                    cls["equals_code_diagonal"] += abs(g - float(exp)) <= TOL_COINCIDENT
        n_low += der <= 1
        if der <= 1 and n_low % 3 == 0:
            # the same K-point through the real calculators (identity formula): CumDOS / DOS with tetra=True
            site = ("CumDOS" if der == 0 else "DOS") + ":tetra:parallelepiped"
            ok, val = G.call("calculators", site, inputs, paral_calculator, ec, c, [ef], der, U_MC)
            cls["calculators"] += 1
            rep.case(("paral_calc", repr(c), ec, ef, der), nontrivial=bool(inside))
            if ok and not paral_verdict(float(val[0]), exp, lo, hi, planar):
                rep.violation(site, dict(detail, got=float(val[0])))
        if cls["admissible"] == 1:
            rep.sample(dict(fn="TetraWeightsParal (one band)", corners_xyz=c, centre=ec, ef=ef, der=der, exact=list(s["w"])))
    if not (G.available("paral_public") or G.available("paral_priv")):
        raise MachineryError("the weight of a parallelepiped K-point is not observable any more (weights_all_band_groups and weight_1k1b_priv)")
    for k, v in cls.items():
        if v == 0 and k not in ("equals_code_diagonal", "one_sided_skipped", "excluded"):
            raise MachineryError(f"vacuous parallelepiped replay class {k}")
    rep.part("c14_paral_replay", **cls)


# --------------------------------------------------------------------------------------------------------------------
def real_groups(tw, efs_arr, der, th, kr, unit, ik=0):
    res = tw.weights_all_band_groups(efs_arr, der=der, degen_thresh=th * unit, degen_Kramers=kr)
    out = []
    for (ib1, ib2), w in sorted(res[ik].items()):
        out.append((int(ib1), int(ib2), np.array(w, dtype=float) * unit ** max(der, 0)))
    return out


def groups_consts(thorough):
    return {"c14_groups_nb2": dict(TWVariant='"code"', NB=2, VALS="{0, 2, 4}" if thorough else "{0, 2}",
                                   STARTS1="{0, 2, 3, 5}" if thorough else "{0, 1, 2}", STEPS="{2}", NEF=3, THS="{0, 2}"),
            "c14_groups_nb3": dict(TWVariant='"code"', NB=3, VALS="{0, 2}", STARTS1=tlaset(range(0, 5)) if thorough else "{0, 1, 3}",
                                   STEPS="{1, 2}" if thorough else "{1}", NEF=3, THS="{0, 2}")}


def groups_jobs(thorough):
    return {name: ("MC_TetraGroups.tla", cfg_of(consts, INV_GROUPS), True) for name, consts in groups_consts(thorough).items()}


def make_tw(states, unit):
    from wannierberri.grid.tetrahedron import TetraWeights
    ec = np.array([s["ec"] for s in states], dtype=float) * unit                                  # [k, band]
    cor = np.array([np.array(s["cor"], dtype=float).T for s in states]) * unit                   # [k, corner, band]
    return TetraWeights(eCenter=ec, eCorners=cor)


def exact_per_band(s, efs, der, th, kr):
    """[band][level]: mean over the degenerate group of the band of the exact weights (Fractions); der -1: 1 - occupation"""
    nb = len(s["ec"])
    out = [[None] * len(efs) for _ in range(nb)]
    for a, b in py_borders(list(s["ec"]), th, kr):
        for i, x in enumerate(efs):
            ws = [(1 - py_closed(s["cor"][q], x, 0)) if der == -1 else py_closed(s["cor"][q], x, der) for q in range(a, b)]
            m = sum(ws, Fraction(0)) / (b - a)
            for q in range(a, b):
                out[q][i] = m
    return out


def levels_admissible(efs, states, der):
    n = max(der, 0)
    return all(list(cb).count(x) <= 1 and list(cb).count(x) + n <= 3 for s in states for cb in s["cor"] for x in efs)


def part_groups(rep, res, thorough, rng, G):
    cls = dict(sea_extra_group=0, antisea_extra_group=0, multi_band_group=0, band_left_out=0, calculators=0, three_kpoints_two_grids=0,
               other_group_structure=0)
    for name, consts in groups_consts(thorough).items():
        st = res[name]
        ftable.spec_violation(rep, st, name)
        rep.add_tlc(name, st)
        nb = consts["NB"]
        states = sorted((s for s in ftable.dump_states(st) if s["pc"] == "done"), key=lambda s: (s["ec"], s["cor"], s["efs"], s["th"], s["kr"]))
        if not states:
            raise MachineryError(f"no built state in the dump of {name}")
        for ist, s in enumerate(states):
            efs = np.array(s["efs"], dtype=float) * U_MC
            th, kr = s["th"], s["kr"]
            key0 = ("groups", s["ec"], s["cor"], s["efs"], th, kr)
            base = dict(eCenter=s["ec"], eCorners_per_band=s["cor"], efs=s["efs"], unit=U_MC, th=th, kramers=kr)
            ok, tw = lib_call(rep, "TetraWeights", base, make_tw, [s], U_MC)
            if not ok:
                continue
            for der, Gs in ((0, s["G0"]), (-1, s["Gm"]), (1, s["G1"])):
                exp = sorted((g[0], g[1], [Fraction(x[0], x[1]) for x in g[2]]) for g in Gs)
                exp_pb = expand_per_band([(a, b, [float(x) for x in w]) for a, b, w in exp], nb, len(efs))
                inputs = dict(base, der=der)
                ok, got = lib_call(rep, "weights_all_band_groups", inputs, real_groups, tw, efs, der, th, kr, U_MC)
                rep.case(key0 + (der,), nontrivial=len(exp) > 0)
                if ok:
                    got_pb = expand_per_band(got, nb, len(efs))
                    why = None
                    if got_pb is None:
                        why = "overlapping or malformed groups"
                    elif np.any(np.abs(got_pb - exp_pb) > TOL_COINCIDENT):
                        why = "per-band weights differ"
                    else:
                        cut = splits_degenerate_group(got, s["ec"], th, kr)
                        if cut:
                            why = f"the listed group {cut[0]} cuts the degenerate group {cut[1]}"
                    if why:
                        rep.violation(f"weights_all_band_groups:der{der}",
                                      dict(inputs, why=why, expected_per_band=exp_pb.tolist(), got=[(a, b, [float(x) for x in w]) for a, b, w in got],
                                           code_as_it_is_groups=[(a, b, [[x.numerator, x.denominator] for x in w]) for a, b, w in exp]))
                    elif [(a, b) for a, b, _ in exp] != [(a, b) for a, b, _ in got]:
                        cls["other_group_structure"] += 1        # information: same per-band weights, another way of listing the groups
                if any(b - a > 1 for a, b, _ in exp):
                    cls["multi_band_group"] += 1
                if sum(b - a for a, b, _ in exp) < nb:
                    cls["band_left_out"] += 1
            lo, hi = s["efs"][0], s["efs"][-1]
            emax = [max([s["ec"][b]] + list(s["cor"][b])) for b in range(nb)]
            emin = [min([s["ec"][b]] + list(s["cor"][b])) for b in range(nb)]
            if any(x < lo for x in emax):
                cls["sea_extra_group"] += 1
            if any(x > hi for x in emin):
                cls["antisea_extra_group"] += 1
            # the real calculators (identity formula): CumDOS / DOS with tetra=True on a duck data_K holding this TetraWeights
            if ist % (3 if thorough else 2) == 0:
                cls["calculators"] += 1

                def calcs():
                    from wannierberri.calculators.static import CumDOS, DOS
                    dk = DuckTetraDataK(make_tw([s], U_MC), 1, nb)
                    with quiet():
                        cum = CumDOS(Efermi=efs, tetra=True, degen_thresh=th * U_MC, degen_Kramers=kr)(dk).data
                        dos = DOS(Efermi=efs, tetra=True, degen_thresh=th * U_MC, degen_Kramers=kr)(dk).data * U_MC
                    return np.array(cum, dtype=float), np.array(dos, dtype=float)
                ok, cd = G.call("calculators", "CumDOS/DOS:tetra", base, calcs)
                if ok:
                    cum, dos = cd
                    for i in range(len(efs)):
                        e0 = sum((g[1] - g[0]) * Fraction(g[2][i][0], g[2][i][1]) for g in s["G0"])
                        e1 = sum((g[1] - g[0]) * Fraction(g[2][i][0], g[2][i][1]) for g in s["G1"])
                        rep.case(key0 + ("calc", i))
                        if abs(float(cum[i]) - float(e0)) > TOL_COINCIDENT * nb:
                            rep.violation("CumDOS:tetra", dict(base, level=i, expected=[e0.numerator, e0.denominator], got=float(cum[i])))
                        if abs(float(dos[i]) - float(e1)) > TOL_COINCIDENT * nb:
                            rep.violation("DOS:tetra", dict(base, level=i, expected_times_unit=[e1.numerator, e1.denominator], got_times_unit=float(dos[i])))
                        allc = emin + emax
                        if s["efs"][i] < min(allc) and abs(float(cum[i])) > 1e-12:
                            rep.violation("CumDOS:tetra:below_all_bands", dict(base, got=float(cum[i])))
                        if s["efs"][i] > max(allc) and abs(float(cum[i]) - nb) > 1e-12:
                            rep.violation("CumDOS:tetra:above_all_bands", dict(base, got=float(cum[i]), num_wann=nb))
            # weight cache: one object with three k-points, two Fermi arrays, derivative orders 0, 1, 1, 0, 0
            if ist % (8 if thorough else 5) == 0:
                trio = [s, states[(ist + 37) % len(states)], states[(ist + 101) % len(states)]]
                efA = list(s["efs"])
                efB = [x + 2 for x in efA]
                if len({(t["ec"], t["cor"]) for t in trio}) >= 2 and levels_admissible(efA + efB, trio, 1):
                    ok, tw3 = lib_call(rep, "TetraWeights", dict(states=[t["ec"] for t in trio]), make_tw, trio, U_MC)
                    arrA, arrB = np.array(efA, dtype=float) * U_MC, np.array(efB, dtype=float) * U_MC
                    for step, (efl, arr, der) in enumerate(((efA, arrA, 0), (efB, arrB, 1), (efA, arrA, 1), (efB, arrB, 0), (efA, arrA, 0))):
                        if not ok:
                            break
                        for ik, t in enumerate(trio):
                            inputs = dict(k_points=[dict(eCenter=q["ec"], eCorners_per_band=q["cor"]) for q in trio], ik=ik, efs=efl, der=der, th=th,
                                          kramers=kr, unit=U_MC, query_number=step, queries="(A,0) (B,1) (A,1) (B,0) (A,0) on one object")
                            ok2, got = lib_call(rep, "weights_all_band_groups", inputs, real_groups, tw3, arr, der, th, kr, U_MC, ik)
                            if not ok2:
                                continue
                            want = np.array([[float(x) for x in row] for row in exact_per_band(t, efl, der, th, kr)])
                            got_pb = expand_per_band(got, nb, len(efl))
                            rep.case(key0 + ("cache", step, ik))
                            if got_pb is None or np.any(np.abs(got_pb - want) > TOL_COINCIDENT):
                                rep.violation(f"weights_all_band_groups:several_kpoints_and_grids:der{der}",
                                              dict(inputs, expected_per_band=want.tolist(), got=[(a, b, [float(x) for x in w]) for a, b, w in got]))
                    cls["three_kpoints_two_grids"] += 1
            if ist == 0:
                rep.sample(dict(fn="weights_all_band_groups", eCenter=s["ec"], eCorners_per_band=s["cor"], efs=s["efs"], th=th, kramers=kr,
                                sea_groups=[[g[0], g[1], [list(x) for x in g[2]]] for g in s["G0"]]))
    for k, v in cls.items():
        if v == 0 and k != "other_group_structure":
            raise MachineryError(f"vacuous group-completion class {k}")
    rep.part("c14_groups_replay", **cls)


# --------------------------------------------------------------------------------------------------------------------
def to8(x):
    return int(round(float(x) * 1e8))


def admissible_levels(cands, tetras, der):
    n = max(der, 0)
    out = []
    for x in cands:
        if all(t.count(x) <= 1 and t.count(x) + n <= 3 for t in tetras):
            out.append(x)
    return out


def part_records(rep, thorough, rng, G):
    recs = []
    nrec = 2500 if thorough else 200
    stats = dict(tetra=0, paral=0, groups=0, coincident=0, large_magnitude=0, groups_der23=0)
    tries = 0
    while len(recs) < nrec:
        tries += 1
        if tries > 60 * nrec:
            break
        r = rng.random()
        if r < 0.55:
            der = rng.randint(0, 3)
            acc = rng.random() < 0.6
            accurate_branch = acc and der == 0
            base = rng.choice([0, 8, 40, 100, 400, 800] if accurate_branch else [0, 8, 24, 36]) * rng.choice([-1, 1])
            span = rng.randint(1, 14)
            e = [base + rng.randint(0, span) for _ in range(4)]
            if rng.random() < 0.3:
                e[rng.randrange(4)] = e[rng.randrange(4)]
            efs = admissible_levels(sorted(set(rng.randint(min(e) - 2, max(e) + 2) for _ in range(7))), [e], der)
            if not efs:
                continue
            distinct = len(set(e)) == 4
            tol8 = (1 if accurate_branch else 10) if distinct else 1000
            ok, got = lib_call(rep, "weights_tetra", dict(corners=e, efs=efs, der=der, accurate=acc, unit=U_REC), real_weights_tetra, efs, e, der, acc, U_REC)
            if not ok or got.shape != (len(efs),):
                continue
            recs.append(dict(fn="tetra", e=e, efs=efs, der=der, acc=acc, tol8=tol8, got8=[to8(g) for g in got]))
            stats["coincident"] += not distinct
            stats["large_magnitude"] += abs(base) >= 100
        elif r < 0.75:
            if not (G.available("paral_public") or G.available("paral_priv")):
                continue
            der = rng.randint(0, 3)
            base = rng.choice([0, 8, 24]) * rng.choice([-1, 1])
            span = rng.randint(1, 6)
            c = [[[base + rng.randint(0, span) for _ in range(2)] for _ in range(2)] for _ in range(2)]
            flat = [c[x][y][z] for x in range(2) for y in range(2) for z in range(2)]
            ec = rng.choice([sum(flat) // 8, base + rng.randint(0, span)])
            tetras = [[int(v) for v in t] for pair in face_pairs(ec, c) for split in pair for t in split]
            efs = admissible_levels(sorted(set(rng.randint(min(flat + [ec]) - 1, max(flat + [ec]) + 1) for _ in range(5))), tetras, der)
            if not efs:
                continue
            inputs = dict(corners_xyz=c, centre=ec, efs=efs, der=der, unit=U_REC)
            name = "paral_public" if G.available("paral_public") else "paral_priv"
            ok, got = G.call(name, "TetraWeightsParal", inputs, paral_weight_public if name == "paral_public" else paral_weight_priv, ec, c, efs, der, U_REC)
            if not ok:
                continue
            recs.append(dict(fn="paral", c=c, ec=ec, efs=efs, der=der, tol8=1000, got8=[to8(g) for g in got]))
        else:
            nb = rng.randint(1, 4)
            der = rng.choice([0, 0, -1, 1, 2, 3])
            base = rng.choice([0, 8, 16]) * rng.choice([-1, 1])
            cols = [sorted(base + rng.randint(0, 8) for _ in range(nb)) for _ in range(5)]     # ordered at centre and every corner
            ec = [cols[0][b] for b in range(nb)]
            cor = [[cols[1 + i][b] for i in range(4)] for b in range(nb)]
            th = rng.choice([0, 1, 2])
            kr = (nb % 2 == 0) and rng.random() < 0.3
            a0 = rng.randint(base - 2, base + 9)
            d = rng.randint(1, 3)
            efs = [a0 + i * d for i in range(rng.randint(2, 5))]
            if admissible_levels(efs, cor, der) != efs:
                continue
            inputs = dict(eCenter=ec, eCorners_per_band=cor, efs=efs, der=der, th=th, kramers=kr, unit=U_REC)
            ok, got = lib_call(rep, "weights_all_band_groups", inputs,
                               lambda: real_groups(make_tw([dict(ec=ec, cor=cor)], U_REC), np.array(efs, dtype=float) * U_REC, der, th, kr, U_REC))
            if not ok:
                continue
            if expand_per_band(got, nb, len(efs)) is None:
                rep.violation(f"weights_all_band_groups:recorded:der{der}", dict(inputs, why="overlapping or malformed groups",
                                                                                got=[(a, b, [float(x) for x in w]) for a, b, w in got]))
                continue
            recs.append(dict(fn="groups", ec=ec, cor=cor, efs=efs, der=der, th=th, kr=kr, tol8=1000,
                             out=[[a, b, [to8(x) for x in w]] for a, b, w in got]))
            stats["groups_der23"] += der >= 2
        stats[recs[-1]["fn"]] += 1
        rep.case(("rec", len(recs), recs[-1]["fn"], str(recs[-1].get("e", recs[-1].get("ec"))), tuple(recs[-1]["efs"]), recs[-1]["der"]))
    if not recs:
        return
    if not rep.violations:
        for k, v in stats.items():
            if v == 0:
                raise MachineryError(f"vacuous record class {k}")
    stv, bad = validate_parallel("TetraWeightsRec.tla", REC_CFG, recs, "c14", 2)
    rep.add_tlc("c14_records", stv)
    rep.add_traces(len(recs))
    rep.part("c14_records", **stats)
    for i, clauses in sorted(bad.items()):
        r = recs[i]
        if "admissible" in clauses:
            raise MachineryError(f"the harness recorded an inadmissible input: {r}")
        fnname = {"tetra": "weights_tetra", "paral": "TetraWeightsParal", "groups": "weights_all_band_groups"}[r["fn"]]
        rep.violation(f"{fnname}:recorded:der{r['der']}", dict(record=r, failing_clauses=clauses, unit=U_REC,
                                                              note="got8 = round(value * unit^der * 1e8), tol8 in 1e-8"))
    rep.sample(recs[0])
    # binding self-test: corrupted records must be rejected (one TLC run for both)
    corrupted = []
    for fn, corrupt in (("tetra", lambda q: q["got8"].__setitem__(0, q["got8"][0] + 5000)),
                        ("groups", lambda q: q["out"][0][2].__setitem__(0, q["out"][0][2][0] + 5000))):
        cand = [r for r in recs if r["fn"] == fn and (fn != "groups" or len(r["out"]) > 0)][:1]
        if not cand:
            raise MachineryError(f"no record for the self-test of {fn}")
        b = copy.deepcopy(cand[0])
        corrupt(b)
        corrupted.append(b)
    _, b2 = validate_records("TetraWeightsRec.tla", REC_CFG, corrupted, "c14_selftest")
    for i, fn in enumerate(("tetra", "groups")):
        if i not in b2:
            raise MachineryError(f"binding self-test failed: corrupted {fn} record accepted")
        rep.part("binding_selftest_" + fn, corrupted_record_rejected=b2[i])


# --------------------------------------------------------------------------------------------------------------------
REAL_TOL = 1e-7


def tiny_model():
    import pythtb
    lattice = pythtb.Lattice(lat_vecs=np.eye(3), orb_vecs=[[0, 0, 0], [0.5, 0.5, 0.5]], periodic_dirs=[0, 1, 2])
    m = pythtb.TBModel(lattice)
    m.set_onsite([-0.3, 0.4])
    m.set_hop(-1.0, 0, 1, [0, 0, 0])
    m.set_hop(-0.6, 0, 1, [1, 0, 0])
    m.set_hop(-0.35, 0, 1, [0, 1, 0])
    m.set_hop(0.25, 0, 1, [0, 0, 1])
    m.set_hop(0.15, 0, 0, [1, 0, 0])
    m.set_hop(0.1 + 0.05j, 1, 1, [0, 1, 1])
    return m


def part_real_run(rep):
    """the weights object of real K-points (Data_K.tetraWeights: E_K, corner energies of the parallelepiped around each k-point, class
    TetraWeightsParal) through wb.run(CumDOS / DOS, tetra=True) on a two-band pythtb model without symmetry, 4x4x2 k-points.  Expected:
    mean over k-points and bands of the 12-tetrahedra weight of the box k +- dk/2, with the eigenvalues taken from pythtb directly (not from
    wannierberri) and the closed form in exact Fractions; any choice of face diagonals is accepted (lower / upper bounds).  Floating point,
    tolerance 1e-7.  Sensitivity: the same computation with boxes k +- dk must leave the accepted band at some level."""
    import shutil
    wd = os.path.join(WORK, uniq("c14_real"))
    NK = [4, 4, 2]
    ef = np.array([-3.0, -1.75, -1.25, -0.5, 0.0, 0.75, 1.5, 2.25, 3.5])
    try:
        try:
            import wannierberri as wb
            from wannierberri.calculators.static import CumDOS, DOS
            m = tiny_model()
            m.solve_ham
        except (ImportError, AttributeError, TypeError) as ex:
            rep.part("real_run", skipped=f"{type(ex).__name__}: {str(ex)[:200]}")
            return
        os.makedirs(wd, exist_ok=True)

        def run():
            with quiet():
                system = wb.system.System_R.from_pythtb(m)
                grid = wb.Grid(system, NK=NK, NKFFT=[2, 2, 2])
                res = wb.run(system, grid=grid, calculators={"cum": CumDOS(Efermi=ef, tetra=True), "dos": DOS(Efermi=ef, tetra=True)},
                             adpt_num_iter=0, use_irred_kpt=False, symmetrize=False, fout_name=os.path.join(wd, "x"), dump_results=False, parallel=False)
            return np.array(res.results["cum"].data, dtype=float), np.array(res.results["dos"].data, dtype=float)
        inputs = dict(model="pythtb cubic lattice, orbitals (0,0,0) (1/2,1/2,1/2), onsite -0.3/0.4, hops see c14.tiny_model", NK=NK, Efermi=ef.tolist())
        ok, got = lib_call(rep, "run:CumDOS/DOS:tetra", inputs, run)
        if not ok:
            return

        def bounds(scale):
            ks = [np.array([i / NK[0], j / NK[1], l / NK[2]]) for i in range(NK[0]) for j in range(NK[1]) for l in range(NK[2])]
            dK = np.array([1.0 / n for n in NK]) * scale
            pts = []
            for k in ks:
                pts.append(k)
                for sgn in itertools.product((0, 1), repeat=3):
                    pts.append(k + (np.array(sgn) - 0.5) * dK)
            E = np.array(m.solve_ham(np.array(pts)), dtype=float).reshape(len(ks), 9, -1)
            E = np.sort(E, axis=-1)
            lo = np.zeros((2, len(ef)))
            hi = np.zeros((2, len(ef)))
            for ik in range(len(ks)):
                for b in range(E.shape[2]):
                    c = E[ik, 1:, b].reshape(2, 2, 2)
                    for der in (0, 1):
                        for ie, x in enumerate(ef):
                            _, l, h = paral_bounds(E[ik, 0, b], c, x, der)
                            lo[der, ie] += float(l)
                            hi[der, ie] += float(h)
            return lo / len(ks), hi / len(ks), E
        lo, hi, E = bounds(1.0)
        worst = 0.0
        for der, name in ((0, "CumDOS"), (1, "DOS")):
            g = got[der]
            if g.shape != ef.shape:
                rep.violation(f"real_run:{name}:tetra:shape", dict(inputs, got_shape=list(g.shape)))
                continue
            for ie in range(len(ef)):
                rep.case(("real_run", name, ie), nontrivial=hi[der, ie] > 0)
                out = max(lo[der, ie] - g[ie], g[ie] - hi[der, ie], 0.0)
                worst = max(worst, out)
                if out > REAL_TOL:
                    rep.violation(f"real_run:{name}:tetra", dict(inputs, level=float(ef[ie]), got=float(g[ie]), lower=float(lo[der, ie]), upper=float(hi[der, ie]),
                                                                 note="mean over 32 k-points and 2 bands of the 12-tetrahedra weight of the box k +- dk/2 (pythtb eigenvalues), "
                                                                      "bounds over the choice of face diagonals"))
        nb = E.shape[2]
        if ef[0] < E.min() and abs(got[0][0]) > 1e-12:
            rep.violation("real_run:CumDOS:tetra:below_all_bands", dict(inputs, got=float(got[0][0])))
        if ef[-1] > E.max() and abs(got[0][-1] - nb) > 1e-9:
            rep.violation("real_run:CumDOS:tetra:above_all_bands", dict(inputs, got=float(got[0][-1]), num_wann=nb))
        # sensitivity of this sub-check: boxes of twice the size must be told apart
        lo2, hi2, _ = bounds(2.0)
        mid2 = (lo2 + hi2) / 2
        if not np.any((mid2 < lo - 1e-4) | (mid2 > hi + 1e-4)):
            raise MachineryError("sensitivity self-test of the real run failed: boxes k +- dk are not told apart from k +- dk/2")
        if not (np.any((hi[0] > 0.01) & (lo[0] < nb - 0.01)) and np.any(hi[1] > 0.01)):
            raise MachineryError("the real run has no Fermi level inside a band")
        rep.part("real_run", k_points=int(np.prod(NK)), bands=int(nb), levels=len(ef), worst_excess_over_bounds=worst, tolerance=REAL_TOL,
                 widest_bound_interval=float(np.max(hi - lo)), wrong_box_size_detected=True)
    finally:
        shutil.rmtree(wd, ignore_errors=True)


def check(pid, tier):
    rep = Report(pid, tier, "model_checking")
    thorough = tier == "thorough"
    rng = random.Random(seed() * 7919 + 14)
    rep.rule("TLC enumerates every sorted corner multiset x Fermi level x der x branch (MC_TetraWeights), every kept parallelepiped corner assignment "
             "(MC_TetraParal) and every band table / Fermi grid / threshold (MC_TetraGroups) inside the constants; a case = one TLC state replayed on "
             "the real function (float vs exact rational), plus seeded random recorded calls validated by TLC, plus floating-point cases outside "
             "TLC (nearly coincident corners, one real run); distinct by input tuple")
    rep.assume("energies are integer multiples of 1/16 or 1/8, so all comparisons inside the code are exact and only rounding of the arithmetic remains")
    rep.assume("a Fermi level never equals a coincident corner energy in the TLC-bound parts (NotOnDegenerateCorner); bands are ordered at every corner")
    jobs = {}
    jobs.update(tetra_jobs(thorough))
    jobs.update(paral_jobs(thorough))
    jobs.update(groups_jobs(thorough))
    t = [os.times()]

    def lap(name):
        t.append(os.times())
        a, b = t[-2], t[-1]
        rep.part("cpu_s_by_part", **{name: round((b.user + b.system + b.children_user + b.children_system) - (a.user + a.system + a.children_user + a.children_system), 1)})
        rep.part("wall_s_by_part", **{name: round(b.elapsed - a.elapsed, 1)})

    def body():
        G = Guard(rep)
        res = tlc_jobs(jobs, WORKERS)
        lap("tlc_models_concurrent")
        oracle = part_tetra(rep, res, rng)
        lap("replay_tetra")
        part_oracle_numeric(rep, oracle, rng)
        part_near_coincident(rep, thorough, rng)
        lap("float_parts")
        part_paral(rep, res, rng, G)
        lap("replay_paral")
        part_groups(rep, res, thorough, rng, G)
        lap("replay_groups")
        part_records(rep, thorough, rng, G)
        lap("records")
        part_real_run(rep)
        lap("real_run")
    return run_parts(rep, body)
