"""C21: orbital rotation matrices form an orthogonal representation; D_wann is unitary and maps centres onto images.

spec  : OrbRep.tla (exact numbers of Q(sqrt 3); s, p, d representation matrices in the real bases of orbitals.py;
        sub-shell hybrids as sub-blocks; the domain predicate Preserves(shell, R)), MC_OrbRep.tla (work-list closure of
        a point group from generators, multiplication table, all group axioms and C21 clauses as invariants),
        MC_OrbRepQuat.tla (rational, non-crystallographic rotations from integer quaternions, one state each),
        SymOrbits.tla / MC_SymOrbits.tla (space groups of small structures, site maps, integer shifts T),
        OrbRepRec.tla (record validation)
bind  : spec -> code : every element of every generated group is passed to the real OrbitalRotator; s, p, d and the
        sub-shell hybrids are compared with the specification's exact matrices (1e-10); for every shell accepted in
        projections identity, orthogonality and D(g)D(h) = D(gh) over the specification's full multiplication table on
        the stabiliser of the shell's span; local bases through the table; Dwann of every specification structure:
        atommap and T exactly, D_wann(k) unitary with the block/phase structure given by the specification.
        code -> spec : matrices returned by the code (rationalised) and residual buckets of products across groups are
        validated by TLC against OrbRepRec.
"""
import copy
import random
import numpy as np

from .. import tlc, ftable
from ..common import Report, MachineryError, seed, quiet
from . import _symcommon as sc

PROPS = {
    "C21": dict(level="exploration",
                technique="TLC exhaustive on OrbRep/MC_OrbRep (finite point groups generated from generators, exact s/p/d "
                          "representation matrices in Q(sqrt3), multiplication table, homomorphism/orthogonality/parity invariants) "
                          "and MC_SymOrbits (space groups of small structures); replay of every group element, every table entry and "
                          "every structure on the real OrbitalRotator / Dwann; TLC validation of recorded matrices and residual buckets",
                text="The specification decides exactly: the groups O_h, D_6h (and subgroups) with their multiplication tables, the "
                     "s, p and d matrices of every element (and of products across the two groups), the sub-shell hybrids pz, p2, pxy, "
                     "t2g, eg as sub-blocks, for which rotations a hybrid's span is preserved, the site maps and lattice shifts T of "
                     "Dwann, and the s/p/d matrices of rational (integer-quaternion) rotations that are not crystallographic. Floating point only: f shell, sp/sp2/sp3/sp3d2 hybrids, random O(3) rotations, unitarity of D_wann "
                     "(tolerance 1e-9, observed 1e-15).",
                note="exact in TLA+: group axioms, tables, s/p/d matrices, hybrids that are sub-blocks, domain predicate, atommap/T. "
                     "numeric (implementation vs its own composition, inputs and index triples chosen by the spec): f shell and "
                     "sqrt(2)-hybrids, random rotations (reported as numeric_only). A hybrid whose span is not invariant under the "
                     "rotation is outside the statement (rot_orb returns the compression, which cannot be orthogonal): excluded by "
                     "the named predicate Preserves, whose sharpness is itself checked.",
                ref="DESIGN.md 3.3, 3.7"),
}

TOL = 1e-9
TOL_EXACT = 1e-10
EXACT_SHELLS = ("s", "p", "d", "pz", "p2", "pxy", "t2g", "eg")


def all_shells():
    from wannierberri.symmetry.orbitals import basis_shells_list, hybrid_shells_list
    return list(basis_shells_list) + list(hybrid_shells_list)


def dev_orth(D):
    return float(np.abs(D @ D.T - np.eye(len(D))).max())


def replay_group(rep, g, shells, thorough, rng):
    """spec -> code for one generated group"""
    from wannierberri.symmetry.orbitals import OrbitalRotator, num_orbitals
    rot = OrbitalRotator()
    n = g["n"]
    D = {sh: [np.array(rot(sh, rot_cart=g["elems"][i])) for i in range(n)] for sh in shells}
    maxdev = dict(exact=0.0, orth=0.0, hom=0.0)
    counts = dict(exact=0, orth=0, hom=0, notpres=0, basis=0)
    for sh in shells:
        pres = g["pres"][sh]
        dim = num_orbitals(sh)
        for i in range(n):
            M = D[sh][i]
            key = (g["name"], sh, i)
            if M.shape != (dim, dim):
                rep.violation(f"OrbitalRotator:shape:{sh}", dict(group=g["name"], shell=sh, element=g["elems"][i].tolist(), got_shape=M.shape))
                continue
            exp = sc.expected_exact(g, sh, i)
            if exp is not None:
                rep.case(("exact",) + key)
                counts["exact"] += 1
                dv = float(np.abs(M - exp).max())
                maxdev["exact"] = max(maxdev["exact"], dv)
                if dv > TOL_EXACT:
                    rep.violation(f"OrbitalRotator:exact:{sh}", dict(group=g["name"], shell=sh, rot_cart=g["elems"][i].tolist(),
                                                                     expected=exp.tolist(), got=M.tolist(), deviation=dv))
            if i == 0:
                rep.case(("identity",) + key)
                if np.abs(M - np.eye(dim)).max() > TOL_EXACT:
                    rep.violation(f"OrbitalRotator:identity:{sh}", dict(shell=sh, got=M.tolist()))
            if i in pres:
                rep.case(("orth",) + key)
                counts["orth"] += 1
                dv = dev_orth(M)
                maxdev["orth"] = max(maxdev["orth"], dv)
                if dv > TOL:
                    rep.violation(f"OrbitalRotator:orthogonal:{sh}", dict(group=g["name"], shell=sh, rot_cart=g["elems"][i].tolist(),
                                                                          got=M.tolist(), deviation=dv))
            else:
                counts["notpres"] += 1
                if dev_orth(M) < 1e-4:
                    raise MachineryError(f"specification predicate Preserves({sh}) excludes element {i} of {g['name']} although the "
                                         f"code's matrix is orthogonal: the predicate is not sharp")
        # homomorphism over the specification's table, on the stabiliser of the span
        for i in pres:
            for j in pres:
                k = g["table"][i][j]
                rep.case(("hom", g["name"], sh, i, j))
                counts["hom"] += 1
                dv = float(np.abs(D[sh][i] @ D[sh][j] - D[sh][k]).max())
                maxdev["hom"] = max(maxdev["hom"], dv)
                if dv > TOL:
                    rep.violation(f"OrbitalRotator:homomorphism:{sh}", dict(group=g["name"], shell=sh, g=g["elems"][i].tolist(),
                                                                            h=g["elems"][j].tolist(), gh=g["elems"][k].tolist(),
                                                                            index_triple=[i, j, k], deviation=dv))
    # combined shells are block diagonal
    comb = "s;p;d"
    for i in rng.sample(range(n), min(n, 6)):
        M = np.array(rot(comb, rot_cart=g["elems"][i]))
        from scipy.linalg import block_diag
        exp = block_diag(np.eye(1), g["dp"][i], g["dd"][i])
        rep.case(("comb", g["name"], i))
        if M.shape != exp.shape or np.abs(M - exp).max() > TOL_EXACT:
            rep.violation("OrbitalRotator:combined", dict(orb=comb, rot_cart=g["elems"][i].tolist(), expected=exp.tolist(), got=M.tolist()))
    # local bases: rotator(sh, R, basis1, basis2) = D(basis2 R basis1^T), index through the specification's table
    nb = 400 if thorough else 60
    for _ in range(nb):
        sh = rng.choice(shells)
        pres = sorted(g["pres"][sh])
        b1, r, b2 = rng.randrange(n), rng.randrange(n), rng.randrange(n)
        k = g["table"][b2][g["table"][r][g["inv"][b1]]]
        if k not in g["pres"][sh]:
            continue
        M = np.array(rot(sh, rot_cart=g["elems"][r], basis1=g["elems"][b1], basis2=g["elems"][b2]))
        rep.case(("basis", g["name"], sh, b1, r, b2))
        counts["basis"] += 1
        dv = float(np.abs(M - D[sh][k]).max())
        if dv > TOL or dev_orth(M) > TOL:
            rep.violation(f"OrbitalRotator:local_basis:{sh}", dict(group=g["name"], shell=sh, rot_cart=g["elems"][r].tolist(),
                                                                   basis1=g["elems"][b1].tolist(), basis2=g["elems"][b2].tolist(),
                                                                   expected_element=k, deviation=dv))
    if counts["notpres"] == 0 and g["name"] in ("Oh", "D6h"):
        raise MachineryError(f"no element of {g['name']} outside a stabiliser: the domain predicate was never exercised")
    if counts["basis"] == 0:
        raise MachineryError("no local-basis case")
    rep.part(f"replay_{g['name']}", counts=counts, max_deviation=maxdev)
    return D


def records(rep, groups, Dcache, shells, nmat, nhom, rng):
    """code -> spec records: matrices (rationalised) and products across groups"""
    from wannierberri.symmetry.orbitals import OrbitalRotator
    rot = OrbitalRotator()
    recs = []
    pool = [(g, i) for g in groups for i in range(g["n"])]

    def fmat(R):
        out = dict(fn="mat", R=sc.rat_mat(R), s=sc.rat_mat(rot("s", rot_cart=R)), p=sc.rat_mat(rot("p", rot_cart=R)),
                   d=sc.rat_mat(rot("d", rot_cart=R)), sub=[[sh, sc.rat_mat(rot(sh, rot_cart=R))] for sh in ("pz", "p2", "pxy", "t2g", "eg")])
        return out
    for _ in range(nmat):
        (g1, i), (g2, j) = rng.choice(pool), rng.choice(pool)
        R = g1["elems"][i] @ g2["elems"][j] if rng.random() < 0.6 else g1["elems"][i]
        recs.append(fmat(R))
        rep.case(("rec_mat", g1["name"], i, g2["name"], j))
    for _ in range(nhom):
        (g1, i), (g2, j) = rng.choice(pool), rng.choice(pool)
        A, B = g1["elems"][i], g2["elems"][j]
        AB = A @ B
        ABx = sc.rat_mat(AB)
        ABf = np.array([[sc.num(x) if x[2] else float("nan") for x in row] for row in ABx])
        ents = []
        for sh in shells:
            DA, DB, DAB = (np.array(rot(sh, rot_cart=M)) for M in (A, B, ABf))
            ents.append(dict(sh=sh, orth_g=sc.bucket(dev_orth(DA)), orth_h=sc.bucket(dev_orth(DB)),
                             hom=sc.bucket(float(np.abs(DA @ DB - DAB).max()))))
        recs.append(dict(fn="hom", g=sc.rat_mat(A), h=sc.rat_mat(B), gh=ABx, shells=ents))
        rep.case(("rec_hom", g1["name"], i, g2["name"], j))
    return recs


def dwann_replay(rep, structs, oh, shells, thorough, rng):
    """spec -> code: Dwann of every specification structure"""
    from wannierberri.symmetry.Dwann import Dwann
    from wannierberri.symmetry.orbitals import OrbitalRotator, num_orbitals
    ohindex = {tuple(tuple(int(round(x)) for x in r) for r in e): i for i, e in enumerate(oh["elems"])}
    counts = dict(structures=0, maps=0, dwann=0, spinor=0, skipped_shell=0)
    maxdev = 0.0
    rot = OrbitalRotator()          # shared: its cache is keyed by the rotation matrix
    for st in structs:
        spinor = thorough and rng.random() < 0.3
        with quiet():
            sg, op_of, lattice, positions = sc.real_spacegroup(st, spinor=spinor)
        counts["structures"] += 1
        for ty in sorted(set(st["types"])):
            glob = [k for k in range(st["nsites"]) if st["types"][k] == ty]
            loc = {k: n for n, k in enumerate(glob)}
            # shells whose span every operation of the group preserves (basis not rotated)
            ok = [sh for sh in shells if all(ohindex[W] in oh["pres"][sh] for W, _, _ in st["ops"])]
            counts["skipped_shell"] += len(shells) - len(ok)
            for sh in (ok if thorough else rng.sample(ok, min(3, len(ok)))):
                with quiet():
                    dw = Dwann(spacegroup=sg, positions=positions[glob], orbital=sh, orbitalrotator=rot,
                               basis_list=[np.eye(3)] * len(glob), spinor=spinor)
                key = (st["key"], ty, sh, spinor)
                if len(dw.orbit) != len(glob):
                    rep.violation("Dwann:orbit", dict(structure=st["key"], got=len(dw.orbit), expected=len(glob)))
                    continue
                norb = num_orbitals(sh) * (2 if spinor else 1)
                kpt = np.array([rng.randint(1, 7) / 16, rng.randint(1, 7) / 24, rng.randint(1, 7) / 20])
                for isym, n in enumerate(op_of):
                    exp_map = [loc[st["amap"][n][k]] for k in glob]
                    exp_T = [list(st["tvec"][n][k]) for k in glob]
                    rep.case(("dwann_map",) + key + (isym,))
                    counts["maps"] += 1
                    if list(dw.atommap[:, isym]) != exp_map or dw.T[:, isym, :].tolist() != exp_T:
                        rep.violation("Dwann:atommap_T", dict(structure=st["key"], op=st["ops"][n], expected_map=exp_map, expected_T=exp_T,
                                                              got_map=dw.atommap[:, isym].tolist(), got_T=dw.T[:, isym, :].tolist()))
                        continue
                    symop = sg.symmetries[isym]
                    # centres map onto their symmetry images
                    for a in range(len(glob)):
                        img = symop.transform_r(positions[glob[a]]) + dw.T[a, isym]
                        if np.abs(img - positions[glob[dw.atommap[a, isym]]]).max() > 1e-10:
                            rep.violation("Dwann:centre_image", dict(structure=st["key"], op=st["ops"][n], site=a, image=img.tolist()))
                    k2 = symop.transform_k(kpt)
                    Dk = dw.get_on_points(kpt, k2, isym)
                    rep.case(("dwann_unitary",) + key + (isym,))
                    counts["dwann"] += 1
                    counts["spinor"] += int(spinor)
                    dv = float(np.abs(Dk @ Dk.conj().T - np.eye(len(Dk))).max())
                    maxdev = max(maxdev, dv)
                    if dv > TOL:
                        rep.violation(f"Dwann:unitary:{sh}", dict(structure=st["key"], op=st["ops"][n], shell=sh, spinor=spinor, deviation=dv))
                    # block structure and phases from the specification's map and shifts
                    W = st["ops"][n][0]
                    exp = np.zeros_like(Dk)
                    for a in range(len(glob)):
                        b = exp_map[a]
                        blk = Dk[b * norb:(b + 1) * norb, a * norb:(a + 1) * norb]
                        ph = np.exp(2j * np.pi * np.dot(k2, exp_T[a]))
                        exp[b * norb:(b + 1) * norb, a * norb:(a + 1) * norb] = blk
                        if not spinor:
                            e = sc.expected_exact(oh, sh, ohindex[W])
                            if e is not None and np.abs(blk - ph * e).max() > 1e-10:
                                rep.violation(f"Dwann:block:{sh}", dict(structure=st["key"], op=st["ops"][n], site=a, k=kpt.tolist(),
                                                                        expected=(ph * e).tolist(), got=blk.tolist()))
                    if np.abs(Dk - exp).max() > 1e-12:
                        rep.violation("Dwann:support", dict(structure=st["key"], op=st["ops"][n], shell=sh,
                                                            what="non-zero entries outside the blocks (atommap[a], a)"))
    if counts["dwann"] == 0 or counts["maps"] == 0:
        raise MachineryError("no Dwann case")
    rep.part("dwann_replay", counts=counts, max_unitarity_deviation=maxdev)


QUAT_INV = ["InO3", "RepOrthogonal", "RepParity", "RepHom", "RepInverse", "Compression"]
PARTNERS = [np.array([[0, -1, 0], [1, 0, 0], [0, 0, 1.0]]), np.array([[0, 0, 1], [1, 0, 0], [0, 1, 0.0]]), -np.eye(3), np.diag([1.0, -1.0, -1.0])]


def rational_rotations(rep, shells, norms, npart, nreplay, nf, rng, workers):
    """exact non-crystallographic rotations (integer quaternions): TLC model + replay on the real OrbitalRotator"""
    from wannierberri.symmetry.orbitals import OrbitalRotator
    cfg = ("SPECIFICATION Spec\nCONSTANTS\n  QMAX = 2\n  NORMS = {%s}\n  NPART = %d\n  Variant = \"code\"\n" % (", ".join(str(n) for n in norms), npart) +
           "".join(f"INVARIANT {i}\n" for i in QUAT_INV) + "CHECK_DEADLOCK FALSE\n")
    st = ftable.enumerate_states("MC_OrbRepQuat.tla", cfg, "c21_quat", workers=workers)
    if ftable.spec_violation(rep, st, "c21_quat"):
        return
    rep.add_tlc("c21_quat", st)
    states = sorted(ftable.dump_states(st), key=lambda s: (s["q"], s["sgn"]))
    if not states or not any(x[2] not in (1, 2) for s in states for row in s["R"] for x in row):
        raise MachineryError("no non-crystallographic rational rotation enumerated")
    rot = OrbitalRotator()
    maxdev = dict(exact=0.0, orth=0.0, hom=0.0)
    nfdone = 0
    for s in (states if nreplay >= len(states) else rng.sample(states, nreplay)):
        R = sc.mat(s["R"])
        g = dict(dp=[sc.mat(s["dp"])], dd=[sc.mat(s["dd"])])
        for sh in ("s", "p", "d", "pz", "p2", "pxy", "t2g", "eg"):
            M = np.array(rot(sh, rot_cart=R))
            exp = sc.expected_exact(g, sh, 0)
            rep.case(("quat_exact", s["q"], s["sgn"], sh))
            dv = float(np.abs(M - exp).max())
            maxdev["exact"] = max(maxdev["exact"], dv)
            if dv > TOL_EXACT:
                rep.violation(f"OrbitalRotator:exact:{sh}", dict(quaternion=s["q"], sign=s["sgn"], rot_cart=R.tolist(), expected=exp.tolist(), got=M.tolist()))
        full = ["s", "p", "d", "sp3"] + (["f"] if nfdone < nf else [])
        nfdone += 1
        for sh in full:
            DA = np.array(rot(sh, rot_cart=R))
            dv = dev_orth(DA)
            maxdev["orth"] = max(maxdev["orth"], dv)
            rep.case(("quat_orth", s["q"], s["sgn"], sh))
            if dv > TOL:
                rep.violation(f"OrbitalRotator:orthogonal:{sh}", dict(quaternion=s["q"], sign=s["sgn"], rot_cart=R.tolist(), deviation=dv))
            for P in (PARTNERS[:npart] if sh != "f" else PARTNERS[:1]):
                for A, B in ((R, P), (P, R)):
                    dv = float(np.abs(np.array(rot(sh, rot_cart=A)) @ np.array(rot(sh, rot_cart=B)) - np.array(rot(sh, rot_cart=A @ B))).max())
                    maxdev["hom"] = max(maxdev["hom"], dv)
                    rep.case(("quat_hom", s["q"], s["sgn"], sh, A is R, P.tolist()))
                    if dv > TOL:
                        rep.violation(f"OrbitalRotator:homomorphism:{sh}", dict(A=A.tolist(), B=B.tolist(), deviation=dv))
    rep.part("rational_rotations", tlc_states=len(states), max_deviation=maxdev)
    rep.sample(dict(quaternion=states[len(states) // 2]["q"], sign=states[len(states) // 2]["sgn"], rot_cart=sc.mat(states[len(states) // 2]["R"]).tolist()))


def random_rotations(rep, shells, npairs, nf, rng):
    """numeric only: random proper/improper rotations"""
    from scipy.spatial.transform import Rotation
    from wannierberri.symmetry.orbitals import OrbitalRotator
    rot = OrbitalRotator()
    nprs = np.random.RandomState(rng.randrange(2**31))
    full = [sh for sh in shells if sh in ("s", "p", "d", "sp3")]
    axis_z = [sh for sh in shells if sh in ("pz", "pxy", "sp2")]
    axis_x = [sh for sh in shells if sh in ("sp", "p2")]
    maxdev = 0.0
    ncase = 0

    def rnd(axis=None):
        if axis is None:
            R = Rotation.random(random_state=nprs).as_matrix()
            return R * nprs.choice([1, -1])
        ang = nprs.uniform(0, 2 * np.pi)
        v = np.zeros(3)
        v[axis] = 1
        R = Rotation.from_rotvec(ang * v).as_matrix()
        # optional mirror containing the axis, mirror perpendicular to it, two-fold axis perpendicular
        m1 = np.diag([1.0, 1.0, 1.0])
        m1[(axis + 1) % 3, (axis + 1) % 3] = nprs.choice([1, -1])
        m2 = np.diag([1.0, 1.0, 1.0])
        m2[axis, axis] = nprs.choice([1, -1])
        return R @ m1 @ m2

    for n in range(npairs):
        for shs, axis in ((full + (["f"] if n < nf and "f" in shells else []), None), (axis_z, 2), (axis_x, 0)):
            A, B = rnd(axis), rnd(axis)
            for sh in shs:
                DA, DB, DAB = (np.array(rot(sh, rot_cart=M)) for M in (A, B, A @ B))
                ncase += 1
                rep.case(("random", sh, n, axis))
                for nm, dv in (("orthogonal", dev_orth(DA)), ("orthogonal", dev_orth(DB)), ("homomorphism", float(np.abs(DA @ DB - DAB).max()))):
                    maxdev = max(maxdev, dv)
                    if dv > TOL:
                        rep.violation(f"OrbitalRotator:{nm}:{sh}:random", dict(shell=sh, A=A.tolist(), B=B.tolist(), deviation=dv))
    rep.part("numeric_only", what="random O(3) rotations (full shells, sp3) and random rotations about / mirrors through the "
                                  "preserved axis for pz, pxy, sp2 (z) and sp, p2 (x): orthogonality and D(A)D(B) = D(AB)",
             cases=ncase, max_deviation=maxdev, tolerance=TOL)


def check(pid, tier):
    rep = Report(pid, tier, "exploration")
    thorough = tier == "thorough"
    rng = random.Random(seed() * 7919 + 21)
    workers = 16
    shells = all_shells()
    rep.rule("TLC generates each point group from its generators and tabulates the multiplication table and the exact s/p/d matrices; "
             "a case = one (shell, element) or (shell, g, h) table entry replayed on the real OrbitalRotator, one (structure, shell, "
             "operation) of Dwann, or one recorded matrix/product validated by TLC; distinct by these tuples")
    rep.assume("exact comparison of s, p, d and sub-shell hybrids uses 1e-10 (entries are 0, 1/2, sqrt(3)/2, ...); numeric laws use 1e-9 "
               "(observed deviations 1e-15)")
    rep.assume("hybrid shells are only required to be orthogonal for rotations that map their span onto itself (OrbRep!Preserves)")

    names = ["Oh", "D6h"] + (["Td", "O", "D4h", "D3d", "C6v", "D2h"] if thorough else [])
    groups = []
    Dcache = {}
    for name in names:
        st, g = sc.orbrep_group(name, f"c21_{name}", workers=workers)
        if ftable.spec_violation(rep, st, f"c21_{name}"):
            continue
        rep.add_tlc(f"c21_{name}", st)
        if set(g["pres"].keys()) != set(shells):     # the specification must know every shell the code accepts
            raise MachineryError(f"shells accepted by orbitals.py {sorted(shells)} differ from OrbRep!AllShells {sorted(g['pres'])}: extend the specification")
        groups.append(g)
        Dcache[name] = replay_group(rep, g, shells, thorough, rng)
        if len(rep.cov["samples"]) < 2:
            rep.sample(dict(group=name, element=g["elems"][1].tolist(), p_matrix_spec=g["dp"][1].tolist(),
                            p_matrix_code=Dcache[name]["p"][1].tolist(), table_row_1=g["table"][1][:8]))
    if not groups:
        return rep.finish()

    # sensitivity: plausible wrong variants must be rejected by TLC
    stt = tlc.run_tlc("MC_OrbRep.tla", sc.orbrep_cfg("D3d", "transposed"), "c21_transposed", workers=workers, timeout=900)
    if not stt.get("violation") or stt["violation"][1] not in ("RepHomP", "RepHomD", "SubHom"):
        raise MachineryError(f"sensitivity self-test failed: D = R^T (anti-homomorphism) must violate the homomorphism invariant, got {stt.get('violation')}")
    stx = tlc.run_tlc("MC_OrbRep.tla", sc.orbrep_cfg("D4h", "xyz"), "c21_xyz", workers=workers, timeout=900)
    if not stx.get("violation"):
        raise MachineryError("sensitivity self-test failed: p shell in (x,y,z) order must violate Compression")
    rep.part("sensitivity", transposed=stt["violation"][1], xyz_order=stx["violation"][1])
    # binding self-test (spec -> code): the xyz-ordered p matrix must differ from the code's on some element
    g0 = groups[0]
    perm = [1, 2, 0]      # (z,x,y) -> (x,y,z)
    if all(np.abs(g0["dp"][i][np.ix_(perm, perm)] - Dcache[g0["name"]]["p"][i]).max() < TOL_EXACT for i in range(g0["n"])):
        raise MachineryError("binding self-test failed: a wrongly ordered expected p matrix is not distinguished")

    # Dwann on the specification's structures
    oh = groups[0]
    lats, nsites, poscat = (["cubic", "tetra", "ortho"], [1, 2], "small") if thorough else (["tetra"], [1, 2], "tiny")
    sts, structs, excl = sc.symorb_structures("c21_symorb", lats, nsites, poscat, workers=workers)
    if not ftable.spec_violation(rep, sts, "c21_symorb"):
        rep.add_tlc("c21_symorb", sts)
        rep.part("c21_symorb_structures", built=len(structs), excluded_nonprimitive=excl)
        if not structs:
            raise MachineryError("no structure enumerated")
        if not any(any(t != (0, 0, 0) for m in s["tvec"] for t in m) for s in structs):
            raise MachineryError("no structure with a non-zero lattice shift T")
        sel = structs if thorough else rng.sample(structs, min(len(structs), 14))
        dwann_replay(rep, sel, oh, shells, thorough, rng)

    # code -> spec
    recs = records(rep, groups[:2], Dcache, shells, nmat=250 if thorough else 40, nhom=350 if thorough else 60, rng=rng)
    stv, bad = ftable.validate_records("OrbRepRec.tla", ftable.REC_CFG, recs, "c21")
    rep.add_tlc("c21_records", stv)
    rep.add_traces(len(recs))
    for i, clauses in bad.items():
        r = recs[i]
        rep.violation(f"OrbitalRotator:recorded:{r['fn']}:{'+'.join(sorted(clauses))}", dict(record=r, failing_clauses=clauses))
    rep.sample({k: v for k, v in recs[0].items() if k in ("fn", "R", "p")})
    badrec = copy.deepcopy([r for r in recs if r["fn"] == "mat"][:1])
    badrec[0]["p"][0][1], badrec[0]["p"][1][0] = badrec[0]["p"][1][0], badrec[0]["p"][0][1]
    badrec[0]["p"][0][0] = [1, 1, 2]
    badhom = copy.deepcopy([r for r in recs if r["fn"] == "hom"][:1])
    badhom[0]["shells"][0]["hom"] = 12
    _, b2 = ftable.validate_records("OrbRepRec.tla", ftable.REC_CFG, badrec + badhom, "c21_selftest")
    if "p_equals_spec" not in b2.get(0, []) or "homomorphism" not in b2.get(1, []):
        raise MachineryError(f"binding self-test failed: corrupted records accepted ({b2})")
    rep.part("binding_selftest", corrupted_records_rejected=b2)

    rational_rotations(rep, shells, norms=range(1, 17) if thorough else [5], npart=4 if thorough else 2, nreplay=200 if thorough else 24, nf=6 if thorough else 1, rng=rng, workers=workers)
    random_rotations(rep, shells, npairs=40 if thorough else 6, nf=12 if thorough else 2, rng=rng)
    return rep.finish()
