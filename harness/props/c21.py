"""C21: orbital rotation matrices form an orthogonal representation; D_wann is unitary and maps centres onto images.

spec  : OrbRep.tla (exact numbers of Q(sqrt 3); s, p, d representation matrices in the real bases of orbitals.py;
        sub-shell hybrids as sub-blocks; the domain predicate Preserves(shell, R)), MC_OrbRep.tla (work-list closure of
        a point group from generators, multiplication table, all group axioms and C21 clauses as invariants),
        MC_OrbRepQuat.tla (rational, non-crystallographic rotations from integer quaternions, one state each),
        SymOrbits.tla / MC_SymOrbits.tla (space groups of small structures, site maps, integer shifts T),
        OrbRepRec.tla (record validation)
bind  : spec -> code : the elements of every generated group that preserve the span of a shell are passed to the real
        OrbitalRotator; s, p, d and the sub-shell hybrids are compared with the specification's exact matrices (1e-10, orbital
        order read from the public table orbitals_sets_dic), sp/sp2/sp3/sp3d2 with M D_spec M^T (M from the public
        hybrids_coef), f through its character and parity; identity, orthogonality and D(g)D(h) = D(gh) over the
        specification's multiplication table on the stabiliser of the shell's span; local bases through the table; Dwann of
        sampled specification structures: site map, D_wann(k) unitary with the block structure given by the specification;
        one hexagonal cell (D6h elements matched through rotation_cart).
        code -> spec : matrices returned by the code (rationalised) and residual buckets of products across groups are
        validated by TLC against OrbRepRec.
"""
import copy
import random
import numpy as np

SQ3 = 3 ** 0.5

from .. import tlc, ftable
from ..common import Report, MachineryError, seed, quiet
from . import _symcommon as sc

PROPS = {
    "C21": dict(level="exploration",
                technique="TLC exhaustive on OrbRep/MC_OrbRep (finite point groups generated from generators, exact s/p/d "
                          "representation matrices in Q(sqrt3), multiplication table, homomorphism/orthogonality/parity invariants) "
                          "and MC_SymOrbits (space groups of small structures); replay of the group elements and table entries on the "
                          "stabiliser of each shell's span and of sampled structures on the real OrbitalRotator / Dwann; TLC validation "
                          "of recorded matrices and residual buckets",
                text="The specification decides exactly: the groups O_h, D_6h (thorough: and subgroups) with their multiplication tables, "
                     "the s, p and d matrices of every element (and of products across the two groups), the sub-shell hybrids pz, p2, pxy, "
                     "t2g, eg as sub-blocks, for which rotations a hybrid's span is preserved, the site maps and lattice shifts of "
                     "Dwann, and the s/p/d matrices of rational (integer-quaternion) rotations that are not crystallographic. Floating "
                     "point only: sp/sp2/sp3/sp3d2 hybrids against M D_spec M^T (1e-10), f shell (orthogonality, composition, character, "
                     "parity), random O(3) rotations, rotations closer than the rotator's cache tolerance, unitarity of D_wann, the "
                     "hexagonal cell (tolerance 1e-9, observed 1e-15). Local frames are an input class throughout: for frames b from the "
                     "group (exact, OrbRep!RepFrame) and generic ones (numeric) rotator(shell, R, b1, b2) = D(b2 R b1^T) for every shell and "
                     "hybrid, composites 's;p', 'p;d', 'pz;s', 's;p;d' equal the block matrix of their parts with and without frames, the "
                     "composition law holds in a common frame; Dwann with a common non-identity frame, site-dependent frames and "
                     "composite orbitals (explicit basis_list on the specification's structures; frames built by Projection from "
                     "xaxis= / rotate_basis= / do_not_split_projections on the hexagonal cell): unitarity, centre map, block = phase x "
                     "D_spec of the rotation in the local frames. One long-lived rotator answering 420 (thorough 600) distinct rotations with "
                     "re-queries must agree with fresh instances (1e-12) and compose across its history (numeric only, key "
                     "OrbitalRotator:long_history; not modelled in TLA+).",
                note="exact in TLA+: group axioms, tables, s/p/d matrices, hybrids that are sub-blocks, domain predicate, site maps/shifts. "
                     "numeric (inputs and index triples chosen by the spec): f shell and sqrt(2)-hybrids, random rotations, hexagonal "
                     "cell (reported as numeric_only). A hybrid whose span is not invariant under the rotation is outside the "
                     "statement: what the code returns there is not constrained (thorough only counts how often the compression is "
                     "orthogonal, as information). Quick: groups O_h and D_6h, 14 sampled tetragonal structures x <= 3 shells, no "
                     "spinor D_wann; thorough: 8 groups, all cubic/tetragonal/orthorhombic structures, 30 % spinor (unitarity only: "
                     "the statement asks no more of the spinor blocks). Orbital order and sign conventions are those of the public "
                     "tables orbitals_sets_dic / hybrids_coef; the phase convention of D_wann(k) is accepted in either sign.",
                ref="DESIGN.md 3.3, 3.7"),
}

TOL = 1e-9
TOL_EXACT = 1e-10
INFO_CLAUSES = ("domain",)          # harness-vs-spec agreement, not a verdict on the code


def all_shells():
    from wannierberri.symmetry.orbitals import orbitals_sets_dic
    return list(orbitals_sets_dic)


def dev_orth(D):
    return float(np.abs(D @ D.T - np.eye(len(D))).max())


def new_rotator():
    from wannierberri.symmetry.orbitals import OrbitalRotator
    return OrbitalRotator()


def call_rot(rep, rot, sh, R, **kw):
    """one call of the real rotator on an input inside the domain -> matrix or None (violation recorded)"""
    ok, M = sc.guarded(rep, f"OrbitalRotator:{sh}", dict(shell=sh, rot_cart=np.asarray(R).tolist(), **{k: np.asarray(v).tolist() for k, v in kw.items()}),
                       rot, sh, rot_cart=R, **kw)
    return np.array(M, dtype=float) if ok else None


def law_checks(rep, sh, R, M, g, i, where, maxdev, counts):
    """what can be said about one matrix D_sh(R) with R in the stabiliser of the span: shape, exact value / hybrid oracle,
    character and parity input for f, orthogonality.  g, i: specification matrices (dict with dp, dd) and index"""
    from wannierberri.symmetry.orbitals import num_orbitals
    dim = num_orbitals(sh)
    if M.shape != (dim, dim):
        rep.violation(f"OrbitalRotator:shape:{sh}", dict(where=where, shell=sh, rot_cart=np.asarray(R).tolist(), got_shape=list(M.shape)))
        return False
    exp = sc.expected_exact(g, sh, i)
    kind = "exact"
    if exp is None:
        exp = sc.expected_hybrid(g, sh, i)
        kind = "hybrid"
    if exp is not None and exp.shape == M.shape:
        counts[kind] = counts.get(kind, 0) + 1
        dv = float(np.abs(M - exp).max())
        maxdev[kind] = max(maxdev.get(kind, 0.0), dv)
        if dv > TOL_EXACT:
            rep.violation(f"OrbitalRotator:{kind}:{sh}", dict(where=where, shell=sh, rot_cart=np.asarray(R).tolist(), expected=exp.tolist(),
                                                              got=M.tolist(), deviation=dv))
    if sh == "f":
        counts["character"] = counts.get("character", 0) + 1
        dv = abs(float(np.trace(M)) - sc.character(3, R))
        maxdev["character"] = max(maxdev.get("character", 0.0), dv)
        if dv > TOL:
            rep.violation("OrbitalRotator:character:f", dict(where=where, rot_cart=np.asarray(R).tolist(), trace=float(np.trace(M)),
                                                             expected=sc.character(3, R)))
    counts["orth"] = counts.get("orth", 0) + 1
    dv = dev_orth(M)
    maxdev["orth"] = max(maxdev.get("orth", 0.0), dv)
    if dv > TOL:
        rep.violation(f"OrbitalRotator:orthogonal:{sh}", dict(where=where, shell=sh, rot_cart=np.asarray(R).tolist(), got=M.tolist(), deviation=dv))
    return True


COMPOSITES = ("s;p", "p;d", "pz;s")


def parts_of(sym):
    return [x.strip() for x in sym.split(";")]


def expected_any(g, sym, i):
    """the specification's matrix of a shell, a hybrid with an s/p/d oracle, or a composite 'a;b' (block diagonal of its
    parts) for element i; None if some part has no oracle (f)"""
    from scipy.linalg import block_diag
    mats = []
    for sh in parts_of(sym):
        e = sc.expected_exact(g, sh, i)
        if e is None:
            e = sc.expected_hybrid(g, sh, i)
        if e is None:
            return None
        mats.append(e)
    return block_diag(*mats)


def replay_group(rep, g, shells, thorough, rng):
    """spec -> code for one generated group"""
    from scipy.linalg import block_diag
    rot = new_rotator()          # the elements of one group are far apart: the rotator's cache cannot confuse them
    n = g["n"]
    ident = [i for i in range(n) if np.array_equal(g["elems"][i], np.eye(3))]
    minus = [i for i in range(n) if np.array_equal(g["elems"][i], -np.eye(3))]
    if len(ident) != 1:
        raise MachineryError(f"group {g['name']} has {len(ident)} identity elements")
    maxdev, counts = {}, dict(hom=0, notpres=0, notpres_orthogonal=0, notpres_raises=0, basis=0, parity=0)
    D = {sh: {} for sh in shells}
    for sh in shells:
        pres = g["pres"][sh]
        for i in range(n):
            R = g["elems"][i]
            if i not in pres:
                counts["notpres"] += 1
                if thorough:        # outside the statement: information only
                    try:
                        M = np.array(rot(sh, rot_cart=R), dtype=float)
                        counts["notpres_orthogonal"] += int(M.ndim == 2 and M.shape[0] == M.shape[1] and dev_orth(M) < 1e-4)
                    except Exception:
                        counts["notpres_raises"] += 1
                continue
            M = call_rot(rep, rot, sh, R)
            if M is None:
                continue
            rep.case(("element", g["name"], sh, i))
            if not law_checks(rep, sh, R, M, g, i, g["name"], maxdev, counts):
                continue
            D[sh][i] = M
            if i == ident[0] and np.abs(M - np.eye(len(M))).max() > TOL_EXACT:
                rep.violation(f"OrbitalRotator:identity:{sh}", dict(shell=sh, got=M.tolist()))
        # parity of the full shells under inversion: D(-R) = (-1)^l D(R) (p, d are exact already; here f and s)
        if minus and sh in ("s", "p", "d", "f"):
            l = "spdf".index(sh)
            for i in sorted(D[sh]):
                j = g["table"][i][minus[0]]
                if j in D[sh]:
                    counts["parity"] += 1
                    dv = float(np.abs(D[sh][j] - (-1) ** l * D[sh][i]).max())
                    if dv > TOL:
                        rep.violation(f"OrbitalRotator:parity:{sh}", dict(group=g["name"], rot_cart=g["elems"][i].tolist(), deviation=dv,
                                                                          what="D(-R) differs from (-1)^l D(R)"))
        # homomorphism over the specification's table, on the stabiliser of the span
        for i in D[sh]:
            for j in D[sh]:
                k = g["table"][i][j]
                if k not in D[sh]:
                    continue
                rep.case(("hom", g["name"], sh, i, j))
                counts["hom"] += 1
                dv = float(np.abs(D[sh][i] @ D[sh][j] - D[sh][k]).max())
                maxdev["hom"] = max(maxdev.get("hom", 0.0), dv)
                if dv > TOL:
                    rep.violation(f"OrbitalRotator:homomorphism:{sh}", dict(group=g["name"], shell=sh, g=g["elems"][i].tolist(),
                                                                            h=g["elems"][j].tolist(), gh=g["elems"][k].tolist(),
                                                                            index_triple=[i, j, k], deviation=dv))
    # combined shells are block diagonal
    composites = [c for c in ("s;p;d",) + COMPOSITES if all(x in shells for x in parts_of(c))]
    for comb in composites:
        allowed = [i for i in range(n) if all(i in D[x] for x in parts_of(comb))]
        for i in rng.sample(allowed, min(len(allowed), 4)):
            M = call_rot(rep, rot, comb, g["elems"][i])
            if M is None:
                continue
            exp = expected_any(g, comb, i)
            rep.case(("comb", g["name"], comb, i))
            counts["composite"] = counts.get("composite", 0) + 1
            if M.shape != exp.shape or np.abs(M - exp).max() > TOL_EXACT:
                rep.violation("OrbitalRotator:combined", dict(orb=comb, rot_cart=g["elems"][i].tolist(), expected=exp.tolist(), got=M.tolist()))
    # local bases: rotator(sh, R, basis1, basis2) = D(basis2 R basis1^T), index through the specification's table
    #   single shells, hybrids and composites 'a;b' (block diagonal of the parts IN the frames); every third case uses a common
    #   frame b1 = b2 (D_b(R) = D(b R b^T)) and also tests D_b(R) D_b(R') = D_b(R R')
    nb = 400 if thorough else 90
    counts["basis_composite"] = counts["basis_common_frame"] = 0
    for case in range(nb):
        sh = rng.choice(shells + composites + composites)
        b1, r, b2 = rng.randrange(n), rng.randrange(n), rng.randrange(n)
        if case % 3 == 0:
            b2 = b1
        k = g["table"][b2][g["table"][r][g["inv"][b1]]]
        if not all(k in D[x] for x in parts_of(sh)):
            continue
        M = call_rot(rep, rot, sh, g["elems"][r], basis1=g["elems"][b1], basis2=g["elems"][b2])
        if M is None:
            continue
        exp = block_diag(*[D[x][k] for x in parts_of(sh)])
        rep.case(("basis", g["name"], sh, b1, r, b2))
        counts["basis"] += 1
        counts["basis_composite"] += int(";" in sh)
        dv = float(np.abs(M - exp).max()) if M.shape == exp.shape else float("inf")
        if dv > TOL:
            rep.violation(f"OrbitalRotator:local_basis:{sh}", dict(group=g["name"], shell=sh, rot_cart=g["elems"][r].tolist(),
                                                                   basis1=g["elems"][b1].tolist(), basis2=g["elems"][b2].tolist(),
                                                                   expected_element=k, deviation=dv,
                                                                   what="rotator(shell, R, basis1, basis2) differs from D(basis2 R basis1^T) (composites: from the block "
                                                                        "matrix of their parts in these frames)"))
            continue
        if b1 == b2:
            r2 = rng.randrange(n)
            M2 = call_rot(rep, rot, sh, g["elems"][r2], basis1=g["elems"][b1], basis2=g["elems"][b1])
            M12 = call_rot(rep, rot, sh, g["elems"][g["table"][r][r2]], basis1=g["elems"][b1], basis2=g["elems"][b1])
            if M2 is None or M12 is None or M2.shape != M.shape or M12.shape != M.shape:
                continue
            k2 = g["table"][b1][g["table"][r2][g["inv"][b1]]]
            if not all(k2 in D[x] for x in parts_of(sh)):
                continue
            counts["basis_common_frame"] += 1
            dv = float(np.abs(M @ M2 - M12).max())
            if dv > TOL:
                rep.violation(f"OrbitalRotator:local_basis:homomorphism:{sh}", dict(group=g["name"], shell=sh, frame=g["elems"][b1].tolist(),
                                                                                    g=g["elems"][r].tolist(), h=g["elems"][r2].tolist(), deviation=dv))
    if counts["notpres"] == 0 and g["name"] in ("Oh", "D6h"):
        raise MachineryError(f"no element of {g['name']} outside a stabiliser: the domain predicate was never exercised")
    if (counts["basis"] == 0 or counts["basis_composite"] == 0 or counts["basis_common_frame"] == 0) and not rep.violations:
        raise MachineryError(f"local-basis cases incomplete: {counts}")
    rep.part(f"replay_{g['name']}", counts=counts, max_deviation=maxdev)
    return D


def records(rep, groups, shells, nmat, nhom, rng):
    """code -> spec records: matrices (rationalised, specification order) and products across groups"""
    recs = []
    pool = [(g, i) for g in groups for i in range(g["n"])]
    subs = [sh for sh in sc.SPEC_SUB if sh in shells]

    def fmat(R, b1=None, b2=None):
        """the record carries the rotation the matrices must represent: R, or b2 R b1^T when the code was called with local
        frames; with frames the s, p, d matrices are the diagonal blocks of ONE composite call 's;p;d'"""
        rot = new_rotator()
        kw = {} if b1 is None else dict(basis1=b1, basis2=b2)
        Reff = R if b1 is None else b2 @ R @ b1.T
        out = dict(fn="mat", R=sc.rat_mat(Reff), sub=[], framed=b1 is not None)
        blocks = {}
        if b1 is not None:
            M = call_rot(rep, rot, "s;p;d", R, **kw)
            if M is None or M.shape != (9, 9):
                return None
            blocks = {"s": M[:1, :1], "p": M[1:4, 1:4], "d": M[4:, 4:]}
            off = M.copy()
            off[:1, :1] = 0
            off[1:4, 1:4] = 0
            off[4:, 4:] = 0
            if np.abs(off).max() > 1e-12:
                rep.violation("OrbitalRotator:combined", dict(orb="s;p;d", rot_cart=R.tolist(), basis1=b1.tolist(), basis2=b2.tolist(),
                                                              what="a composite symbol is not block diagonal"))
                return None
        for sh in ("s", "p", "d"):
            M = blocks[sh] if blocks else call_rot(rep, rot, sh, R)
            Ms = None if M is None else sc.to_spec_order(sh, M)
            if Ms is None:
                return None
            out[sh] = sc.rat_mat(Ms)
        for sh in subs:
            if not sc.span_preserved(sh, Reff):
                continue
            M = call_rot(rep, rot, sh, R, **kw)
            Ms = None if M is None else sc.to_spec_order(sh, M)
            if Ms is not None:
                out["sub"].append([sh, sc.rat_mat(Ms)])
        return out
    for _ in range(nmat):
        (g1, i), (g2, j) = rng.choice(pool), rng.choice(pool)
        R = g1["elems"][i] @ g2["elems"][j] if rng.random() < 0.6 else g1["elems"][i]
        if _ % 2 == 1:      # with local frames from the groups (a common frame every other time)
            (g3, a), (g4, b) = rng.choice(pool), rng.choice(pool)
            b1 = g3["elems"][a]
            r = fmat(g1["elems"][i], b1, b1 if _ % 4 == 1 else g4["elems"][b])
        else:
            r = fmat(R)
        if r is not None:
            recs.append(r)
            rep.case(("rec_mat", g1["name"], i, g2["name"], j))
    for _ in range(nhom):
        (g1, i), (g2, j) = rng.choice(pool), rng.choice(pool)
        A, B = g1["elems"][i], g2["elems"][j]
        AB = A @ B
        ABx = sc.rat_mat(AB)
        ABf = np.array([[sc.num(x) if x[2] else float("nan") for x in row] for row in ABx])
        ents = []
        rot = new_rotator()
        for sh in shells:
            if sh == "f" and rng.random() < 0.5:        # the f shell is slow (sympy)
                continue
            if not (sc.span_preserved(sh, A) and sc.span_preserved(sh, B)):
                continue
            Ds = [call_rot(rep, rot, sh, M) for M in (A, B, ABf)]
            if any(d is None for d in Ds) or len({d.shape for d in Ds}) != 1 or Ds[0].shape[0] != Ds[0].shape[1]:
                continue
            DA, DB, DAB = Ds
            ents.append(dict(sh=sh, orth_g=sc.bucket(dev_orth(DA)), orth_h=sc.bucket(dev_orth(DB)),
                             hom=sc.bucket(float(np.abs(DA @ DB - DAB).max()))))
        recs.append(dict(fn="hom", g=sc.rat_mat(A), h=sc.rat_mat(B), gh=ABx, shells=ents))
        rep.case(("rec_hom", g1["name"], i, g2["name"], j))
    return recs


def _orbit_order(rep, dw, pos):
    """local site index of every point of the Dwann's orbit (the orbit may be stored in any order): by position mod 1"""
    ok, orb = sc.private(rep, "Dwann.orbit", lambda: np.array([np.asarray(p, dtype=float) for p in dw.orbit]))
    if not ok:
        return list(range(len(pos)))
    order = []
    for p in orb:
        d = [np.abs((p - q + 0.5) % 1 - 0.5).max() for q in pos]
        a = int(np.argmin(d))
        if d[a] > 1e-8:
            return None
        order.append(a)
    return order if sorted(order) == list(range(len(pos))) else None


def _blocks_of(Dk, npnt, norb):
    """for every column block a: the row block with non-zero entries (None if not exactly one), from D_wann(k) itself"""
    out = []
    for a in range(npnt):
        nz = [b for b in range(npnt) if np.abs(Dk[b * norb:(b + 1) * norb, a * norb:(a + 1) * norb]).max() > 1e-12]
        out.append(nz[0] if len(nz) == 1 else None)
    return out


def dwann_replay(rep, structs, oh, shells, thorough, rng):
    """spec -> code: Dwann of specification structures"""
    from wannierberri.symmetry.Dwann import Dwann
    from wannierberri.symmetry.orbitals import num_orbitals
    ohindex = {tuple(tuple(int(round(x)) for x in r) for r in e): i for i, e in enumerate(oh["elems"])}
    counts = dict(structures=0, maps=0, dwann=0, spinor=0, skipped_shell=0, shift_convention={}, phase_convention={})
    maxdev = 0.0
    rot = new_rotator()          # shared: all rotations are exact signed permutations (identical or far apart)
    for st in structs:
        spinor = thorough and rng.random() < 0.3
        with quiet():
            sg, op_of, lattice, positions = sc.real_spacegroup(st, spinor=spinor)
        counts["structures"] += 1
        for ty in sorted(set(st["types"])):
            glob = [k for k in range(st["nsites"]) if st["types"][k] == ty]
            loc = {k: n for n, k in enumerate(glob)}
            # shells whose span every operation of the group preserves (basis not rotated)
            ok = [sh for sh in shells if all(ohindex[W] in oh["pres"][sh] for W, _, _ in st["ops"])]
            counts["skipped_shell"] += len(shells) - len(ok)
            # local frames (rows = local axes) taken from the specification's group: a common non-identity frame on all sites, or
            # a different frame on every site; orbitals incl. composites 'a;b'.  A case is admitted if b_map(a) g b_a^T preserves
            # the span of every part for every operation g and site a (then the block is D_spec of that element).
            def frame_element(n, a, frames):
                W = np.array(st["ops"][n][0], dtype=float)
                b = loc[st["amap"][n][glob[a]]]
                M = frames[b] @ W @ frames[a].T
                return ohindex[tuple(tuple(int(round(x)) for x in r) for r in M)]

            def admitted(orbital, frames):
                return all(frame_element(n, a, frames) in oh["pres"][x] for n in range(len(st["ops"])) for a in range(len(glob)) for x in parts_of(orbital))
            ident = [np.eye(3)] * len(glob)
            cases = [(sh, ident, "identity") for sh in (ok if thorough else rng.sample(ok, min(3, len(ok))))]
            candidates = [x for x in ("p", "s;p", "pz;s", "d", "p;d", "pz", "sp2", "t2g", "sp3") if all(y in shells for y in parts_of(x))]
            nonid = [i for i in range(oh["n"]) if not np.array_equal(oh["elems"][i], np.eye(3))]
            for label in ("common", "site", "composite"):
                for _ in range(40):
                    if label == "common":
                        frames = [oh["elems"][rng.choice(nonid)]] * len(glob)
                    else:
                        frames = [oh["elems"][rng.choice(nonid)] for _ in glob]
                    orbital = rng.choice([c for c in candidates if (";" in c) == (label == "composite")])
                    # the frame must matter: some operation is represented by another group element than without frames
                    if admitted(orbital, frames) and any(frame_element(n, a, frames) != frame_element(n, a, ident) for n in range(len(st["ops"])) for a in range(len(glob))):
                        cases.append((orbital, frames, label))
                        break
            for sh, frames, label in cases:
                detail = dict(structure=st["key"], shell=sh, spinor=spinor, frames=label, basis_list=[np.asarray(f).tolist() for f in frames])
                with quiet():
                    good, dw = sc.guarded(rep, "Dwann", detail, Dwann, spacegroup=sg, positions=positions[glob], orbital=sh, orbitalrotator=rot,
                                          basis_list=list(frames), spinor=spinor)
                if not good:
                    continue
                counts["frames_" + label] = counts.get("frames_" + label, 0) + 1
                key = (st["key"], ty, sh, spinor, label, tuple(np.asarray(f).astype(int).tobytes() for f in frames))
                order = _orbit_order(rep, dw, positions[glob])
                if order is None:
                    rep.violation("Dwann:orbit", dict(structure=st["key"], what="the orbit of the given positions is not the set of given positions",
                                                      expected=len(glob)))
                    continue
                npnt = len(glob)
                if label != "identity" and order != list(range(npnt)):
                    continue        # the frames were handed over in the order of the given positions
                norb = num_orbitals(sh) * (2 if spinor else 1)
                kpt = np.array([rng.randint(1, 7) / 16, rng.randint(1, 7) / 24, rng.randint(1, 7) / 20])
                okT, Tcode = sc.private(rep, "Dwann.T", lambda: np.asarray(dw.T))
                okM, Mcode = sc.private(rep, "Dwann.atommap", lambda: np.asarray(dw.atommap))
                dev_ph = {1: 0.0, -1: 0.0}
                shift_eq = {1: True, -1: True}
                for isym, n in enumerate(op_of):
                    # expected site map / shifts in the order of the code's orbit
                    exp_map = [order.index(loc[st["amap"][n][glob[order[a]]]]) for a in range(npnt)]
                    exp_T = np.array([st["tvec"][n][glob[order[a]]] for a in range(npnt)])
                    symop = sg.symmetries[isym]
                    k2 = symop.transform_k(kpt)
                    good, Dk = sc.guarded(rep, "Dwann.get_on_points", dict(detail, op=st["ops"][n], k=kpt.tolist()), dw.get_on_points, kpt, k2, isym)
                    if not good:
                        continue
                    Dk = np.asarray(Dk)
                    rep.case(("dwann",) + key + (isym,))
                    counts["dwann"] += 1
                    counts["spinor"] += int(spinor)
                    if Dk.shape != (npnt * norb, npnt * norb):
                        rep.violation("Dwann:shape", dict(detail, got=list(Dk.shape), expected=npnt * norb))
                        continue
                    dv = float(np.abs(Dk @ Dk.conj().T - np.eye(len(Dk))).max())
                    maxdev = max(maxdev, dv)
                    if dv > TOL:
                        rep.violation(f"Dwann:unitary:{sh}", dict(structure=st["key"], op=st["ops"][n], shell=sh, spinor=spinor, deviation=dv))
                    # each centre is mapped onto its symmetry image: block (map(a), a) and nothing else, map = the specification's
                    got_map = _blocks_of(Dk, npnt, norb)
                    counts["maps"] += 1
                    if got_map != exp_map:
                        rep.violation("Dwann:centre_map", dict(structure=st["key"], op=st["ops"][n], shell=sh, expected_map=exp_map, got_blocks=got_map,
                                                               what="D_wann(k) does not connect every centre with exactly its symmetry image"))
                        continue
                    if okM and [int(x) for x in Mcode[:, isym]] != exp_map:
                        rep.violation("Dwann:atommap", dict(structure=st["key"], op=st["ops"][n], expected_map=exp_map, got_map=Mcode[:, isym].tolist()))
                    if okT:
                        shift_eq[1] &= bool(np.array_equal(Tcode[:, isym, :], exp_T))
                        shift_eq[-1] &= bool(np.array_equal(Tcode[:, isym, :], -exp_T))
                    if not spinor:
                        for a in range(npnt):
                            # a, b are positions in the code's orbit; frames are listed in the order of the given positions
                            e = expected_any(oh, sh, frame_element(n, order[a], frames))
                            if e is not None and e.shape == (norb, norb):
                                b = exp_map[a]
                                blk = Dk[b * norb:(b + 1) * norb, a * norb:(a + 1) * norb]
                                ph = np.exp(2j * np.pi * np.dot(k2, exp_T[a]))
                                dev_ph[1] = max(dev_ph[1], float(np.abs(blk - ph * e).max()))
                                dev_ph[-1] = max(dev_ph[-1], float(np.abs(blk - np.conj(ph) * e).max()))
                # conventions: decided once per Dwann (the statement does not fix the sign of the shifts / of the phase)
                if okT:
                    conv = 1 if shift_eq[1] else (-1 if shift_eq[-1] else 0)
                    counts["shift_convention"][conv] = counts["shift_convention"].get(conv, 0) + 1
                    if conv == 0:
                        rep.violation("Dwann:shifts", dict(structure=st["key"], shell=sh, what="the lattice shifts T are neither p_map(a) - g(p_a) nor its negative"))
                conv = 1 if dev_ph[1] <= TOL_EXACT else (-1 if dev_ph[-1] <= TOL_EXACT else 0)
                counts["phase_convention"][conv] = counts["phase_convention"].get(conv, 0) + 1
                if conv == 0:
                    rep.violation(f"Dwann:block:{sh}", dict(structure=st["key"], shell=sh, k=kpt.tolist(), deviation_plus=dev_ph[1], deviation_minus=dev_ph[-1],
                                                            what="blocks are not exp(+-2 pi i k'.T) times the specification's orbital matrix"))
    if (counts["dwann"] == 0 or counts["maps"] == 0 or any(counts.get("frames_" + x, 0) == 0 for x in ("common", "site", "composite"))) and not rep.violations:
        raise MachineryError(f"Dwann cases incomplete (identity / common / site-dependent frames, composite orbitals): {counts}")
    rep.part("dwann_replay", counts={k: (v if not isinstance(v, dict) else {str(a): b for a, b in v.items()}) for k, v in counts.items()},
             max_unitarity_deviation=maxdev)


def hexagonal_cell(rep, d6h, shells, thorough):
    """numeric only: one hexagonal cell (lattice rotations are not signed permutations, rotation != rotation_cart).  The real
    group's Cartesian rotations are matched to the specification's D6h elements; Dwann of a site at the origin and of the
    honeycomb orbit of (1/3, 2/3, 1/4): unitarity, centre mapping, blocks = unimodular phase x specification matrix"""
    from irrep.spacegroup import SpaceGroup
    from wannierberri.symmetry.Dwann import Dwann
    from wannierberri.symmetry.orbitals import num_orbitals
    lattice = sc.lattice_of("hex")
    with quiet():
        sg = SpaceGroup.from_cell(real_lattice=lattice, positions=np.zeros((1, 3)), typat=[1], magmom=None, include_TR=True, spinor=False)
    elem_of = []
    for symop in sg.symmetries:
        Rc = np.asarray(symop.rotation_cart, dtype=float)
        d = [float(np.abs(Rc - e).max()) for e in d6h["elems"]]
        i = int(np.argmin(d))
        if d[i] > 1e-8:
            raise MachineryError("an operation of the hexagonal cell's space group is not an element of the specification's D6h")
        elem_of.append(i)
    if set(elem_of) != set(range(d6h["n"])):
        raise MachineryError(f"the hexagonal cell has {len(set(elem_of))} point operations, the specification's D6h {d6h['n']}")
    use = [sh for sh in shells if len(d6h["pres"][sh]) == d6h["n"] and (thorough or sh != "f")]
    rot = new_rotator()
    counts, maxdev = dict(dwann=0, shells=len(use)), 0.0
    kpt = np.array([3 / 16, 5 / 24, 7 / 20])
    for pos in (np.zeros((1, 3)), np.array([[1 / 3, 2 / 3, 0.25]])):
        # the orbit as the code generates it (a scalar Dwann needs no rotator / basis list)
        with quiet():
            good, dw0 = sc.guarded(rep, "Dwann", dict(cell="hexagonal", positions=pos.tolist()), Dwann, spacegroup=sg, positions=pos)
        ok, orb0 = sc.private(rep, "Dwann.orbit", lambda: np.array([np.asarray(p, dtype=float) for p in dw0.orbit])) if good else (False, None)
        if not ok:
            continue
        for sh in use:
            detail = dict(cell="hexagonal", positions=pos.tolist(), shell=sh)
            npnt, norb = len(orb0), num_orbitals(sh)
            with quiet():
                good, dw = sc.guarded(rep, "Dwann", detail, Dwann, spacegroup=sg, positions=orb0, orbital=sh, orbitalrotator=rot,
                                      basis_list=[np.eye(3)] * npnt, spinor=False)
            if not good:
                continue
            ok, orb = sc.private(rep, "Dwann.orbit", lambda: np.array([np.asarray(p, dtype=float) for p in dw.orbit]))
            if not ok:
                continue
            if len(orb) != npnt:
                rep.violation("Dwann:orbit", dict(detail, what="the orbit of a complete orbit has a different size", got=len(orb), expected=npnt))
                continue
            for isym, symop in enumerate(sg.symmetries):
                k2 = symop.transform_k(kpt)
                good, Dk = sc.guarded(rep, "Dwann.get_on_points", dict(detail, isym=isym), dw.get_on_points, kpt, k2, isym)
                if not good:
                    continue
                Dk = np.asarray(Dk)
                rep.case(("dwann_hex", sh, len(orb), isym))
                counts["dwann"] += 1
                dv = float(np.abs(Dk @ Dk.conj().T - np.eye(len(Dk))).max()) if Dk.shape == (npnt * norb,) * 2 else float("inf")
                maxdev = max(maxdev, dv)
                if dv > TOL:
                    rep.violation(f"Dwann:unitary:{sh}:hexagonal", dict(detail, isym=isym, deviation=dv))
                    continue
                blocks = _blocks_of(Dk, npnt, norb)
                e = sc.expected_exact(d6h, sh, elem_of[isym])
                if e is None:
                    e = sc.expected_hybrid(d6h, sh, elem_of[isym])
                for a in range(npnt):
                    b = blocks[a]
                    img = symop.transform_r(orb[a])
                    if b is None or np.abs((img - orb[b] + 0.5) % 1 - 0.5).max() > 1e-8:
                        rep.violation("Dwann:centre_map:hexagonal", dict(detail, isym=isym, site=a, image=np.asarray(img).tolist(), got_block=b))
                        continue
                    if e is not None:
                        blk = Dk[b * norb:(b + 1) * norb, a * norb:(a + 1) * norb]
                        z = np.vdot(e, blk) / np.vdot(e, e)
                        dv = max(float(np.abs(blk - z * e).max()), abs(abs(z) - 1))
                        maxdev = max(maxdev, dv)
                        if dv > TOL:
                            rep.violation(f"Dwann:block:{sh}:hexagonal", dict(detail, isym=isym, rotation_cart=np.asarray(symop.rotation_cart).tolist(),
                                                                              expected_up_to_phase=e.tolist(), got=np.asarray(blk).tolist(), deviation=dv))
    # local frames built by Projection (projections.py): a common non-identity frame (xaxis at 60 degrees, rotate_basis=False),
    # site-dependent frames (rotate_basis=True), composite orbitals kept in one block (do_not_split_projections)
    from wannierberri.symmetry.projections import Projection
    counts["projection_frames"] = 0
    xax = [0.5, SQ3 / 2, 0.0]
    for pos in (np.zeros((1, 3)), np.array([[1 / 3, 2 / 3, 0.25]])):
        for orbital, kw, label in (("p", dict(xaxis=xax, rotate_basis=False), "common"), ("pz;s", dict(xaxis=xax, rotate_basis=False, do_not_split_projections=True), "common composite"),
                                   ("sp2", dict(rotate_basis=True), "site"), ("s;p", dict(xaxis=xax, rotate_basis=True, do_not_split_projections=True), "site composite")):
            if not all(x in use for x in parts_of(orbital)):
                continue
            detail = dict(cell="hexagonal", positions=pos.tolist(), orbital=orbital, frames=label)
            with quiet():
                good, proj = sc.guarded(rep, "Projection", detail, Projection, position_num=pos, orbital=orbital, spacegroup=sg, **kw)
            ok, pb = sc.private(rep, "Projection.positions/basis_list", lambda: (np.asarray(proj.positions, dtype=float).reshape(-1, 3), [np.asarray(b, dtype=float) for b in proj.basis_list])) if good else (False, None)
            if not ok:
                continue
            ppos, frames = pb
            with quiet():
                good, dw = sc.guarded(rep, "Dwann", detail, Dwann, spacegroup=sg, positions=ppos, orbital=orbital, orbitalrotator=new_rotator(), basis_list=frames, spinor=False)
            ok, orb = sc.private(rep, "Dwann.orbit", lambda: np.array([np.asarray(p, dtype=float) for p in dw.orbit])) if good else (False, None)
            if not ok or len(orb) != len(ppos) or np.abs((orb - ppos + 0.5) % 1 - 0.5).max() > 1e-8:
                continue
            npnt, norb = len(orb), num_orbitals(orbital)
            for isym, symop in enumerate(sg.symmetries):
                good, Dk = sc.guarded(rep, "Dwann.get_on_points", dict(detail, isym=isym), dw.get_on_points, kpt, symop.transform_k(kpt), isym)
                if not good:
                    continue
                Dk = np.asarray(Dk)
                rep.case(("dwann_hex_frames", orbital, label, len(orb), isym))
                counts["projection_frames"] += 1
                dv = float(np.abs(Dk @ Dk.conj().T - np.eye(len(Dk))).max()) if Dk.shape == (npnt * norb,) * 2 else float("inf")
                maxdev = max(maxdev, dv)
                if dv > TOL:
                    rep.violation(f"Dwann:unitary:{orbital}:hexagonal", dict(detail, isym=isym, deviation=dv))
                    continue
                blocks = _blocks_of(Dk, npnt, norb)
                Rc = np.asarray(symop.rotation_cart, dtype=float)
                for a in range(npnt):
                    b = blocks[a]
                    if b is None:
                        rep.violation("Dwann:centre_map:hexagonal", dict(detail, isym=isym, site=a, got_block=b))
                        continue
                    M = frames[b] @ Rc @ frames[a].T
                    d = [float(np.abs(M - e).max()) for e in d6h["elems"]]
                    i = int(np.argmin(d))
                    if d[i] > 1e-8:
                        raise MachineryError("a local frame built by Projection on the hexagonal cell is not an element of the specification's D6h")
                    if not all(i in d6h["pres"][x] for x in parts_of(orbital)):
                        continue
                    e = expected_any(d6h, orbital, i)
                    blk = Dk[b * norb:(b + 1) * norb, a * norb:(a + 1) * norb]
                    z = np.vdot(e, blk) / np.vdot(e, e)
                    dv = max(float(np.abs(blk - z * e).max()), abs(abs(z) - 1))
                    maxdev = max(maxdev, dv)
                    if dv > TOL:
                        rep.violation(f"Dwann:block:{orbital}:hexagonal", dict(detail, isym=isym, site=a, local_rotation=M.tolist(), expected_up_to_phase=e.tolist(),
                                                                               got=np.asarray(blk).tolist(), deviation=dv))
    if (counts["dwann"] == 0 or counts["projection_frames"] == 0) and not rep.violations and "skipped_private" not in rep.parts:
        raise MachineryError(f"no Dwann case on the hexagonal cell: {counts}")
    rep.part("hexagonal_cell_numeric_only", counts=counts, max_deviation=maxdev)


QUAT_INV = ["InO3", "RepOrthogonal", "RepParity", "RepHom", "RepInverse", "Compression"]
PARTNERS = [np.array([[0, -1, 0], [1, 0, 0], [0, 0, 1.0]]), np.array([[0, 0, 1], [1, 0, 0], [0, 1, 0.0]]), -np.eye(3), np.diag([1.0, -1.0, -1.0])]


def rational_rotations(rep, shells, norms, npart, nreplay, nf, rng, workers, sgns=(1, -1)):
    """exact non-crystallographic rotations (integer quaternions): TLC model + replay on the real OrbitalRotator"""
    cfg = ("SPECIFICATION Spec\nCONSTANTS\n  QMAX = 2\n  NORMS = {%s}\n  NPART = %d\n  Variant = \"code\"\n  SGNS <- %s\n" % (", ".join(str(n) for n in norms), npart, "SgnsBoth" if len(sgns) == 2 else "SgnsImproper") +
           "".join(f"INVARIANT {i}\n" for i in QUAT_INV) + "CHECK_DEADLOCK FALSE\n")
    name = sc.uniq("c21_quat")
    st = ftable.enumerate_states("MC_OrbRepQuat.tla", cfg, name, workers=workers)
    if ftable.spec_violation(rep, st, "c21_quat"):
        return
    rep.add_tlc("c21_quat", st)
    states = sorted(ftable.dump_states(st), key=lambda s: (s["q"], s["sgn"]))
    if not states or not any(x[2] not in (1, 2) for s in states for row in s["R"] for x in row):
        raise MachineryError("no non-crystallographic rational rotation enumerated")
    maxdev, counts = {}, {}
    nfdone = 0
    exact_shells = [sh for sh in shells if sc.spec_indices(sh) is not None]
    full = [sh for sh in ("s", "p", "d", "sp3") if sh in shells]
    for s in (states if nreplay >= len(states) else rng.sample(states, nreplay)):
        R = sc.mat(s["R"])
        g = dict(dp=[sc.mat(s["dp"])], dd=[sc.mat(s["dd"])])
        where = dict(quaternion=s["q"], sign=s["sgn"])
        rot = new_rotator()
        Dr = {}
        for sh in exact_shells + [x for x in full if x not in exact_shells] + (["f"] if nfdone < nf and "f" in shells else []):
            if sh not in full + ["f"] and not sc.span_preserved(sh, R):
                # sub-shell hybrid not preserved by this rotation: outside the statement
                continue
            M = call_rot(rep, rot, sh, R)
            if M is None:
                continue
            rep.case(("quat", s["q"], s["sgn"], sh))
            if law_checks(rep, sh, R, M, g, 0, where, maxdev, counts):
                Dr[sh] = M
        nfdone += 1
        for sh in [x for x in full + ["f"] if x in Dr]:
            for P in (PARTNERS[:npart] if sh != "f" else PARTNERS[:1]):
                for A, B in ((R, P), (P, R)):
                    rot2 = new_rotator()
                    Ms = [call_rot(rep, rot2, sh, X) for X in (A, B, A @ B)]
                    if any(m is None for m in Ms):
                        continue
                    dv = float(np.abs(Ms[0] @ Ms[1] - Ms[2]).max())
                    maxdev["hom"] = max(maxdev.get("hom", 0.0), dv)
                    rep.case(("quat_hom", s["q"], s["sgn"], sh, A is R, P.tolist()))
                    if dv > TOL:
                        rep.violation(f"OrbitalRotator:homomorphism:{sh}", dict(A=A.tolist(), B=B.tolist(), deviation=dv))
    rep.part("rational_rotations", tlc_states=len(states), counts=counts, max_deviation=maxdev)
    rep.sample(dict(quaternion=states[len(states) // 2]["q"], sign=states[len(states) // 2]["sgn"], rot_cart=sc.mat(states[len(states) // 2]["R"]).tolist()))


def random_rotations(rep, shells, npairs, nf, rng):
    """numeric only: random proper/improper rotations; a fresh rotator per product (see cache_tolerance)"""
    from scipy.spatial.transform import Rotation
    nprs = np.random.RandomState(rng.randrange(2**31))
    full = [sh for sh in shells if sh in ("s", "p", "d", "sp3")]
    axis_z = [sh for sh in shells if sh in ("pz", "pxy", "sp2")]
    axis_x = [sh for sh in shells if sh in ("sp", "p2")]
    maxdev, counts = {}, {}
    ncase = 0

    def rnd(axis=None):
        if axis is None:
            R = Rotation.random(random_state=nprs).as_matrix()
            return R * nprs.choice([1, -1])
        ang = nprs.uniform(0.05, 2 * np.pi - 0.05)
        v = np.zeros(3)
        v[axis] = 1
        R = Rotation.from_rotvec(ang * v).as_matrix()
        # optional mirror containing the axis, mirror perpendicular to it, two-fold axis perpendicular
        m1 = np.diag([1.0, 1.0, 1.0])
        m1[(axis + 1) % 3, (axis + 1) % 3] = nprs.choice([1, -1])
        m2 = np.diag([1.0, 1.0, 1.0])
        m2[axis, axis] = nprs.choice([1, -1])
        return R @ m1 @ m2

    for n in range(npairs):
        for shs, axis in ((full + (["f"] if n < nf and "f" in shells else []), None), (axis_z, 2), (axis_x, 0)):
            A, B = rnd(axis), rnd(axis)
            mats = (A, B, A @ B)
            if min(np.abs(X - Y).max() for a, X in enumerate(mats) for Y in mats[a + 1:]) < 1e-2:
                continue        # nearly coincident rotations are the subject of cache_tolerance, not of this sub-check
            for sh in shs:
                if not all(sc.span_preserved(sh, X) for X in mats):
                    raise MachineryError(f"random rotation about axis {axis} does not preserve the span of {sh}")
                rot = new_rotator()
                Ds = []
                for X in mats:
                    M = call_rot(rep, rot, sh, X)
                    if M is None or not law_checks(rep, sh, X, M, sc.np_rep(X), 0, "random", maxdev, counts):
                        break
                    Ds.append(M)
                if len(Ds) < 3:
                    continue
                ncase += 1
                rep.case(("random", sh, n, axis))
                if axis is None:        # a generic common frame b: D_b(R) = D(b R b^T), and the composition law in that frame
                    b = rnd()
                    Fs = [call_rot(rep, new_rotator(), sh, X, basis1=b, basis2=b) for X in mats]
                    if all(F is not None for F in Fs):
                        counts["generic_frame"] = counts.get("generic_frame", 0) + 1
                        for X, F in zip(mats, Fs):
                            law_checks(rep, sh, b @ X @ b.T, F, sc.np_rep(b @ X @ b.T), 0, "random, generic frame", maxdev, counts)
                        dvf = float(np.abs(Fs[0] @ Fs[1] - Fs[2]).max())
                        if dvf > TOL:
                            rep.violation(f"OrbitalRotator:local_basis:homomorphism:{sh}", dict(shell=sh, frame=b.tolist(), A=A.tolist(), B=B.tolist(), deviation=dvf))
                dv = float(np.abs(Ds[0] @ Ds[1] - Ds[2]).max())
                maxdev["hom"] = max(maxdev.get("hom", 0.0), dv)
                if dv > TOL:
                    rep.violation(f"OrbitalRotator:homomorphism:{sh}:random", dict(shell=sh, A=A.tolist(), B=B.tolist(), deviation=dv))
    from scipy.linalg import block_diag
    for comb in [c for c in ("s;p", "p;d", "s;p;d") if all(x in shells for x in parts_of(c))]:
        A, b1, b2 = rnd(), rnd(), rnd()
        for kw in ({}, dict(basis1=b1, basis2=b1), dict(basis1=b1, basis2=b2)):
            M = call_rot(rep, new_rotator(), comb, A, **kw)
            X = A if not kw else kw["basis2"] @ A @ kw["basis1"].T
            exp = block_diag(*[sc.expected_exact(sc.np_rep(X), x, 0) for x in parts_of(comb)])
            if M is None:
                continue
            counts["composite"] = counts.get("composite", 0) + 1
            rep.case(("random_composite", comb, len(kw)))
            if M.shape != exp.shape or np.abs(M - exp).max() > TOL:
                rep.violation("OrbitalRotator:combined", dict(orb=comb, rot_cart=A.tolist(), frames={k: v.tolist() for k, v in kw.items()},
                                                              what="a composite symbol differs from the block matrix of its parts (in the given local frames)"))
    rep.part("numeric_only", what="random O(3) rotations (full shells, sp3) and random rotations about / mirrors through the "
                                  "preserved axis for pz, pxy, sp2 (z) and sp, p2 (x): orthogonality, D(A)D(B) = D(AB), value against the "
                                  "harness's floating-point s/p/d formula (hybrids through hybrids_coef), character of f",
             cases=ncase, counts=counts, max_deviation=maxdev, tolerance=TOL)


def cache_tolerance(rep, shells, rng):
    """numeric only: composition law for rotations that nearly coincide, asked of ONE rotator instance (as Dwann does for the
    operations and local bases of one projection).  D(A) D(B) must equal D(AB) to 1e-9 also when AB differs from A by only
    5e-5 .. 5e-7 (deciding case for the cache tolerance of the rotator: 1e-4 before repair 94903986, 1e-8 since)"""
    nprs = np.random.RandomState(rng.randrange(2**31))

    def rz(t):
        c, s = np.cos(t), np.sin(t)
        return np.array([[c, -s, 0.0], [s, c, 0.0], [0.0, 0.0, 1.0]])
    worst = 0.0
    ncase = 0
    for sh in [x for x in ("p", "d") if x in shells]:
        for eps in (5e-5, 2e-5, 5e-6, 5e-7):
            t = float(nprs.uniform(0.2, 1.2))
            A, B = rz(t), rz(eps)
            rot = new_rotator()
            Ms = [call_rot(rep, rot, sh, X) for X in (A, B, A @ B)]
            fresh = call_rot(rep, new_rotator(), sh, A @ B)
            if any(m is None for m in Ms) or fresh is None:
                continue
            ncase += 1
            rep.case(("cache", sh, eps))
            dv = float(np.abs(Ms[0] @ Ms[1] - Ms[2]).max())
            dvf = float(np.abs(Ms[0] @ Ms[1] - fresh).max())
            worst = max(worst, dv)
            if dv > TOL:
                rep.violation("OrbitalRotator:cache_tolerance",
                              dict(shell=sh, A=f"rotation about z by {t!r}", B=f"rotation about z by {eps!r}", deviation_same_instance=dv,
                                   deviation_fresh_instance=dvf, same_object_returned=bool(np.array_equal(Ms[0], Ms[2])),
                                   what="one OrbitalRotator instance returns for A.B the cached matrix of a nearby rotation (its cache identifies "
                                        "matrices closer than its tolerance): D(A) D(B) differs from D(AB) by about |B - 1|; a fresh instance is exact",
                                   reproduce="from wannierberri.symmetry.orbitals import OrbitalRotator; import numpy as np; "
                                             "rz=lambda t: np.array([[np.cos(t),-np.sin(t),0],[np.sin(t),np.cos(t),0],[0,0,1.]]); r=OrbitalRotator(); "
                                             "a=r('p',rot_cart=rz(0.3)); b=r('p',rot_cart=rz(0.30005)); print(a is b, "
                                             "abs(b-OrbitalRotator()('p',rot_cart=rz(0.30005))).max())"))
    rep.part("cache_tolerance_numeric_only", cases=ncase, max_deviation=worst)


def long_history(rep, groups, shells, rng, ndistinct=420):
    """numeric only: ONE long-lived rotator (as SymmetrizerSAWF keeps one) is asked for several hundred distinct rotations (elements of one
    group in local frames of the other, b2 R b1^T, and random ones), interleaved with re-queries of earlier ones; every answer must equal
    the answer of a fresh instance (1e-12), and D(A) D(B) = D(AB) must hold on the long-lived instance for A from the beginning and B from
    the end of the history.  Key OrbitalRotator:long_history"""
    from scipy.spatial.transform import Rotation
    nprs = np.random.RandomState(rng.randrange(2**31))
    pool = [e for g in groups for e in g["elems"]]
    rots, seen = [], set()
    while len(rots) < ndistinct:
        if len(rots) % 3 == 2:
            R = Rotation.random(random_state=nprs).as_matrix() * nprs.choice([1, -1])
        else:
            b1, R0, b2 = (pool[rng.randrange(len(pool))] for _ in range(3))
            R = b2 @ R0 @ b1.T
        key = tuple(np.round(R, 3).ravel() + 0.0)
        if key not in seen:
            seen.add(key)
            rots.append(R)
    long_lived = new_rotator()
    use = [sh for sh in ("p", "d") if sh in shells]
    worst, nq, nre, nhom = 0.0, 0, 0, 0

    def ask(n, sh):
        nonlocal worst, nq
        M = call_rot(rep, long_lived, sh, rots[n])
        F = call_rot(rep, new_rotator(), sh, rots[n])
        if M is None or F is None:
            return None
        nq += 1
        dv = float(np.abs(M - F).max()) if M.shape == F.shape else float("inf")
        worst = max(worst, dv)
        if dv > 1e-12:
            rep.violation("OrbitalRotator:long_history", dict(shell=sh, query_number=nq, position_in_history=n, rot_cart=rots[n].tolist(), deviation=dv,
                                                              what="a rotator that has answered many distinct rotations returns another matrix than a fresh instance "
                                                                   "for the same rotation (stale cache entry)"))
        return M
    for n in range(ndistinct):
        for sh in use:
            if sh == "p" or n % 4 == 0:
                rep.case(("history", sh, n))
                ask(n, sh)
        if n % 5 == 4:          # re-query an earlier rotation
            m = rng.randrange(n)
            nre += 1
            ask(m, "p")
            if m % 4 == 0 and "d" in use:
                ask(m, "d")
    for _ in range(12):         # composition across the history, on the long-lived instance
        a, b = rng.randrange(40), ndistinct - 1 - rng.randrange(40)
        Ms = [call_rot(rep, long_lived, "p", X) for X in (rots[a], rots[b], rots[a] @ rots[b])]
        if any(M is None for M in Ms):
            continue
        nhom += 1
        dv = float(np.abs(Ms[0] @ Ms[1] - Ms[2]).max())
        worst = max(worst, dv if dv > 1e-9 else 0.0)
        if dv > TOL:
            rep.violation("OrbitalRotator:long_history", dict(shell="p", A=rots[a].tolist(), B=rots[b].tolist(), deviation=dv,
                                                              what="D(A) D(B) differs from D(AB) on a rotator with a long history"))
    if nq < ndistinct and not rep.violations:
        raise MachineryError("long-history sub-check made too few queries")
    rep.part("long_history_numeric_only", distinct_rotations=ndistinct, queries=nq, requeries=nre, compositions=nhom, max_deviation=worst)


def check(pid, tier):
    rep = Report(pid, tier, "exploration")
    try:
        return _check(rep, tier)
    except Exception:
        if rep.violations:
            rep.finish()
        raise
    finally:
        sc.cleanup(keep=any(k.startswith("spec:") for k, _ in rep.violations))      # TLC output is referenced only by spec:* violations


def _check(rep, tier):
    thorough = tier == "thorough"
    rng = random.Random(seed() * 7919 + 21)
    workers = sc.WORKERS
    code_shells = all_shells()
    rep.rule("TLC generates each point group from its generators and tabulates the multiplication table and the exact s/p/d matrices; "
             "a case = one (shell, element) or (shell, g, h) table entry (g, h in the stabiliser of the shell's span) replayed on the real "
             "OrbitalRotator, one (structure, shell, operation) of Dwann, or one recorded matrix/product validated by TLC; distinct by "
             "these tuples")
    rep.assume("exact comparison of s, p, d and sub-shell hybrids uses 1e-10 (entries are 0, 1/2, sqrt(3)/2, ...); numeric laws use 1e-9 "
               "(observed deviations 1e-15)")
    rep.assume("hybrid shells are only required to be orthogonal for rotations that map their span onto itself (OrbRep!Preserves); outside "
               "that domain the code's answer is not constrained")
    rep.assume("orbital order and hybrid coefficients are read from the public tables orbitals_sets_dic / hybrids_coef")

    names = ["Oh", "D6h"] + (["Td", "O", "D4h", "D3d", "C6v", "D2h"] if thorough else [])
    groups = []
    Dcache = {}
    shells = code_shells
    for name in names:
        st, g = sc.orbrep_group(name, sc.uniq(f"c21_{name}"), workers=workers)
        if ftable.spec_violation(rep, st, f"c21_{name}"):
            continue
        rep.add_tlc(f"c21_{name}", st)
        shells = [sh for sh in code_shells if sh in g["pres"]]
        if set(shells) != set(code_shells) or set(shells) != set(g["pres"]):     # a new / removed shell is not an error of the code
            rep.part("shells", unknown_to_spec=sorted(set(code_shells) - set(g["pres"])), not_in_code=sorted(set(g["pres"]) - set(code_shells)))
        if not all(sh in shells for sh in ("s", "p", "d")):
            raise MachineryError(f"the code's shells {code_shells} lack s, p or d")
        groups.append(g)
        Dcache[name] = replay_group(rep, g, shells, thorough, rng)
        if len(rep.cov["samples"]) < 2 and 1 in Dcache[name]["p"]:
            rep.sample(dict(group=name, element=g["elems"][1].tolist(), p_matrix_spec=g["dp"][1].tolist(),
                            p_matrix_code=Dcache[name]["p"][1].tolist(), table_row_1=g["table"][1][:8]))
    if not groups:
        return rep.finish()

    # sensitivity: plausible wrong variants must be rejected by TLC
    stt = tlc.run_tlc("MC_OrbRep.tla", sc.orbrep_cfg("D3d", "transposed"), sc.uniq("c21_transposed"), workers=workers, timeout=1500)
    if not stt.get("violation") or stt["violation"][1] not in ("RepHomP", "RepHomD", "SubHom"):
        raise MachineryError(f"sensitivity self-test failed: D = R^T (anti-homomorphism) must violate the homomorphism invariant, got {stt.get('violation')}")
    sens = dict(transposed=stt["violation"][1])
    stn = tlc.run_tlc("MC_OrbRep.tla", sc.orbrep_cfg("D3d", "noframe"), sc.uniq("c21_noframe"), workers=workers, timeout=1500)
    if not stn.get("violation") or stn["violation"][1] != "RepFrame":
        raise MachineryError(f"sensitivity self-test failed: ignoring the local frame must violate RepFrame, got {stn.get('violation')} {stn.get('error')}")
    sens["frame_ignored"] = stn["violation"][1]
    if thorough:
        stx = tlc.run_tlc("MC_OrbRep.tla", sc.orbrep_cfg("D4h", "xyz"), sc.uniq("c21_xyz"), workers=workers, timeout=1500)
        if not stx.get("violation"):
            raise MachineryError("sensitivity self-test failed: p shell in (x,y,z) order must violate Compression")
        sens["xyz_order"] = stx["violation"][1]
    rep.part("sensitivity", **sens)
    # binding self-test (spec -> code): a wrongly ordered expected p matrix must differ from the code's on some element
    g0 = groups[0]
    perm = [1, 2, 0]
    pc = Dcache[g0["name"]]["p"]
    if pc and all(np.abs(sc.expected_exact(g0, "p", i)[np.ix_(perm, perm)] - pc[i]).max() < TOL_EXACT for i in pc):
        raise MachineryError("binding self-test failed: a wrongly ordered expected p matrix is not distinguished")

    # Dwann on the specification's structures
    oh = groups[0]
    if oh["name"] == "Oh":
        lats, nsites, poscat = (["cubic", "tetra", "ortho"], [1, 2], "small") if thorough else (["tetra"], [1, 2], "tiny")
        sts, structs, excl = sc.symorb_structures(sc.uniq("c21_symorb"), lats, nsites, poscat, workers=workers)
        if not ftable.spec_violation(rep, sts, "c21_symorb"):
            rep.add_tlc("c21_symorb", sts)
            rep.part("c21_symorb_structures", built=len(structs), excluded_nonprimitive=excl)
            if not structs:
                raise MachineryError("no structure enumerated")
            if not any(any(t != (0, 0, 0) for m in s["tvec"] for t in m) for s in structs):
                raise MachineryError("no structure with a non-zero lattice shift T")
            sel = structs if thorough else rng.sample(structs, min(len(structs), 14))
            dwann_replay(rep, sel, oh, shells, thorough, rng)
    d6h = [g for g in groups if g["name"] == "D6h"]
    if d6h:
        hexagonal_cell(rep, d6h[0], shells, thorough)

    # code -> spec (the corrupted records of the binding self-test travel in the same batch)
    recs = records(rep, groups[:2], shells, nmat=250 if thorough else 16, nhom=350 if thorough else 24, rng=rng)
    mats = [r for r in recs if r["fn"] == "mat"]
    homs = [r for r in recs if r["fn"] == "hom" and r["shells"]]
    if not mats or not homs:
        if rep.violations:
            return rep.finish()
        raise MachineryError("no matrix / product record")
    badrec = copy.deepcopy(mats[0])
    badrec["p"][0][1], badrec["p"][1][0] = badrec["p"][1][0], badrec["p"][0][1]
    badrec["p"][0][0] = [1, 1, 2]
    badhom = copy.deepcopy(homs[0])
    badhom["shells"][0]["hom"] = 12
    nreal = len(recs)
    stv, bad = ftable.validate_records("OrbRepRec.tla", ftable.REC_CFG, recs + [badrec, badhom], sc.uniq("c21"))
    rep.add_tlc("c21_records", dict(stv, distinct=stv["distinct"] - 2, generated=stv["generated"] - 4))
    rep.add_traces(nreal)
    if "p_equals_spec" not in bad.get(nreal, []) or "homomorphism" not in bad.get(nreal + 1, []):
        raise MachineryError(f"binding self-test failed: corrupted records accepted ({ {k: v for k, v in bad.items() if k >= nreal} })")
    rep.part("binding_selftest", corrupted_records_rejected={k - nreal: v for k, v in bad.items() if k >= nreal})
    info = {}
    for i, clauses in bad.items():
        if i >= nreal:
            continue
        r = recs[i]
        hard = sorted(c for c in clauses if c not in INFO_CLAUSES)
        for c in clauses:
            if c in INFO_CLAUSES:
                info[c] = info.get(c, 0) + 1
        if hard:
            rep.violation(f"OrbitalRotator:recorded:{r['fn']}:{'+'.join(hard)}", dict(record=r, failing_clauses=hard))
    if info:
        raise MachineryError(f"the harness's floating-point domain filter disagrees with OrbRep!Preserves on {info} records")
    rep.sample({k: v for k, v in recs[0].items() if k in ("fn", "R", "p")})

    rational_rotations(rep, shells, norms=range(1, 17) if thorough else [5], npart=4 if thorough else 1, nreplay=200 if thorough else 16,
                       nf=6 if thorough else 1, rng=rng, workers=workers, sgns=(1, -1) if thorough else (-1,))
    random_rotations(rep, shells, npairs=40 if thorough else 6, nf=12 if thorough else 2, rng=rng)
    cache_tolerance(rep, shells, rng)
    long_history(rep, groups[:2], shells, rng, ndistinct=600 if thorough else 420)
    return rep.finish()
