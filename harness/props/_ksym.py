"""Shared helpers of the C03 / C07 checks (not a property module: the leading underscore hides it from discovery).

* the catalogue of point groups of spec/KSymBase.tla as wannierberri generator lists + lattices,
* projection of a real PointGroup to the specification's elements (A, inv, tr),
* tiny real systems carrying those groups, real Grid / K-list / Data_K.kpoints_all projected to integers,
* reading TLC dumps that carry the (large) group variable,
* synthetic calculators that inject integer fields through data_K.kpoints_all.
"""
import os
import re
import numpy as np

from .. import tlaparse
from ..common import MachineryError, quiet, WORK

SQ3 = np.sqrt(3.0)
LAT_CART = 2.0 * np.eye(3)
LAT_HEX = np.array([[1.0, 0.0, 0.0], [-0.5, SQ3 / 2, 0.0], [0.0, 0.0, 1.5]])


def _rot3d():
    from wannierberri.symmetry.point_symmetry import Rotation
    return Rotation(3, [1, 1, 1])


# name -> generator list as given to System.set_pointgroup (strings are products of the pre-defined operations)
CART = {
    "C1": [], "Ci": ["Inversion"], "T": ["TimeReversal"], "C2": ["C2z"], "Cs": ["Mz"], "C2v": ["Mx", "My"],
    "D2h": ["Mx", "My", "Mz"], "C4": ["C4z"], "C4v": ["C4z", "Mx"], "C4h": ["C4z", "Inversion"],
    "D4hT": ["C4z", "Mx", "Mz", "TimeReversal"], "mC2x": ["C2x*TimeReversal"], "mC4": ["C4z*TimeReversal"],
    "mFe": ["C4z", "C2x*TimeReversal", "Inversion"], "mC4v": ["C4z", "Mx*TimeReversal"],
    "T23": ["@C3d", "C2z", "C2x"], "O": ["C4z", "C4x"], "Oh": ["C4z", "C4x", "Inversion"],
    "SiT": ["C4z", "C4x", "TimeReversal"],
}
HEX = {
    "H3": ["C3z"], "H6": ["C6z"], "H3T": ["C3z", "TimeReversal"], "H6v": ["C6z", "Mx"],
    "TeT": ["C3z", "C2x", "TimeReversal"], "mH6v": ["C6z", "Mx", "C2x*TimeReversal"],
}


def is_cart(name):
    return name in CART


def lattice_of(name):
    return LAT_CART if name in CART else LAT_HEX


def generators_of(name):
    gens = CART[name] if name in CART else HEX[name]
    return [(_rot3d() if g == "@C3d" else g) for g in gens]


_SYSTEMS = {}


def make_system(name, nw=1, ham=None, periodic=(True, True, True)):
    """a real System_R (one s-like orbital at the origin unless `ham` is given) whose point group is catalogue[name]"""
    import wannierberri as wb
    key = (name, nw, tuple(periodic))
    if ham is None and key in _SYSTEMS:
        return _SYSTEMS[key]
    cache = ham is None
    if ham is None:
        ham = {(0, 0, 0): {(0, 0): 1.0}}
        for R in ((1, 0, 0), (0, 1, 0), (0, 0, 1)):
            ham[R] = {(0, 0): 0.5}
            ham[tuple(-x for x in R)] = {(0, 0): 0.5}
    with quiet():
        s = wb.system.System_R.from_sparse(real_lattice=lattice_of(name), wannier_centers_red=np.zeros((nw, 3)),
                                           matrices={"Ham": ham})
        s.periodic = np.array(periodic)
        s.set_pointgroup(generators_of(name))
    if cache:
        _SYSTEMS[key] = s
    return s


def project_group(pg):
    """real PointGroup -> frozenset of (A as tuple of rows, inv, tr): proper rotation in reduced coordinates (column action)"""
    B = pg.recip_lattice
    Bi = np.linalg.inv(B)
    out = set()
    for g in pg.symmetries:
        M = (B @ g.R.T @ Bi).T
        Mi = np.rint(M)
        if np.abs(M - Mi).max() > 1e-9:
            raise MachineryError(f"symmetry operation is not integral in reduced coordinates: {M}")
        out.add((tuple(tuple(int(x) for x in row) for row in Mi), bool(g.Inv), bool(g.TR)))
    if len(out) != len(pg.symmetries):
        raise MachineryError("PointGroup.symmetries contains duplicates after projection")
    return frozenset(out)


def spec_group(gset):
    """parsed TLA value of gset -> same representation as project_group"""
    out = set()
    for g in gset:
        d = dict(g) if not isinstance(g, dict) else g
        out.add((tuple(tuple(r) for r in d["A"]), bool(d["inv"]), bool(d["tr"])))
    return frozenset(out)


def act_k(g, p, n):
    """ActK of KSymBase for g = (A, inv, tr)"""
    A, inv, tr = g
    s = (-1 if inv else 1) * (-1 if tr else 1)
    return tuple((s * sum(((A[i][j] * n[i]) // n[j]) * p[j] for j in range(3))) % n[i] for i in range(3))


def symmetric_grid(n, G):
    return all((A[i][j] * n[i]) % n[j] == 0 for (A, _, _) in G for i in range(3) for j in range(3))


# ----------------------------------------------------------------------------------------------------------------
# reading dumps


def iter_dump(path, want=None, drop=("gset",), keep_first_of=None):
    """yields parsed states of a TLC dump. want: substring that must occur in the state text; drop: variables not parsed.
    keep_first_of: (variable name, dict) -> the dropped variable `gset` is parsed once per distinct value of that variable
    and stored in the dict"""
    with open(path) as f:
        text = f.read()
    parts = re.split(r"(?m)^State \d+:\s*$", text)
    for body in parts[1:]:
        if want is not None and want not in body:
            continue
        chunks = re.split(r"(?m)^/\\ ", body)
        keep = []
        dropped = {}
        for ch in chunks:
            ch = ch.strip()
            if not ch:
                continue
            m = re.match(r"([A-Za-z_][A-Za-z0-9_]*)\s*=\s*", ch)
            if m and m.group(1) in drop:
                dropped[m.group(1)] = ch[m.end():]
                continue
            keep.append("/\\ " + ch)
        st = tlaparse.parse_state_body("\n".join(keep))
        if keep_first_of is not None:
            var, store = keep_first_of
            if st[var] not in store and "gset" in dropped:
                store[st[var]] = spec_group(tlaparse.parse_value(dropped["gset"]))
        yield st


# ----------------------------------------------------------------------------------------------------------------
# real grid -> integers


class NonIntegral(Exception):
    pass


def to_int(a, what, tol=1e-7):
    a = np.asarray(a, dtype=float)
    r = np.rint(a)
    if a.size and np.abs(a - r).max() > tol:
        raise NonIntegral(f"{what} is not integral: max deviation {np.abs(a - r).max():.3e}")
    return r.astype(int)


def real_klist(system, div, fft, use_sym, with_ksets=True):
    """real Grid -> ([(x, w)], [kset as list of dense-grid points], grid).  Raises whatever Grid raises."""
    import wannierberri as wb
    from wannierberri.data_K import get_data_k_class_from_system
    with quiet():
        grid = wb.Grid(system=system, NKdiv=list(div), NKFFT=list(fft))
        KL = grid.get_K_list(use_symmetry=use_sym)
    if tuple(int(x) for x in grid.div) != tuple(div) or tuple(int(x) for x in grid.FFT) != tuple(fft):
        raise MachineryError(f"Grid changed the requested factorisation {div}x{fft} -> {grid.div}x{grid.FFT}")
    dv = np.array(div)
    N = dv * np.array(fft)
    klist = []
    ksets = []
    cls = get_data_k_class_from_system(system)
    for K in KL:
        x = to_int(K.K * dv, "K * NKdiv")
        w = int(to_int(K.factor * np.prod(dv), "factor * prod(NKdiv)"))
        klist.append((tuple(int(v) for v in x), w))
        if with_ksets:
            d = cls(system, dK=K.Kp_fullBZ, grid=grid, Kpoint=K)
            kp = d.kpoints_all
            if kp.min() < 0 or kp.max() >= 1:
                raise NonIntegral("kpoints_all outside [0,1)")
            ks = to_int(kp * N[None, :], "kpoints_all * N")
            ksets.append([tuple(int(v) % int(N[i]) for i, v in enumerate(row)) for row in ks])
            if d.nk != len(ksets[-1]) or tuple(int(v) for v in d.NKFFT) != tuple(fft):
                raise MachineryError("Data_K.nk / NKFFT inconsistent with the grid")
    return klist, ksets, grid


def flat_index(p, n):
    return p[2] + n[2] * (p[1] + n[1] * p[0])


# ----------------------------------------------------------------------------------------------------------------
# synthetic calculators: results are exact functions of data_K.kpoints_all


class FieldIntegrator:
    """Calculator whose per-K result is  (1/nk) * sum_{k in data_K.kpoints_all} table[:, index(k)]  as an EnergyResult:
    table has shape (nrows, Ntot) + (3,)*rank; the 'energy' axis enumerates the rows (different fields)."""
    comment = "synthetic field integrator"
    allow_path = False
    allow_grid = True

    def __init__(self, N, table, rank, tTR, tInv, normalise=True):
        self.N = np.array(N)
        self.table = np.asarray(table, dtype=float)
        self.rank = rank
        self.tTR, self.tInv = tTR, tInv
        self.normalise = normalise
        self.E = np.arange(self.table.shape[0], dtype=float)
        self.seen = []

    def indices(self, data_K):
        kp = data_K.kpoints_all
        p = to_int(kp * self.N[None, :], "kpoints_all * N") % self.N[None, :]
        return p[:, 2] + self.N[2] * (p[:, 1] + self.N[1] * p[:, 0])

    def __call__(self, data_K):
        from wannierberri.result import EnergyResult
        idx = self.indices(data_K)
        self.seen.append(len(idx))
        d = self.table[:, idx].sum(axis=1)
        if self.normalise:
            d = d / len(idx)
        return EnergyResult([self.E], d, transformTR=self.tTR, transformInv=self.tInv, rank=self.rank, save_mode="")


class FieldTabulator:
    """Calculator returning a TABresult with 'Energy' = invariant scalar field and one KBandResult per entry of `fields`:
    fields[name] = (table (nb, Ntot)+(3,)*rank, rank, tTR, tInv); bands enumerate different fields."""
    comment = "synthetic field tabulator"
    allow_path = False
    allow_grid = True

    def __init__(self, N, energy, fields):
        self.N = np.array(N)
        self.energy = np.asarray(energy, dtype=float)       # (nb, Ntot)
        self.fields = fields

    def __call__(self, data_K):
        from wannierberri.result import KBandResult, TABresult
        from wannierberri.symmetry.point_symmetry import transform_ident
        kp = data_K.kpoints_all
        p = to_int(kp * self.N[None, :], "kpoints_all * N") % self.N[None, :]
        idx = p[:, 2] + self.N[2] * (p[:, 1] + self.N[1] * p[:, 0])
        res = {"Energy": KBandResult(self.energy[:, idx].T.copy(), transformTR=transform_ident, transformInv=transform_ident)}
        for name, (table, rank, tTR, tInv) in self.fields.items():
            t = np.asarray(table, dtype=float)[:, idx]       # (nb, nk, 3..)
            res[name] = KBandResult(np.swapaxes(t, 0, 1).copy(), transformTR=tTR, transformInv=tInv)
        return TABresult(kpoints=kp.copy(), mode="grid", recip_lattice=data_K.system.recip_lattice, save_mode="", results=res)


def transform_of(par):
    """spec transform [f, t] -> wannierberri Transform"""
    from wannierberri.symmetry.point_symmetry import Transform
    f, t = par
    return Transform(factor=int(f), transpose_axes=(1, 0) if t else None)


def run_wb(system, grid, calcs, irred, name, **kw):
    """wannierberri.run in serial with output files under .work; irred=True: irreducible K-points + symmetrisation,
    irred=False: full grid, no symmetrisation"""
    import wannierberri as wb
    d = os.path.join(WORK, name)
    os.makedirs(d, exist_ok=True)
    with quiet():
        return wb.run(system, grid, calcs, parallel=False, use_irred_kpt=irred, symmetrize=irred, adpt_num_iter=0,
                      fout_name=os.path.join(d, "res"), file_Klist_path=os.path.join(d, "klist"),
                      print_progress_step_time=1e9, **kw)


# ----------------------------------------------------------------------------------------------------------------
# integer tensor fields (python mirror used only to BUILD inputs for recorded runs; TLC re-checks covariance)


def py_act(g, rank, tTR, tInv, T):
    """PointSymmetry.transform_tensor on an integer tensor for g = (A, inv, tr); tTR/tInv = (factor, transpose)"""
    A, inv, tr = g
    R = np.array(A)
    T = np.array(T)
    if rank == 1:
        T = R @ T
    elif rank == 2:
        T = R @ T @ R.T
    for flag, (f, t) in ((tr, tTR), (inv, tInv)):
        if flag:
            if t and rank == 2:
                T = T.T
            T = f * T
    return T


def sym_field(h, N, G, rank, tTR, tInv):
    """f(p) = sum_g Act(g, h(g^-1 p)); h, f: arrays of shape N + (3,)*rank"""
    f = np.zeros_like(h)
    for g in G:
        for q in np.ndindex(*N):
            p = act_k(g, q, N)
            f[p] += py_act(g, rank, tTR, tInv, h[q])
    return f


def symmetric_hamiltonian(name, rng, nw=2, planar=False, rmax=1):
    """random tight-binding model of nw s-like orbitals at the origin, averaged over the catalogue group `name`
    (cubic-type lattice): H(s A R) = H(R) for unitary elements (s = -1 with inversion), conj(H(R)) with time reversal.
    Returns the `ham` dictionary for System_R.from_sparse."""
    G = sorted(project_group(make_system(name).pointgroup))
    r = np.random.RandomState(rng.randrange(1 << 30))
    rng_z = [0] if planar else range(-rmax, rmax + 1)
    Rs = [(a, b, c) for a in range(-rmax, rmax + 1) for b in range(-rmax, rmax + 1) for c in rng_z]
    H = {}
    for R in Rs:
        mR = tuple(-x for x in R)
        if mR in H:
            H[R] = H[mR].conj().T
        else:
            M = r.randn(nw, nw) + 1j * r.randn(nw, nw)
            if R == (0, 0, 0):
                M = (M + M.conj().T) / 2
            H[R] = M
    Hs = {R: np.zeros((nw, nw), dtype=complex) for R in Rs}
    for (A, inv, tr) in G:
        s = -1 if inv else 1
        for R in Rs:
            Rp = tuple(int(s * sum(A[i][j] * R[j] for j in range(3))) for i in range(3))
            Hs[Rp] += (H[R].conj() if tr else H[R]) / len(G)
    return {R: {(i, j): Hs[R][i, j] for i in range(nw) for j in range(nw)} for R in Rs}


class ScaleProbe:
    """wraps a calculator and remembers the largest |entry| of the per-K results it produced"""

    def __init__(self, calc):
        self.calc = calc
        self.scale = 0.0
        self.comment = getattr(calc, "comment", "probe")

    @property
    def allow_path(self):
        return self.calc.allow_path

    @property
    def allow_grid(self):
        return self.calc.allow_grid

    def __call__(self, data_K):
        res = self.calc(data_K)
        d = getattr(res, "data", None)
        if isinstance(d, np.ndarray) and d.size:
            self.scale = max(self.scale, float(np.abs(d).max()))
        return res


def term_scales(system, N, calcs, name):
    """natural magnitude of every integrated quantity: the largest |contribution of a single k-point| (run over the full grid with
    NKFFT = 1, no symmetry).  A quantity that vanishes by symmetry is then compared on the scale of the terms that cancel."""
    import wannierberri as wb
    probes = {k: ScaleProbe(c) for k, c in calcs.items()}
    with quiet():
        grid = wb.Grid(system=system, NKdiv=[int(x) for x in N], NKFFT=1)
    run_wb(system, grid, probes, False, name)
    # a quantity whose contributions vanish at every grid point (e.g. Berry curvature on mirror lines) still carries the rounding
    # noise of its intermediate terms: the floor is the calculator's own unit, |constant_factor| / cell volume (formulae are O(1)
    # in eV, Angstrom)
    out = {}
    for k, p in probes.items():
        cf = getattr(p.calc, "constant_factor", 1.0)
        try:
            floor = abs(float(cf)) / float(system.cell_volume)
        except Exception:
            floor = 0.0
        out[k] = max(p.scale, floor)
    return out
