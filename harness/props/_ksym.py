"""Shared helpers of the C03 / C07 checks (not a property module: the leading underscore hides it from discovery).

* the catalogue of point groups of spec/KSymBase.tla as wannierberri generator lists + lattices,
* projection of a real PointGroup to the specification's elements (A, inv, tr),
* tiny real systems carrying those groups, real Grid / K-list / Data_K.kpoints_all projected to integers,
* reading TLC dumps that carry the (large) group variable,
* synthetic calculators that inject integer fields through data_K.kpoints_all (derived from the package's Calculator base,
  built lazily: `KS.FieldIntegrator`, `KS.FieldTabulator`),
* guarded adapters for everything that is not public API (Data_K constructor, determineNK, NKFFT_recommended ...): when a private
  name is gone the sub-check is skipped (recorded by the caller in rep.part("skipped_private")) instead of crashing,
* classification of exceptions (library on a valid input -> violation; harness / environment -> machinery),
* float tensor fields with general Transforms (rank 3, conj, swap_axes, hexagonal Cartesian rotations),
* further real systems for the real-calculator comparisons (random R-space system with AA, k.p, SOC, all calculators).
"""
import os
import re
import inspect
import numpy as np

from .. import tlaparse
from ..common import MachineryError, quiet, WORK


def scratch(tag):
    """scratch / TLC run name unique per property tag AND process: several checks (or tiers) may run concurrently"""
    return f"{tag}_{os.getpid()}"


# ----------------------------------------------------------------------------------------------------------------
# exceptions: who is at fault?


def lib_fault(ex):
    """-> "module.function" when the exception was raised inside the wannierberri package (harness/main.py's rule), None when the
    harness itself or the environment is at fault (bad keyword, renamed private attribute, ImportError, OSError ...)"""
    if isinstance(ex, MachineryError):
        return None
    from ..main import raised_by_code_under_test
    return raised_by_code_under_test(ex)


def report_exception(rep, ex, where, detail):
    """the package raised on an input the specification calls valid: a violation (and the check continues with the next input);
    anything that is the harness's or the environment's fault is re-raised (exit 2)"""
    site = lib_fault(ex)
    if site is None:
        raise ex
    rep.violation(f"raises:{where}:{type(ex).__name__}", dict(detail, error=f"{type(ex).__name__}: {str(ex)[:300]}", raised_in=site))


def skipped_private(rep, what, reason):
    d = rep.parts.setdefault("skipped_private", {})
    d.setdefault(what, str(reason)[:200])

SQ3 = np.sqrt(3.0)
LAT_CART = 2.0 * np.eye(3)
LAT_HEX = np.array([[1.0, 0.0, 0.0], [-0.5, SQ3 / 2, 0.0], [0.0, 0.0, 1.5]])


def _rot3d():
    from wannierberri.symmetry.point_symmetry import Rotation
    return Rotation(3, [1, 1, 1])


# name -> generator list as given to System.set_pointgroup (strings are products of the pre-defined operations)
CART = {
    "C1": [], "Ci": ["Inversion"], "T": ["TimeReversal"], "C2": ["C2z"], "Cs": ["Mz"], "C2v": ["Mx", "My"],
    "D2h": ["Mx", "My", "Mz"], "C4": ["C4z"], "C4v": ["C4z", "Mx"], "C4h": ["C4z", "Inversion"],
    "D4hT": ["C4z", "Mx", "Mz", "TimeReversal"], "mC2x": ["C2x*TimeReversal"], "mC4": ["C4z*TimeReversal"],
    "mFe": ["C4z", "C2x*TimeReversal", "Inversion"], "mC4v": ["C4z", "Mx*TimeReversal"],
    "T23": ["@C3d", "C2z", "C2x"], "O": ["C4z", "C4x"], "Oh": ["C4z", "C4x", "Inversion"],
    "SiT": ["C4z", "C4x", "TimeReversal"],
}
HEX = {
    "H3": ["C3z"], "H6": ["C6z"], "H3T": ["C3z", "TimeReversal"], "H6v": ["C6z", "Mx"],
    "TeT": ["C3z", "C2x", "TimeReversal"], "mH6v": ["C6z", "Mx", "C2x*TimeReversal"],
}


def is_cart(name):
    return name in CART


def lattice_of(name):
    return LAT_CART if name in CART else LAT_HEX


def generators_of(name):
    gens = CART[name] if name in CART else HEX[name]
    return [(_rot3d() if g == "@C3d" else g) for g in gens]


_SYSTEMS = {}


def make_system(name, nw=1, ham=None, periodic=(True, True, True)):
    """a real System_R (one s-like orbital at the origin unless `ham` is given) whose point group is catalogue[name]"""
    import wannierberri as wb
    key = (name, nw, tuple(periodic))
    if ham is None and key in _SYSTEMS:
        return _SYSTEMS[key]
    cache = ham is None
    if ham is None:
        ham = {(0, 0, 0): {(0, 0): 1.0}}
        for R in ((1, 0, 0), (0, 1, 0), (0, 0, 1)):
            ham[R] = {(0, 0): 0.5}
            ham[tuple(-x for x in R)] = {(0, 0): 0.5}
    with quiet():
        s = wb.system.System_R.from_sparse(real_lattice=lattice_of(name), wannier_centers_red=np.zeros((nw, 3)),
                                           matrices={"Ham": ham})
        s.periodic = np.array(periodic)
        s.set_pointgroup(generators_of(name))
    if cache:
        _SYSTEMS[key] = s
    return s


def project_group(pg):
    """real PointGroup -> frozenset of (A as tuple of rows, inv, tr): proper rotation in reduced coordinates (column action)"""
    B = pg.recip_lattice
    Bi = np.linalg.inv(B)
    out = set()
    for g in pg.symmetries:
        M = (B @ g.R.T @ Bi).T
        Mi = np.rint(M)
        if np.abs(M - Mi).max() > 1e-9:
            raise MachineryError(f"symmetry operation is not integral in reduced coordinates: {M}")
        out.add((tuple(tuple(int(x) for x in row) for row in Mi), bool(g.Inv), bool(g.TR)))
    if len(out) != len(pg.symmetries):
        raise MachineryError("PointGroup.symmetries contains duplicates after projection")
    return frozenset(out)


def spec_group(gset):
    """parsed TLA value of gset -> same representation as project_group"""
    out = set()
    for g in gset:
        d = dict(g) if not isinstance(g, dict) else g
        out.add((tuple(tuple(r) for r in d["A"]), bool(d["inv"]), bool(d["tr"])))
    return frozenset(out)


def act_k(g, p, n):
    """ActK of KSymBase for g = (A, inv, tr)"""
    A, inv, tr = g
    s = (-1 if inv else 1) * (-1 if tr else 1)
    return tuple((s * sum(((A[i][j] * n[i]) // n[j]) * p[j] for j in range(3))) % n[i] for i in range(3))


def symmetric_grid(n, G):
    return all((A[i][j] * n[i]) % n[j] == 0 for (A, _, _) in G for i in range(3) for j in range(3))


# ----------------------------------------------------------------------------------------------------------------
# reading dumps


def iter_dump(path, want=None, drop=("gset",), keep_first_of=None):
    """yields parsed states of a TLC dump. want: substring that must occur in the state text; drop: variables not parsed.
    keep_first_of: (variable name, dict) -> the dropped variable `gset` is parsed once per distinct value of that variable
    and stored in the dict"""
    with open(path) as f:
        text = f.read()
    parts = re.split(r"(?m)^State \d+:\s*$", text)
    for body in parts[1:]:
        if want is not None and want not in body:
            continue
        chunks = re.split(r"(?m)^/\\ ", body)
        keep = []
        dropped = {}
        for ch in chunks:
            ch = ch.strip()
            if not ch:
                continue
            m = re.match(r"([A-Za-z_][A-Za-z0-9_]*)\s*=\s*", ch)
            if m and m.group(1) in drop:
                dropped[m.group(1)] = ch[m.end():]
                continue
            keep.append("/\\ " + ch)
        st = tlaparse.parse_state_body("\n".join(keep))
        if keep_first_of is not None:
            var, store = keep_first_of
            if st[var] not in store and "gset" in dropped:
                store[st[var]] = spec_group(tlaparse.parse_value(dropped["gset"]))
        yield st


# ----------------------------------------------------------------------------------------------------------------
# real grid -> integers


class NonIntegral(Exception):
    pass


def to_int(a, what, tol=1e-7):
    a = np.asarray(a, dtype=float)
    r = np.rint(a)
    if a.size and np.abs(a - r).max() > tol:
        raise NonIntegral(f"{what} is not integral: max deviation {np.abs(a - r).max():.3e}")
    return r.astype(int)


class FactorisationChanged(Exception):
    """Grid(NKdiv=, NKFFT=) did not return the requested pair: comparing factorisations would be meaningless"""


_PRIVATE = {}       # name -> reason, filled when a non-public adapter stops working (reported by the callers)


def data_k_of(system, grid, K):
    """guarded adapter: the Data_K object run() would build for the K-point K (non-public constructor).  None when the private
    names it needs are gone (the k-sets are then still checked through run() with the one-hot calculator)"""
    if "Data_K" in _PRIVATE:
        return None
    try:
        from wannierberri.data_K import get_data_k_class_from_system
        cls = get_data_k_class_from_system(system)
        return cls(system, dK=K.Kp_fullBZ, grid=grid, Kpoint=K)
    except (ImportError, AttributeError, TypeError, NameError) as ex:
        # a changed constructor is not a defect; a constructor that is really broken also breaks run(), which the
        # one-hot end-to-end part sees through the public API
        _PRIVATE["Data_K"] = f"{type(ex).__name__}: {ex}"
        return None


def nkfft_recommended(system):
    """guarded adapter for the (semi-private) attribute System.NKFFT_recommended; None when it is gone"""
    try:
        return tuple(int(x) for x in np.array(system.NKFFT_recommended).reshape(-1))
    except Exception as ex:
        _PRIVATE["NKFFT_recommended"] = f"{type(ex).__name__}: {ex}"
        return None


def flush_private(rep):
    for k, v in _PRIVATE.items():
        skipped_private(rep, k, v)


def real_klist(system, div, fft, use_sym, with_ksets=True):
    """real Grid -> ([(x, w)] with x reduced modulo NKdiv, [kset as list of dense-grid points] or None, grid).
    Raises whatever Grid / get_K_list raise, NonIntegral when a K-point is not a point of the division grid,
    FactorisationChanged when Grid did not keep the requested pair.  ksets is None when the Data_K adapter is not available."""
    import wannierberri as wb
    with quiet():
        grid = wb.Grid(system=system, NKdiv=list(div), NKFFT=list(fft))
        KL = grid.get_K_list(use_symmetry=use_sym)
    gd, gf = getattr(grid, "div", None), getattr(grid, "FFT", None)
    if gd is not None and gf is not None:
        if tuple(int(x) for x in gd) != tuple(div) or tuple(int(x) for x in gf) != tuple(fft):
            raise FactorisationChanged(f"requested NKdiv={tuple(div)} NKFFT={tuple(fft)}, Grid has NKdiv={tuple(int(x) for x in gd)} "
                                       f"NKFFT={tuple(int(x) for x in gf)}")
    else:
        _PRIVATE["Grid.div/FFT"] = "attributes not found"
    dv = np.array(div)
    N = dv * np.array(fft)
    klist = []
    ksets = [] if with_ksets else None
    for K in KL:
        x = to_int(np.asarray(K.K) * dv, "K * NKdiv") % dv       # K is defined modulo a reciprocal lattice vector
        w = int(to_int(K.factor * np.prod(dv), "factor * prod(NKdiv)"))
        klist.append((tuple(int(v) for v in x), w))
        if ksets is not None:
            d = data_k_of(system, grid, K)
            if d is None:
                ksets = None
                continue
            kp = np.asarray(d.kpoints_all)
            ks = to_int(kp * N[None, :], "kpoints_all * N")       # k-points are defined modulo 1: no range is demanded
            ksets.append([tuple(int(v) % int(N[i]) for i, v in enumerate(row)) for row in ks])
    return klist, ksets, grid


def flat_index(p, n):
    return p[2] + n[2] * (p[1] + n[1] * p[0])


# ----------------------------------------------------------------------------------------------------------------
# synthetic calculators: results are exact functions of data_K.kpoints_all.  They derive from the package's Calculator base
# class (what a user-written calculator does), so they are built lazily: KS.FieldIntegrator, KS.FieldTabulator, KS.ScaleProbe


def _build_classes():
    import wannierberri                                                   # noqa: F401
    from wannierberri.calculators import Calculator

    def base_init(self):
        try:
            Calculator.__init__(self, save_mode="")
        except TypeError:
            Calculator.__init__(self)
            self.save_mode = ""

    class FieldIntegrator(Calculator):
        """Calculator whose per-K result is  (1/nk) * sum_{k in data_K.kpoints_all} table[:, index(k)]  as an EnergyResult:
        table has shape (nrows, Ntot) + (3,)*rank (float or complex); the 'energy' axis enumerates the rows (different fields)."""
        comment = "synthetic field integrator"

        def __init__(self, N, table, rank, tTR, tInv, normalise=True):
            base_init(self)
            self.N = np.array(N)
            self.table = np.asarray(table)
            if not np.iscomplexobj(self.table):
                self.table = self.table.astype(float)
            self.rank = rank
            self.tTR, self.tInv = tTR, tInv
            self.normalise = normalise
            self.E = np.arange(self.table.shape[0], dtype=float)

        def indices(self, data_K):
            kp = np.asarray(data_K.kpoints_all)
            p = to_int(kp * self.N[None, :], "kpoints_all * N") % self.N[None, :]
            return p[:, 2] + self.N[2] * (p[:, 1] + self.N[1] * p[:, 0])

        def __call__(self, data_K):
            from wannierberri.result import EnergyResult
            idx = self.indices(data_K)
            d = self.table[:, idx].sum(axis=1)
            if self.normalise:
                d = d / len(idx)
            return EnergyResult([self.E], d, transformTR=self.tTR, transformInv=self.tInv, rank=self.rank, save_mode="")

    class FieldTabulator(Calculator):
        """Calculator returning a TABresult with 'Energy' = invariant scalar field and one KBandResult per entry of `fields`:
        fields[name] = (table (nb, Ntot)+(3,)*rank, rank, tTR, tInv); bands enumerate different fields."""
        comment = "synthetic field tabulator"

        def __init__(self, N, energy, fields):
            base_init(self)
            self.N = np.array(N)
            self.energy = np.asarray(energy, dtype=float)       # (nb, Ntot)
            self.fields = fields

        def __call__(self, data_K):
            from wannierberri.result import KBandResult, TABresult
            from wannierberri.symmetry.point_symmetry import transform_ident
            kp = np.asarray(data_K.kpoints_all)
            p = to_int(kp * self.N[None, :], "kpoints_all * N") % self.N[None, :]
            idx = p[:, 2] + self.N[2] * (p[:, 1] + self.N[1] * p[:, 0])
            res = {"Energy": KBandResult(self.energy[:, idx].T.copy(), transformTR=transform_ident, transformInv=transform_ident)}
            for name, (table, rank, tTR, tInv) in self.fields.items():
                t = np.asarray(table)
                if not np.iscomplexobj(t):
                    t = t.astype(float)
                t = t[:, idx]                                    # (nb, nk, 3..)
                res[name] = KBandResult(np.swapaxes(t, 0, 1).copy(), transformTR=tTR, transformInv=tInv)
            return TABresult(kpoints=kp.copy(), mode="grid", recip_lattice=data_K.system.recip_lattice, save_mode="", results=res)

    class ScaleProbe(Calculator):
        """wraps a calculator and remembers the largest |entry| of the per-K results it produced"""

        def __init__(self, calc):
            self.calc = calc
            self.scale = 0.0
            self.comment = getattr(calc, "comment", "probe")
            base_init(self)
            for a in ("save_mode", "degen_thresh", "degen_Kramers"):
                if hasattr(calc, a):
                    setattr(self, a, getattr(calc, a))

        @property
        def allow_path(self):
            return self.calc.allow_path

        @property
        def allow_grid(self):
            return self.calc.allow_grid

        def __getattr__(self, name):          # anything else run() may ask of a calculator: what the wrapped one says
            if name in ("calc", "scale"):
                raise AttributeError(name)
            return getattr(self.calc, name)

        def __call__(self, data_K):
            res = self.calc(data_K)
            d = getattr(res, "data", None)
            if isinstance(d, np.ndarray) and d.size:
                self.scale = max(self.scale, float(np.abs(d).max()))
            return res

    return dict(FieldIntegrator=FieldIntegrator, FieldTabulator=FieldTabulator, ScaleProbe=ScaleProbe)


_CLASSES = {}


def __getattr__(name):
    if name in ("FieldIntegrator", "FieldTabulator", "ScaleProbe"):
        if not _CLASSES:
            _CLASSES.update(_build_classes())
        return _CLASSES[name]
    raise AttributeError(name)


def transform_of(par):
    """spec transform [f, t] -> wannierberri Transform"""
    from wannierberri.symmetry.point_symmetry import Transform
    f, t = par
    return Transform(factor=int(f), transpose_axes=(1, 0) if t else None)


def run_wb(system, grid, calcs, irred, name, symmetrize=None, adpt_num_iter=0, **kw):
    """wannierberri.run in serial with output files under .work (only the arguments the property is about are passed);
    irred=True: irreducible K-points + symmetrisation, irred=False: full grid, no symmetrisation unless symmetrize=True"""
    import wannierberri as wb
    d = os.path.join(WORK, name)
    os.makedirs(d, exist_ok=True)
    with quiet():
        return wb.run(system, grid, calcs, parallel=False, use_irred_kpt=irred, symmetrize=irred if symmetrize is None else symmetrize,
                      adpt_num_iter=adpt_num_iter, fout_name=os.path.join(d, "res"), **kw)


# ----------------------------------------------------------------------------------------------------------------
# integer tensor fields (python mirror used only to BUILD inputs for recorded runs; TLC re-checks covariance)


def py_act(g, rank, tTR, tInv, T):
    """PointSymmetry.transform_tensor on an integer tensor for g = (A, inv, tr); tTR/tInv = (factor, transpose)"""
    A, inv, tr = g
    R = np.array(A)
    T = np.array(T)
    if rank == 1:
        T = R @ T
    elif rank == 2:
        T = R @ T @ R.T
    for flag, (f, t) in ((tr, tTR), (inv, tInv)):
        if flag:
            if t and rank == 2:
                T = T.T
            T = f * T
    return T


def sym_field(h, N, G, rank, tTR, tInv):
    """f(p) = sum_g Act(g, h(g^-1 p)); h, f: arrays of shape N + (3,)*rank"""
    f = np.zeros_like(h)
    for g in G:
        for q in np.ndindex(*N):
            p = act_k(g, q, N)
            f[p] += py_act(g, rank, tTR, tInv, h[q])
    return f


def symmetric_hamiltonian(name, rng, nw=2, planar=False, rmax=1):
    """random tight-binding model of nw s-like orbitals at the origin, averaged over the catalogue group `name`
    (cubic-type lattice): H(s A R) = H(R) for unitary elements (s = -1 with inversion), conj(H(R)) with time reversal.
    Returns the `ham` dictionary for System_R.from_sparse."""
    G = sorted(project_group(make_system(name).pointgroup))
    r = np.random.RandomState(rng.randrange(1 << 30))
    rng_z = [0] if planar else range(-rmax, rmax + 1)
    Rs = [(a, b, c) for a in range(-rmax, rmax + 1) for b in range(-rmax, rmax + 1) for c in rng_z]
    H = {}
    for R in Rs:
        mR = tuple(-x for x in R)
        if mR in H:
            H[R] = H[mR].conj().T
        else:
            M = r.randn(nw, nw) + 1j * r.randn(nw, nw)
            if R == (0, 0, 0):
                M = (M + M.conj().T) / 2
            H[R] = M
    Hs = {R: np.zeros((nw, nw), dtype=complex) for R in Rs}
    for (A, inv, tr) in G:
        s = -1 if inv else 1
        for R in Rs:
            Rp = tuple(int(s * sum(A[i][j] * R[j] for j in range(3))) for i in range(3))
            Hs[Rp] += (H[R].conj() if tr else H[R]) / len(G)
    return {R: {(i, j): Hs[R][i, j] for i in range(nw) for j in range(nw)} for R in Rs}


def term_scales(system, N, calcs, name):
    """natural magnitude of every integrated quantity: the largest |contribution of a single k-point| (run over the full grid with
    NKFFT = 1, no symmetry).  A quantity that vanishes by symmetry is then compared on the scale of the terms that cancel."""
    import wannierberri as wb
    probes = {k: __getattr__("ScaleProbe")(c) for k, c in calcs.items()}
    with quiet():
        grid = wb.Grid(system=system, NKdiv=[int(x) for x in N], NKFFT=1)
    run_wb(system, grid, probes, False, name)
    # a quantity whose contributions vanish at every grid point (e.g. Berry curvature on mirror lines) still carries the rounding
    # noise of its intermediate terms: the floor is the calculator's own unit, |constant_factor| / cell volume (formulae are O(1)
    # in eV, Angstrom)
    out = {}
    for k, p in probes.items():
        cf = getattr(p.calc, "constant_factor", 1.0)
        try:
            floor = abs(float(cf)) / float(system.cell_volume)
        except Exception:
            floor = 0.0
        out[k] = max(p.scale, floor)
    return out


# ----------------------------------------------------------------------------------------------------------------
# guarded adapter: grid.py determineNK (module-level helper, not public API)


def determineNK_adapter():
    """-> (callable(periodic, NKdiv, NKFFT, NK, rec, pointgroup), None) or (None, reason) when the helper or its keywords are gone"""
    try:
        from wannierberri.grid.grid import determineNK
        names = set(inspect.signature(determineNK).parameters)
    except (ImportError, AttributeError, TypeError, ValueError) as ex:
        return None, f"{type(ex).__name__}: {ex}"
    need = {"periodic", "NKdiv", "NKFFT", "NK", "NKFFT_recommended", "pointgroup"}
    if not need <= names:
        return None, f"keywords {sorted(need - names)} not in the signature"

    def call(periodic, NKdiv, NKFFT, NK, rec, pointgroup):
        return determineNK(periodic=periodic, NKdiv=NKdiv, NKFFT=NKFFT, NK=NK, NKFFT_recommended=rec, pointgroup=pointgroup)
    return call, None


# ----------------------------------------------------------------------------------------------------------------
# float / complex tensor fields with general Transforms (rank 3, conj, swap_axes, hexagonal Cartesian rotations).
# A transform is described by dict(factor=+-1, conj=bool, perm=None | permutation of the last `rank` axes); `make_transform`
# builds the package's Transform from it, `mirror_transform` is the harness's own reading of it.


def make_transform(spec, how="transpose_axes"):
    from wannierberri.symmetry.point_symmetry import Transform
    perm = spec.get("perm")
    kw = dict(factor=int(spec["factor"]), conj=bool(spec.get("conj", False)))
    if perm is not None:
        if how == "swap_axes":
            i, j = [a for a in range(len(perm)) if perm[a] != a]
            kw["swap_axes"] = (i - len(perm), j - len(perm))      # counted from the end: independent of the leading axes
        else:
            kw["transpose_axes"] = tuple(int(a) for a in perm)
    return Transform(**kw)


def mirror_transform(T, spec):
    perm = spec.get("perm")
    if perm is not None:
        lead = T.ndim - len(perm)
        T = np.transpose(T, tuple(range(lead)) + tuple(lead + a for a in perm))
    if spec.get("conj"):
        T = np.conj(T)
    return spec["factor"] * T


def rotate_tensor(T, R, rank):
    for ax in range(T.ndim - rank, T.ndim):
        T = np.moveaxis(np.tensordot(R, T, axes=(1, ax)), 0, ax)
    return T


def cart_rotation(g, lattice):
    """Cartesian proper rotation of the catalogue element g = (A, inv, tr) on the lattice (rows = real lattice vectors):
    k_cart = B^T k_red with B the reciprocal basis (rows), so R = B^T A B^-T"""
    B = 2 * np.pi * np.linalg.inv(np.asarray(lattice, dtype=float)).T
    R = B.T @ np.array(g[0], dtype=float) @ np.linalg.inv(B.T)
    if np.abs(R @ R.T - np.eye(3)).max() > 1e-9:
        raise MachineryError("catalogue element is not an orthogonal transformation on this lattice")
    return R


def act_float(g, R, rank, sTR, sInv, T):
    T = rotate_tensor(T, R, rank)
    if g[2]:
        T = mirror_transform(T, sTR)
    if g[1]:
        T = mirror_transform(T, sInv)
    return T


def sym_field_float(h, N, G, lattice, rank, sTR, sInv):
    """f(p) = sum_g Act(g, h(g^-1 p)) -> (f, covariance defect max |f(g p) - Act(g, f(p))|)"""
    f = np.zeros_like(h)
    Rs = {g: cart_rotation(g, lattice) for g in G}
    for g in G:
        for q in np.ndindex(*N):
            f[act_k(g, q, N)] += act_float(g, Rs[g], rank, sTR, sInv, h[q])
    defect = 0.0
    for g in G:
        for q in np.ndindex(*N):
            defect = max(defect, float(np.abs(f[act_k(g, q, N)] - act_float(g, Rs[g], rank, sTR, sInv, f[q])).max()))
    return f, defect


# ----------------------------------------------------------------------------------------------------------------
# further real systems for the real-calculator comparisons


def random_system_R(r, nw=2, with_AA=True, lattice=None, centres=None, Rs=None):
    """random tight-binding System_R: Hermitian Ham(R) and (optionally) Hermitian AA(R) with vanishing on-site diagonal, random
    non-orthogonal lattice, random centres.  r: numpy RandomState"""
    import wannierberri as wb
    if Rs is None:
        Rs = [(0, 0, 0), (1, 0, 0), (0, 1, 0), (0, 0, 1), (1, 1, 0)]
    lat = np.eye(3) + 0.1 * r.randn(3, 3) if lattice is None else np.asarray(lattice)
    cen = r.rand(nw, 3) if centres is None else np.asarray(centres)
    ham, aa = {}, {}
    for R in Rs:
        mR = tuple(-x for x in R)
        M = r.randn(nw, nw) + 1j * r.randn(nw, nw)
        A = 0.2 * (r.randn(nw, nw, 3) + 1j * r.randn(nw, nw, 3))
        if R == (0, 0, 0):
            M = (M + M.conj().T) / 2
            A = (A + A.conj().transpose(1, 0, 2)) / 2
            A[np.arange(nw), np.arange(nw)] = 0
        ham[R], aa[R] = M, A
        if R != (0, 0, 0):
            ham[mR], aa[mR] = M.conj().T, A.conj().transpose(1, 0, 2)
    mats = {"Ham": {R: {(i, j): M[i, j] for i in range(nw) for j in range(nw)} for R, M in ham.items()}}
    if with_AA:
        mats["AA"] = {R: {(i, j): M[i, j] for i in range(nw) for j in range(nw)} for R, M in aa.items()}
    with quiet():
        return wb.system.System_R.from_sparse(real_lattice=lat, wannier_centers_red=cen, matrices=mats)


def random_system_kp(r, nw=2, lattice=None):
    """k.p system whose Hamiltonian is a periodic function of the reduced k-vector (so that the wrap of k into [-1/2, 1/2) is
    immaterial): H(k) = H0 + sum_R (M_R e^{2 pi i k.R} + h.c.)"""
    from wannierberri.system.system_kp import SystemKP
    lat = np.eye(3) + 0.1 * r.randn(3, 3) if lattice is None else np.asarray(lattice)
    Rk = np.array([(1, 0, 0), (0, 1, 0), (0, 0, 1), (1, 1, 0)], dtype=float)
    Mk = [r.randn(nw, nw) + 1j * r.randn(nw, nw) for _ in Rk]
    H0 = np.diag(np.arange(nw, dtype=float))

    def ham(k):
        ph = np.exp(2j * np.pi * Rk.dot(np.asarray(k, dtype=float)))
        H = sum(p * M for p, M in zip(ph, Mk))
        return H0 + H + H.conj().T
    with quiet():
        return SystemKP(Ham=ham, kmax=None, real_lattice=lat, k_vector_cartesian=False, finite_diff_dk=1e-3)


def random_system_soc(r, nw=2):
    """SystemSOC of two random spin channels with different R-vector sets plus a random Hermitian SOC term.  The SOC matrices are
    put through non-public names (rvec, dV_soc_wann_*, overlap_up_down, has_soc): returns None when they are gone"""
    lat = np.eye(3) + 0.1 * r.randn(3, 3)
    cen = r.rand(nw, 3)
    Rs = [(0, 0, 0), (1, 0, 0), (0, 1, 0), (0, 0, 1), (1, 1, 0)]
    up = random_system_R(r, nw, with_AA=True, lattice=lat, centres=cen, Rs=Rs)
    dn = random_system_R(r, nw, with_AA=True, lattice=lat, centres=cen, Rs=Rs[:4])
    try:
        from wannierberri.system.system_soc import SystemSOC
        from wannierberri.fourier.rvectors import Rvectors
        import warnings
        with quiet(), warnings.catch_warnings():
            warnings.simplefilter("ignore")
            soc = SystemSOC(up, dn)
            soc._NKFFT_recommended = np.array([3, 3, 3])
            soc.set_pointgroup()
            rsS = [(0, 0, 0), (1, 0, 0), (-1, 0, 0), (0, 1, 0), (0, -1, 0)]
            soc.rvec = Rvectors(lattice=soc.real_lattice, iRvec=np.array(rsS, dtype=int), shifts_left_red=soc.wannier_centers_red)

            def herm(shape):
                X = {}
                tr = (1, 0) + tuple(range(2, len(shape)))
                for R in rsS:
                    mR = tuple(-x for x in R)
                    if mR in X:
                        X[R] = X[mR].conj().transpose(tr)
                    else:
                        X[R] = 0.3 * (r.randn(*shape) + 1j * r.randn(*shape))
                        if R == (0, 0, 0):
                            X[R] = (X[R] + X[R].conj().transpose(tr)) / 2
                return np.array([X[R] for R in rsS])
            soc.set_R_mat("dV_soc_wann_0_0", herm((nw, nw, 3)), reset=True)
            soc.set_R_mat("dV_soc_wann_1_1", herm((nw, nw, 3)), reset=True)
            soc.set_R_mat("dV_soc_wann_0_1", np.array([0.3 * (r.randn(nw, nw, 3) + 1j * r.randn(nw, nw, 3)) for _ in rsS]), reset=True)
            ov = np.zeros((len(rsS), nw, nw), dtype=complex)
            ov[0] = np.eye(nw)
            soc.set_R_mat("overlap_up_down", ov, reset=True)
            soc.has_soc = True
            soc.set_soc_axis(theta=0.3, phi=0.7, alpha_soc=1.0)
        return soc
    except (ImportError, AttributeError, TypeError, NameError, KeyError) as ex:
        if lib_fault(ex) is not None and not isinstance(ex, (ImportError, AttributeError)):
            raise
        _PRIVATE["SystemSOC"] = f"{type(ex).__name__}: {ex}"
        return None


def all_calculators(Ef, Ef_dyn, omega, skip=()):
    """every integrating calculator the package defines (found by reflection over calculators.static / dynamic / sdct) that can be
    built from (Efermi[, omega]) alone -> {name: constructor};  skip: names left out (cost / named exclusions)"""
    from wannierberri import calculators as calc
    out = {}
    for name, c in sorted(vars(calc.static).items()):
        if inspect.isclass(c) and issubclass(c, calc.static.StaticCalculator) and c is not calc.static.StaticCalculator and not name.startswith("_"):
            out["static." + name] = (lambda c=c: c(Efermi=Ef, save_mode=""))
    dyn = dict(Efermi=Ef_dyn, omega=omega, kBT=0.05, smr_fixed_width=0.2, save_mode="")
    for name, c in sorted(vars(calc.dynamic).items()):
        if inspect.isclass(c) and issubclass(c, calc.dynamic.DynamicCalculator) and c is not calc.dynamic.DynamicCalculator and not name.startswith("_"):
            kw = dict(dyn, sc_eta=0.1) if "sc_eta" in inspect.signature(c.__init__).parameters else dyn
            out["dynamic." + name] = (lambda c=c, kw=kw: c(**kw))
    sd = getattr(calc, "sdct", None)
    for name in ("SDCT_sym", "SDCT_asym"):
        c = getattr(sd, name, None)
        if c is not None:
            out["sdct." + name] = (lambda c=c: c(**dyn))
    return {k: v for k, v in out.items() if k not in skip}


def all_tabulators(skip=()):
    from wannierberri import calculators as calc
    return {n: c for n, c in sorted(vars(calc.tabulate).items())
            if inspect.isclass(c) and issubclass(c, calc.tabulate.Tabulator) and c is not calc.tabulate.Tabulator and n not in skip}
