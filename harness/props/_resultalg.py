"""Binding between spec/ResultAlg.tla and the real result / smoother classes (shared by c16.py and c17.py).

spec value  -> real object : make_obj        (integer data become float / complex arrays)
real object -> spec value  : project         (rounds and *verifies* integrality)
one hist entry of the C16 state machine on the real objects : apply_op
"""
import os
import re
import json
import traceback
from fractions import Fraction

import numpy as np

from ..common import MachineryError

TOL_INT = 1e-9          # integrality of projected data (observed deviations <= 1e-15)


# ----------------------------------------------------------------------------- fast dump parser
_RE_STATE = re.compile(r"(?m)^State \d+:\s*$")


def _to_py(text):
    t = text.replace("<<", "(").replace(">>", ",)").replace("(,)", "()")
    t = re.sub(r"([A-Za-z_]\w*) \|->", r'"\1":', t)
    t = t.replace("[", "{").replace("]", "}")
    t = re.sub(r"\bTRUE\b", "True", t)
    t = re.sub(r"\bFALSE\b", "False", t)
    return t


def fast_parse_dump(path):
    """TLC -dump file whose values are only ints, strings, booleans, sequences and records -> list of dicts.
    (about 50x faster than harness.tlaparse; falls back to it when the text has anything else)"""
    with open(path) as f:
        text = f.read()
    if ":>" in text or "@@" in text or re.search(r"[^<]\{", text.replace("{}", "")):
        from .. import tlaparse
        return list(tlaparse.parse_dump(path))
    out = []
    for body in _RE_STATE.split(text)[1:]:
        b = _to_py(body)
        b = re.sub(r"(?m)^/\\ (\w+) = ", r', "\1": ', b).strip()
        if b.startswith(","):
            b = b[1:]
        try:
            out.append(eval("{" + b + "}", {"__builtins__": {}}, {}))
        except Exception as ex:
            raise MachineryError(f"cannot parse dumped state: {ex}: {body[:300]}")
    return out


def parse_simulate(path):
    """TLC -simulate trace file -> list of (action name, state dict)"""
    with open(path) as f:
        text = f.read()
    out = []
    for m in re.finditer(r"(?ms)^\\\* <?(\w+)[^\n]*\nSTATE_\d+ ==\s*\n(.*?)(?=^\\\* |^====|\Z)", text):
        b = _to_py(m.group(2))
        b = re.sub(r"(?m)^/\\ (\w+) = ", r', "\1": ', b).strip()
        if b.startswith(","):
            b = b[1:]
        out.append((m.group(1), eval("{" + b + "}", {"__builtins__": {}}, {})))
    return out


# ----------------------------------------------------------------------------- real classes
def wb():
    import wannierberri  # noqa: F401  (lazy: costs seconds)
    from wannierberri.result import EnergyResult, KBandResult, ResultDict
    from wannierberri.result.result import VoidResult
    from wannierberri.symmetry import point_symmetry as ps
    return EnergyResult, KBandResult, ResultDict, VoidResult, ps


_SYMS = None


def real_syms():
    global _SYMS
    if _SYMS is None:
        ps = wb()[4]
        _SYMS = dict(Identity=ps.Identity, Inversion=ps.Inversion, TimeReversal=ps.TimeReversal, C4z=ps.C4z, Mx=ps.Mx,
                     TRMx=ps.TimeReversal * ps.Mx)
    return _SYMS


def check_sym_table(tlc_output):
    """the point operations of MC_ResultAlg (printed by its ASSUME) must be the real predefined PointSymmetry objects"""
    from .. import tlaparse
    flags, mats = {}, {}
    for line in re.findall(r'^<<"SYM", .*>>\s*$', tlc_output, re.M):
        v = tlaparse.parse_value(line.strip())
        flags[v[1]] = (v[2], v[3])
    for line in re.findall(r'^<<"SYMR", .*>>\s*$', tlc_output, re.M):
        v = tlaparse.parse_value(line.strip())
        mats[v[1]] = v[2]
    if set(flags) != set(mats):
        raise MachineryError("symmetry table of the spec could not be read from the TLC output")
    seen = {g: (mats[g], flags[g][0], flags[g][1]) for g in flags}
    syms = real_syms()
    if set(seen) != set(syms):
        raise MachineryError(f"symmetry table of the spec {sorted(seen)} != harness table {sorted(syms)}")
    for g, (R, TR, Inv) in seen.items():
        full, tr = sym_full_matrix(syms[g])
        if np.abs(np.array(R, dtype=float) * (-1 if Inv else 1) - full).max() > 1e-12 or tr != TR:
            raise MachineryError(f"point operation {g}: spec {(R, TR, Inv)} differs from the real object {full.tolist(), tr}")
    return sorted(seen)


def sym_full_matrix(s):
    """(full 3x3 matrix incl. the inversion, TR) of a real PointSymmetry: through as_dict(), else through R / Inv / TR"""
    try:
        d = s.as_dict()
        return np.array(d["R"], dtype=float), bool(d["TR"])
    except Exception:
        try:
            return np.array(s.R, dtype=float) * (-1 if s.Inv else 1), bool(s.TR)
        except Exception as ex:
            raise MachineryError(f"cannot read the matrix of a PointSymmetry object: {type(ex).__name__}: {ex}")


def make_transform(t):
    ps = wb()[4]
    if t == () or t is None:
        return None
    return ps.Transform(factor=t["factor"], conj=t["conj"], transpose_axes=tuple(t["tr"]) if len(t["tr"]) else None,
                        swap_axes=tuple(t["sw"]) if len(t["sw"]) else None)


def is_complex_store(store):
    def cx(o):
        if o["kind"] == "D":
            return any(cx(v) for v in o["items"].values())
        return o["kind"] in ("E", "K") and any(x[1] != 0 for x in o["data"])
    return any(cx(o) for o in store)


def make_array(data, shape, cplx):
    a = np.array([complex(x[0], x[1]) for x in data]) if cplx else np.array([float(x[0]) for x in data])
    return a.reshape(shape)


def make_obj(o, cplx, smoothers=None):
    EnergyResult, KBandResult, ResultDict, VoidResult, ps = wb()
    k = o["kind"]
    if k == "V":
        return VoidResult()
    if k == "E":
        shape = tuple(o["shape"]) + (3,) * o["rank"]
        return EnergyResult([np.array(e, dtype=float) for e in o["en"]], make_array(o["data"], shape, cplx),
                            transformTR=make_transform(o["tTR"]), transformInv=make_transform(o["tInv"]), rank=o["rank"],
                            comment=o["comment"], smoothers=smoothers)
    if k == "K":
        # one array per chunk, as K__Result.data_list would hold them
        w = o["nb"] * 3 ** o["rank"]
        arrs, pos = [], 0
        for nk in o["chunks"]:
            arrs.append(make_array(o["data"][pos * w:(pos + nk) * w], (nk, o["nb"]) + (3,) * o["rank"], cplx))
            pos += nk
        return KBandResult(arrs if len(arrs) > 1 else arrs[0], transformTR=make_transform(o["tTR"]),
                           transformInv=make_transform(o["tInv"]))
    if k == "D":
        return ResultDict({key: make_obj(v, cplx) for key, v in o["items"].items()})
    raise MachineryError(f"cannot build an object of kind {k}")


class NonIntegral(Exception):
    pass


SKIPPED_PRIVATE = set()      # private names of the package that were not found (the check degrades, it does not crash)


def proj_data(arr):
    a = np.asarray(arr)
    flat = a.reshape(-1)
    re_ = np.real(flat)
    im_ = np.imag(flat) if np.iscomplexobj(flat) else np.zeros(flat.shape)
    rr, ri = np.rint(re_), np.rint(im_)
    if flat.size and max(np.abs(re_ - rr).max(), np.abs(im_ - ri).max()) > TOL_INT:
        raise NonIntegral(f"non-integral projection: {flat[:6]}")
    return tuple((int(x), int(y)) for x, y in zip(rr, ri))


def proj_transform(t):
    if t is None:
        return ()
    d = t.as_dict()
    return dict(factor=int(d["factor"]), conj=bool(d["conj"]),
                tr=tuple(int(x) for x in d["transpose_axes"]) if d["transpose_axes"] is not None else (),
                sw=tuple(int(x) for x in d["swap_axes"]) if d["swap_axes"] is not None else ())


def project(r):
    """real object -> the fields of the spec record that C16 talks about"""
    EnergyResult, KBandResult, ResultDict, VoidResult, ps = wb()
    if isinstance(r, VoidResult):
        return dict(kind="V")
    if isinstance(r, EnergyResult):
        ne = len(r.Energies)
        en = []
        for e in r.Energies:
            e = np.asarray(e, dtype=float)
            if e.size and np.abs(e - np.rint(e)).max() > TOL_INT:
                raise NonIntegral(f"energies {e}")
            en.append(tuple(int(x) for x in np.rint(e)))
        return dict(kind="E", shape=tuple(int(x) for x in r.data.shape[:ne]), rank=int(r.rank), data=proj_data(r.data),
                    en=tuple(en), titles=tuple(str(x) for x in r.E_titles), tTR=proj_transform(r.transformTR),
                    tInv=proj_transform(r.transformInv), comment=str(r.comment))
    if isinstance(r, KBandResult):
        full = k_full(r)
        return dict(kind="K", nb=int(full.shape[1]), rank=int(r.rank), nk=int(full.shape[0]), data=proj_data(full),
                    tTR=proj_transform(r.transformTR), tInv=proj_transform(r.transformInv))
    if isinstance(r, ResultDict):
        return dict(kind="D", items={k: project(v) for k, v in r.results.items()})
    return dict(kind="?", type=type(r).__name__)


def k_full(r):
    """all k-points of a real K__Result as one array (does not merge its chunks when data_list is there)"""
    d = getattr(r, "data_list", None)
    if isinstance(d, (list, tuple)) and len(d) > 0:
        return np.vstack(list(d)) if len(d) > 1 else np.asarray(d[0])
    SKIPPED_PRIVATE.add("K__Result.data_list")
    return np.asarray(r.data)


def expected(o):
    """spec record -> the same fields as project()"""
    k = o["kind"]
    if k == "V":
        return dict(kind="V")
    if k == "E":
        return dict(kind="E", shape=tuple(o["shape"]), rank=o["rank"], data=tuple(tuple(x) for x in o["data"]),
                    en=tuple(tuple(e) for e in o["en"]), titles=tuple(o["titles"]), tTR=norm_t(o["tTR"]), tInv=norm_t(o["tInv"]),
                    comment=o["comment"])
    if k == "K":
        return dict(kind="K", nb=o["nb"], rank=o["rank"], nk=sum(o["chunks"]), data=tuple(tuple(x) for x in o["data"]),
                    tTR=norm_t(o["tTR"]), tInv=norm_t(o["tInv"]))
    if k == "D":
        return dict(kind="D", items={key: expected(v) for key, v in o["items"].items()})
    return dict(kind=k)


def norm_t(t):
    if t == ():
        return ()
    return dict(factor=t["factor"], conj=t["conj"], tr=tuple(t["tr"]), sw=tuple(t["sw"]))


META = ("comment", "titles")     # demanded only of a reloaded result (and there against the saved real object)


def diff_fields(exp, got, prefix="", ignore=META):
    """names of the fields in which two projections differ"""
    if exp.get("kind") != got.get("kind"):
        return [prefix + "kind"]
    if exp["kind"] == "D":
        bad = []
        if set(exp["items"]) != set(got["items"]):
            return [prefix + "keys"]
        for k in exp["items"]:
            bad += diff_fields(exp["items"][k], got["items"][k], prefix + k + ".", ignore)
        return bad
    return [prefix + f for f in exp if f not in ignore and exp[f] != got.get(f)]


def jsonable(x):
    if isinstance(x, dict):
        return {str(k): jsonable(v) for k, v in x.items()}
    if isinstance(x, (tuple, list)):
        return [jsonable(v) for v in x]
    return x


def sig(o):
    """short class signature of a spec object"""
    if o["kind"] == "D":
        return "D{" + ",".join(f"{k}:{sig(v)}" for k, v in sorted(o["items"].items())) + "}"
    return o["kind"]


# ----------------------------------------------------------------------------- operations of the C16 state machine
CLASS = {"E": "EnergyResult", "K": "KBandResult", "D": "ResultDict", "V": "VoidResult"}
METHOD = dict(Add="__add__", Sub="__sub__", AddInPlace="add", Mul="__mul__", Div="__truediv__", AddVoidRight="__add__",
              AddVoidLeft="__add__", SubVoidRight="__sub__", SubVoidLeft="__sub__", Transform="transform", SaveNpz="save",
              SaveVoid="save", LoadNpz="from_npz", AddZeroLeft="__radd__", AddNoneRight="__add__", MulArray="mul_array",
              AddInPlaceVoid="add")


def where_raised(ex):
    """innermost frame inside wannierberri: Class.function"""
    tb = traceback.extract_tb(ex.__traceback__)
    frames = [f for f in tb if "wannierberri" in f.filename]
    inner = None
    t = ex.__traceback__
    while t is not None:
        if "wannierberri" in t.tb_frame.f_code.co_filename:
            inner = t.tb_frame
        t = t.tb_next
    if inner is None:
        return "harness"
    slf = inner.f_locals.get("self")
    cls = type(slf).__name__ + "." if slf is not None else ""
    return f"{cls}{inner.f_code.co_name}"


def apply_op(ev, objs, files, step, scratch):
    """executes one hist entry on the real objects. Returns the new object (or None)."""
    EnergyResult, KBandResult, ResultDict, VoidResult, ps = wb()
    op, i, j, s, g = ev["op"], ev["i"], ev["j"], ev["s"], ev["g"]
    a = objs[i - 1] if op not in ("LoadNpz", "SaveVoid") else None
    b = objs[j - 1] if j else None
    if op == "Add":
        return a + b
    if op == "Sub":
        return a - b
    if op == "AddInPlace":
        a.add(b)
        return None
    if op == "AddInPlaceVoid":
        a.add(VoidResult() if step % 2 == 0 else None)        # the void result and None alternate
        return None
    if op == "Mul":
        return a * scalar_variant(s, step + 2 * i + abs(s))     # every type meets every operand within two steps
    if op == "Div":
        return a / (s if step % 2 == 0 else float(s))
    if op == "AddVoidRight":
        return a + VoidResult()
    if op == "AddVoidLeft":
        return VoidResult() + a
    if op == "SubVoidRight":
        return a - VoidResult()
    if op == "SubVoidLeft":
        return VoidResult() - a
    if op == "AddZeroLeft":
        return 0 + a
    if op == "AddNoneRight":
        return a + None
    if op == "MulArray":
        # s = 1-based axis; the first axis is also reached through axes=None every other step
        v = np.array(ev["v"], dtype=float)
        if s == 1 and step % 2 == 1:
            return a.mul_array(v)
        return a.mul_array(v, axes=s - 1)
    if op == "Transform":
        return a.transform(real_syms()[g])
    if op in ("SaveNpz", "SaveVoid"):
        name = os.path.join(scratch, f"res_{len(files)}")
        (a if op == "SaveNpz" else VoidResult()).save(name)
        files.append(name + ".npz")
        return None
    if op == "LoadNpz":
        return EnergyResult.from_npz(files[i - 1])
    raise MachineryError(f"unknown operation {op}")


def scalar_variant(s, step):
    """the integer scalar s of the specification as int, float, np.int64, np.float32, np.float64 (by the step number)"""
    return (int(s), float(s), np.int64(s), np.float32(s), np.float64(s))[step % 5]


def read_npz(path):
    """the real file -> the fields of the abstract file of the spec (SaveNpz).  Information only (the layout of the file
    is not part of the property): a field that cannot be read is reported as "<missing>" / "<unreadable>", never raised."""
    try:
        res = np.load(open(path, "rb"), allow_pickle=True)
        names = set(res.files)
    except Exception as ex:
        return dict(type=f"<unreadable: {type(ex).__name__}>")
    if "type" in names and str(res["type"]) == "VoidResult":
        return dict(type="VoidResult")

    def field(f):
        try:
            return f()
        except NonIntegral:
            return "<non-integral>"
        except Exception:
            return "<missing>"

    def td(key):
        d = res[key].item()
        return dict(conj=bool(d["conj"]), factor=int(d["factor"]),
                    transpose_axes=tuple(d["transpose_axes"]) if d["transpose_axes"] is not None else (),
                    swap_axes=tuple(d["swap_axes"]) if d["swap_axes"] is not None else ())
    titles = field(lambda: tuple(str(x) for x in res["E_titles"]))
    rank = field(lambda: int(res["rank"]))
    return dict(type="EnergyResult", E_titles=titles, data=field(lambda: proj_data(res["data"])),
                dshape=field(lambda: tuple(res["data"].shape[:res["data"].ndim - rank])), rank=rank,
                transformTR=field(lambda: td("transformTR")), transformInv=field(lambda: td("transformInv")),
                comment=field(lambda: str(res["comment"])),
                Energies=field(lambda: tuple(tuple(int(x) for x in np.rint(res[f"Energies_{k}"])) for k in range(len(titles)))))


def file_is_readable(f):
    return f.get("type") in ("VoidResult", "EnergyResult") and not any(isinstance(v, str) and v.startswith("<") for k, v in f.items() if k not in ("comment", "type"))


def expected_file(f):
    if f["type"] == "VoidResult":
        return dict(type="VoidResult")                      # the text of its comment is not compared
    return dict(type="EnergyResult", E_titles=tuple(f["E_titles"]), data=tuple(tuple(x) for x in f["data"]), dshape=tuple(f["dshape"]),
                rank=f["rank"], transformTR={k: (tuple(v) if isinstance(v, tuple) else v) for k, v in f["transformTR"].items()},
                transformInv={k: (tuple(v) if isinstance(v, tuple) else v) for k, v in f["transformInv"].items()},
                comment=f["comment"], Energies=tuple(tuple(e) for e in f["Energies"]))


# ----------------------------------------------------------------------------- JSON records for ResultAlgRec
def rec_transform(t):
    p = proj_transform(t) if not isinstance(t, (dict, tuple)) else t
    if p == ():
        return dict(factor=0, conj=False, tr=[], sw=[], none=True)
    return dict(factor=p["factor"], conj=p["conj"], tr=list(p["tr"]), sw=list(p["sw"]), none=False)


def rec_obj(p):
    """projection (project()/expected()) -> JSON object read by ResultAlgRec.tla"""
    k = p["kind"]
    if k == "V":
        return dict(kind="V")
    if k == "E":
        return dict(kind="E", shape=list(p["shape"]), rank=p["rank"], data=[list(x) for x in p["data"]], en=[list(e) for e in p["en"]],
                    titles=list(p["titles"]), tTR=rec_transform(p["tTR"]), tInv=rec_transform(p["tInv"]), comment=p["comment"])
    if k == "K":
        return dict(kind="K", nb=p["nb"], rank=p["rank"], chunks=[p["nk"]], data=[list(x) for x in p["data"]],
                    tTR=rec_transform(p["tTR"]), tInv=rec_transform(p["tInv"]))
    if k == "D":
        return dict(kind="D", items={key: rec_obj(v) for key, v in p["items"].items()})
    raise MachineryError(f"no record form for {p}")


# ----------------------------------------------------------------------------- smoothing (C17)
_SMOOTHERS = {}


class PrivateGone(Exception):
    """the private protocol of AbstractSmoother (__init__(E, smear, maxdE), _broaden, dE, NE1, smt, _params) through
    which the harness injects the integer kernels of the specification is not there any more"""


def int_kernel_smoother(kernel, ne):
    """cached per (kernel, ne): results that are added must carry equal smoothers (same class, same parameters).
    Raises PrivateGone when the private protocol changed (the callers skip the exact-kernel sub-checks then)."""
    key = (tuple(kernel), ne)
    if key not in _SMOOTHERS:
        try:
            _SMOOTHERS[key] = _int_kernel_smoother(list(kernel), ne)
        except MachineryError as ex:
            raise PrivateGone(str(ex))
        except (AttributeError, TypeError, IndexError, ValueError) as ex:
            raise PrivateGone(f"{type(ex).__name__}: {ex}")
    return _SMOOTHERS[key]


def response_matrix(sm, ne, dtype=float):
    """black box: M[i, j] = sm(e_j)[i] - how a smoother acts, without looking inside it"""
    return np.array(sm(np.eye(ne, dtype=dtype), axis=0))


def _int_kernel_smoother(kernel, ne):
    """a real AbstractSmoother (its own __init__ and __call__) whose _broaden returns the integer kernel of the spec:
    E = 0..ne-1 (dE = 1), smear = 1, maxdE = NE1  =>  NE1 = int(maxdE * smear / dE), smt = kernel * dE = kernel"""
    from wannierberri.smoother import AbstractSmoother, VoidSmoother
    if len(kernel) == 0:
        return VoidSmoother()
    kern = np.array(kernel, dtype=float)
    h = (len(kernel) - 1) // 2

    class IntKernelSmoother(AbstractSmoother):
        _params = ['smear', 'E', 'maxdE', 'NE1', 'smt']

        def __init__(self, E, smear, maxdE):
            super().__init__(E, smear, maxdE)

        def _broaden(self, E):
            idx = np.rint(E / self.dE).astype(int) + h
            return kern[idx]

    sm = IntKernelSmoother(np.arange(ne, dtype=float), 1.0, h)
    if sm.NE1 != h or not np.array_equal(sm.smt, kern):
        raise MachineryError(f"harness smoother did not get the kernel {kernel}: NE1={sm.NE1} smt={sm.smt}")
    return sm


def smooth_axis_py(kernel, fs, x, axis):
    """Python transcription of ResultAlg!SmoothAxis (exact when x holds Fractions / ints; float otherwise).
    It is validated against TLC on every replayed state before it is used with float kernels."""
    if len(kernel) == 0:
        return x
    x = np.asarray(x, dtype=object if isinstance(np.asarray(x).reshape(-1)[0], Fraction) else None)
    ne = fs[axis]
    h = (len(kernel) - 1) // 2
    xm = np.moveaxis(x, axis, 0)
    out = np.empty_like(xm)
    for i in range(ne):
        lo, hi = max(0, i - h), min(ne, i + h + 1)
        acc = 0
        w = 0
        for j in range(lo, hi):
            acc = acc + xm[j] * kernel[h + j - i]
            w = w + kernel[h + j - i]
        out[i] = acc / w
    return np.moveaxis(out, 0, axis)


def frac_array(ints, shape):
    a = np.empty(len(ints), dtype=object)
    for k, v in enumerate(ints):
        a[k] = Fraction(int(v))
    return a.reshape(shape)
