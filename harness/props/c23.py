"""C23: Monkhorst-Pack mesh detection recovers the mesh.

spec  : MPGrid.tla (transcription of w90files/utility.py get_mp_grid and grid_from_kpoints over exact fractions + the
        property clauses), MC_MPGrid (every mesh / order / removed / duplicated / shifted input inside the constants)
bind  : every finished TLC state is one test of the real get_mp_grid, grid_from_kpoints(grid=None),
        grid_from_kpoints(grid=mesh) and grid_from_kpoints(grid=coarser mesh): return value or exception class compared
        exactly; seeded random calls (larger meshes up to the supported denominator 100, true random orders, several
        points removed / duplicated, random shifts) are recorded and validated by TLC against MPGridRec.tla
"""
import copy
import math
import random
import warnings
import numpy as np

from .. import tlc, ftable
from ..common import Report, MachineryError, seed

PROPS = {
    "C23": dict(level="model_checking",
                technique="TLC exhaustive on MPGrid.tla (transcription of get_mp_grid / grid_from_kpoints over exact fractions, all Gamma-centred meshes "
                          "up to the constants in all / keyed orders, with one point removed or duplicated, shifted meshes) + replay of every TLC state on "
                          "the real functions + TLC validation of recorded random calls",
                text="TLC enumerates every mesh (n1,n2,n3) inside the constants in every order (all permutations up to 5 points, seeded key orders "
                     "above), with one point removed or duplicated and with Monkhorst-Pack shifts, computes the return value or exception class of the "
                     "transcription and checks: complete meshes are detected by both functions, the selection for a given (or coarser) mesh names each "
                     "mesh point exactly once, duplicated points are counted once, incomplete meshes are rejected with ValueError. Every state is "
                     "executed on the real functions and compared exactly; random larger inputs are recorded and every clause of MPGridRec is evaluated "
                     "on them by TLC.",
                note="coordinates are exact fractions p/DEN passed as correctly rounded floats (and, as a second format, rounded to 8 decimals, the "
                     "precision get_mp_grid rounds to itself); denominators <= 100 (limit_denominator(100) is exact there)",
                ref="DESIGN.md 3.2"),
}

INVS = ["InModel", "CompleteDetected", "DuplicateOnce", "IncompleteRejected", "SubmeshOnce", "ReturnedGridHoldsPoints", "ReturnedGridComplete"]


def call(fn, *a, **kw):
    """-> (exception class name or '', value as list of ints)"""
    with warnings.catch_warnings():
        warnings.simplefilter("ignore")
        try:
            r = fn(*a, **kw)
        except (AssertionError, ValueError, RuntimeError) as ex:
            return (type(ex).__name__, [])
    return ("", [int(x) for x in r])


def floats(pts, den, fmt):
    k = np.array(pts, dtype=float).reshape(-1, 3) / den
    if fmt == "dec8":
        k = np.round(k, 8)
    return k


def res_of(r):
    return (r["err"], [int(x) for x in r["val"]])


def check(pid, tier):
    rep = Report(pid, tier, "model_checking")
    thorough = tier == "thorough"
    rng = random.Random(seed() * 7919 + 23)
    from wannierberri.w90files.utility import get_mp_grid, grid_from_kpoints
    rep.rule("TLC enumerates every Gamma-centred mesh inside (NMAX, MAXPTS) in all permutations (<= 5 points) or seeded key orders, with one "
             "point removed / duplicated and with shifts; a case = one finished TLC state executed on get_mp_grid, grid_from_kpoints(None), "
             "grid_from_kpoints(mesh), grid_from_kpoints(coarser mesh) with exact comparison of value or exception class, plus seeded random "
             "recorded calls validated by TLC; distinct by input")
    rep.assume("coordinates are fractions with denominator <= 100 in [0,1), given as correctly rounded floats or rounded to 8 decimals")
    keys = [1000, 100000] + [1000 * rng.randint(2, 99) + rng.randint(0, 100) for _ in range(10 if thorough else 3)]
    nmax, maxpts = (6, 72) if thorough else (4, 64)
    def mkcfg(nm, mp, dedup):
        return (f"SPECIFICATION Spec\nCONSTANTS\n  NMAX = {nm}\n  MAXPTS = {mp}\n  ALLPERM = 5\n"
                f"  PermKeys = {{{', '.join(str(k) for k in sorted(set(keys)))}}}\n  Shifts = {{2111, 2100, 2001, 3111, 3120}}\n"
                f"  Dedup = {'TRUE' if dedup else 'FALSE'}\n" + "".join(f"INVARIANT {i}\n" for i in INVS) + "CHECK_DEADLOCK FALSE\n")
    # sensitivity self-test: a selection that does not skip repeated points must be rejected by TLC
    st0 = tlc.run_tlc("MC_MPGrid.tla", mkcfg(2, 8, False), "c23_mpgrid_v0", workers=2, timeout=900)
    if not st0.get("violation") or st0["violation"][1] not in ("DuplicateOnce", "SubmeshOnce"):
        raise MachineryError(f"sensitivity self-test failed: MC_MPGrid with Dedup=FALSE should violate DuplicateOnce, TLC says {st0.get('violation')} {(st0.get('error') or '')[:300]}")
    rep.part("c23_mpgrid_v0", sensitivity_violation=st0["violation"][1])
    st = ftable.enumerate_states("MC_MPGrid.tla", mkcfg(nmax, maxpts, True), "c23_mpgrid", workers=8, timeout=3000)
    ftable.spec_violation(rep, st, "c23_mpgrid")
    rep.add_tlc("c23_mpgrid", st)
    if rep.violations:
        return rep.finish()
    tlc.check_not_vacuous(st, ["Call"], "c23_mpgrid")
    counts = {}
    ndone = 0
    for s in ftable.dump_states(st):
        if s["pc"] != "done":
            continue
        ndone += 1
        kind, n, pts = s["kind"], tuple(s["n"]), [tuple(p) for p in s["pts"]]
        half = tuple(x // 2 if x % 2 == 0 else x for x in n)
        fmt = "exact" if ndone % 3 else "dec8"
        k = floats(pts, 720, fmt)
        exp = dict(mp=res_of(s["mp"]), none=res_of(s["gnone"]), sel=res_of(s["gsel"]), sub=res_of(s["gsub"]))
        got = dict(mp=call(get_mp_grid, k), none=call(grid_from_kpoints, k), sel=call(grid_from_kpoints, k, grid=n),
                   sub=call(grid_from_kpoints, k, grid=half))
        rep.case((kind, n, tuple(pts)), nontrivial=len(pts) > 1)
        cls = kind + ":" + ("ok" if exp["mp"][0] == "" else exp["mp"][0])
        counts[cls] = counts.get(cls, 0) + 1
        counts["sel:" + (exp["sel"][0] or "ok")] = counts.get("sel:" + (exp["sel"][0] or "ok"), 0) + 1
        for what, fn in (("mp", "get_mp_grid"), ("none", "grid_from_kpoints:detect"), ("sel", "grid_from_kpoints:select"), ("sub", "grid_from_kpoints:select_coarser")):
            if got[what] != exp[what]:
                rep.violation(f"{fn}:{kind}", dict(function=fn, kind=kind, mesh=n, grid_argument={"mp": None, "none": None, "sel": n, "sub": half}[what],
                                                  kpoints_numerators=pts, denominator=720, float_format=fmt,
                                                  expected=exp[what], got=got[what]))
        if ndone <= 2:
            rep.sample(dict(kind=kind, mesh=n, kpoints_over_720=pts[:6], get_mp_grid=exp["mp"], select=exp["sel"]))
    if 2 * ndone != st["distinct"]:
        raise MachineryError(f"{ndone} finished states for {st['distinct']} TLC states")
    for need in ("complete:ok", "removed:ok", "removed:AssertionError", "dup:ok", "shifted:ok", "shifted:AssertionError", "sel:ValueError", "sel:ok"):
        if not counts.get(need):
            raise MachineryError(f"case class {need} never occurred ({counts})")
    rep.part("replay", **counts)

    # ---------------- code -> spec: random recorded calls
    recs = []
    nrec = 900 if thorough else 200
    while len(recs) < nrec:
        r = rng.random()
        if r < 0.15:      # one-dimensional meshes up to the supported denominator
            n = [1, 1, 1]
            n[rng.randrange(3)] = rng.randint(7, 100)
        elif r < 0.5:
            n = [rng.randint(1, 8) for _ in range(3)]
        else:
            n = [rng.choice([1, 2, 3, 4, 5, 6, 8, 10, 12]) for _ in range(3)]
        N = n[0] * n[1] * n[2]
        if N > 400:
            continue
        Q = rng.choice([1, 1, 1, 2, 3])
        den = math.lcm(n[0], n[1], n[2]) * Q
        if max(Q * x for x in n) > 100:
            Q, den = 1, math.lcm(n[0], n[1], n[2])
        mesh = [(i * (den // n[0]), j * (den // n[1]), l * (den // n[2])) for i in range(n[0]) for j in range(n[1]) for l in range(n[2])]
        kind = rng.choice(["complete", "complete", "removed", "dup", "shifted"]) if Q > 1 else rng.choice(["complete", "complete", "removed", "dup"])
        pts = list(mesh)
        if kind == "removed":
            if N == 1:
                continue
            for _ in range(rng.randint(1, min(3, N - 1))):
                pts.pop(rng.randrange(len(pts)))
        elif kind == "dup":
            for _ in range(rng.randint(1, 3)):
                pts.append(rng.choice(mesh))
        elif kind == "shifted":
            sh = [rng.randint(0, Q - 1) for _ in range(3)]
            if not any(sh):
                sh[rng.randrange(3)] = 1
            pts = [tuple((p[a] + sh[a] * (den // (Q * n[a]))) % den for a in range(3)) for p in pts]
        rng.shuffle(pts)
        which = rng.choice(["none", "mesh", "coarser"])
        grid = []
        if which == "mesh":
            grid = list(n)
        elif which == "coarser":
            grid = [x // rng.choice([d for d in range(1, x + 1) if x % d == 0]) for x in n]
        k = floats(pts, den, rng.choice(["exact", "exact", "dec8"]))
        mp = call(get_mp_grid, k)
        gfk = call(grid_from_kpoints, k, grid=tuple(grid) if grid else None)
        recs.append(dict(kind=kind, n=n, DEN=den, pts=[list(p) for p in pts], grid=grid,
                         mp=dict(err=mp[0], val=mp[1]), gfk=dict(err=gfk[0], val=gfk[1])))
        rep.case(("rec", kind, tuple(n), tuple(pts), tuple(grid)))
    stv, bad = ftable.validate_records("MPGridRec.tla", ftable.REC_CFG, recs, "c23", chunk=300)
    rep.add_tlc("c23_records", stv)
    rep.add_traces(len(recs))
    for i, clauses in bad.items():
        r = recs[i]
        if "in_model" in clauses:
            raise MachineryError(f"recorded call outside the model: {str(r)[:300]}")
        fn = "get_mp_grid" if any(c.startswith("mp") or c == "complete_detected" for c in clauses) else "grid_from_kpoints"
        rep.violation(f"{fn}:recorded:{r['kind']}", dict(record=r, failing_clauses=clauses))
    rep.sample(dict(recorded=dict(recs[0], pts=recs[0]["pts"][:6])))
    # binding self-test: corrupted records must be rejected
    badrecs = []
    r = copy.deepcopy(next(r for r in recs if r["kind"] == "complete" and r["mp"]["err"] == "" and max(r["n"]) > 1))
    r["mp"]["val"][0] += 1
    badrecs.append(r)
    r = copy.deepcopy(next(r for r in recs if r["grid"] and r["gfk"]["err"] == "" and len(r["gfk"]["val"]) > 1))
    r["gfk"]["val"] = r["gfk"]["val"][:-1]
    badrecs.append(r)
    r = copy.deepcopy(next(r for r in recs if r["gfk"]["err"] == "ValueError"))
    r["gfk"]["err"] = "RuntimeError"
    badrecs.append(r)
    _, b2 = ftable.validate_records("MPGridRec.tla", ftable.REC_CFG, badrecs, "c23_selftest")
    if sorted(b2) != list(range(len(badrecs))):
        raise MachineryError(f"binding self-test failed: corrupted records accepted {sorted(set(range(len(badrecs))) - set(b2))}")
    rep.part("binding_selftest", corrupted_records_rejected={str(k_): v for k_, v in b2.items()})
    return rep.finish()
