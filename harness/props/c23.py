"""C23: Monkhorst-Pack mesh detection recovers the mesh.

spec  : MPGrid.tla (transcription of w90files/utility.py get_mp_grid and grid_from_kpoints over exact fractions + the
        property clauses: a selection / detected grid is returned iff the points lying on the grid are the whole mesh,
        a returned selection names each mesh point exactly once, a duplicate-free mesh is detected by get_mp_grid),
        MC_MPGrid (every mesh / order / removed / duplicated / shifted input inside the constants; grid arguments: none,
        the mesh, a coarser mesh, a grid that is neither)
bind  : every finished TLC state is one test of the real get_mp_grid, grid_from_kpoints(grid=None / mesh / coarser /
        other): the STATUS (returned vs rejected, any exception class) must be the one of the state, a returned
        selection must name each mesh point exactly once (any order, any copy of a repeated point), a detected grid must
        be the grid; the literal return values of today's code (order of the indices, exception class, get_mp_grid on
        lists that are not meshes) are compared for information only.  Seeded random calls (larger meshes, several points
        removed / duplicated, random shifts, arbitrary grid arguments) are recorded and validated by TLC (MPGridRec.tla).
"""
import copy
import math
import os
import random
import shutil
import warnings
import zlib
import numpy as np

from .. import tlc, ftable
from ..common import Report, MachineryError, seed, WORK

PROPS = {
    "C23": dict(level="model_checking",
                technique="TLC exhaustive on MPGrid.tla (transcription of get_mp_grid / grid_from_kpoints over exact fractions, all Gamma-centred meshes "
                          "up to the constants in all / keyed orders, with one point removed or duplicated, shifted meshes; grid argument none / mesh / "
                          "coarser / neither) + replay of every TLC state on the real functions (status and property clauses) + TLC validation of "
                          "recorded random calls",
                text="TLC enumerates every mesh (n1,n2,n3) inside the constants (quick: n <= 4, thorough: n <= 6) in every order (all permutations up "
                     "to 5 points; above that 5 (quick) / 12 (thorough) seeded affine key orders), with one point removed or duplicated and with "
                     "Monkhorst-Pack shifts, and checks on the transcription: complete meshes are detected by both functions, a selection is returned "
                     "iff the points on the requested grid are the whole mesh (otherwise it is rejected), a returned selection names each mesh "
                     "point exactly once, duplicated points are counted once. Every finished state is executed on the real functions: the status "
                     "(returned / raised, any exception class) must agree and returned values must satisfy the same clauses (any order of the "
                     "indices). Seeded random records (3-D meshes up to 12 per direction and a few up to 24 (at most 400 points), denominator 100 only for meshes "
                     "along one direction, 1-3 points removed / duplicated, random shifts, grid argument = mesh / divisor / arbitrary, given as tuple, "
                     "list or array) are validated clause by clause by TLC (MPGridRec).",
                note="coordinates are exact fractions p/DEN in [0,1) passed as correctly rounded floats and, for denominators <= 18, also rounded to 8 "
                     "decimals (for larger denominators 8-decimal input sits on the code's own rounding edge np.round(k1, 6): excluded); get_mp_grid on "
                     "lists that are not duplicate-free meshes, exception classes, the order of the selected indices, 6-decimal input and integer "
                     "shifts of the coordinates are reported as information only (parts conformance_info / numeric_only)",
                ref="DESIGN.md 3.2"),
}

INVS = ["InModel", "CompleteDetected", "DuplicateOnce", "IncompleteRejected", "SubmeshOnce", "ReturnedGridHoldsPoints", "ReturnedGridComplete",
        "StatusIsProperty", "SelectionsOnce", "MpDetectsAnyMesh"]
DEC8_MAXDEN = 18        # 8-decimal input only for denominators up to this (deviation * denominator <= 1e-7)


def call(rep, site, fn, *a, **kw):
    """-> (exception class name or '', value as list of ints).  Any exception of the library is a rejection."""
    with warnings.catch_warnings():
        warnings.simplefilter("ignore")
        try:
            r = fn(*a, **kw)
        except Exception as ex:
            return (type(ex).__name__, [])
    try:
        return ("", [int(x) for x in r])
    except Exception as ex:
        rep.violation(f"{site}:return_type", dict(function=site, returned=repr(r)[:200], error=str(ex)))
        return ("", [])


def floats(pts, den, fmt):
    k = np.array(pts, dtype=float).reshape(-1, 3) / den
    if fmt == "dec8":
        k = np.round(k, 8)
    elif fmt == "dec6":
        k = np.round(k, 6)
    return k


def res_of(r):
    return (r["err"], [int(x) for x in r["val"]])


def on_grid(p, g, den):
    return all((p[a] * g[a]) % den == 0 for a in range(3))


def once(sel, pts, g, den):
    """the selected indices name each point of the mesh g exactly once (MPGrid.EachMeshPointOnce)"""
    if any((not 0 <= i < len(pts)) or not on_grid(pts[i], g, den) for i in sel):
        return False
    chosen = [pts[i] for i in sel]
    return len(set(chosen)) == len(chosen) == g[0] * g[1] * g[2]


def stable(obj, m):
    return zlib.crc32(repr(obj).encode()) % m


def check(pid, tier):
    rep = Report(pid, tier, "model_checking")
    tag = f"c23_{os.getpid()}"
    made = []
    try:
        rc = _check(rep, tier, tag, made)
    except Exception as ex:
        if rep.violations:
            print(f"[C23] the check stopped early ({type(ex).__name__}: {str(ex)[:300]}); reporting the violations collected so far")
            try:
                return rep.finish()
            except Exception:
                pass
        raise
    if rc == 0:      # scratch of this process (names carry the pid); kept for inspection after a violation
        import glob
        for d in made + glob.glob(os.path.join(WORK, "tlc", f"*{tag}*")) + glob.glob(os.path.join(WORK, "records", f"{tag}*")):
            shutil.rmtree(d, ignore_errors=True)
    return rc


def _check(rep, tier, tag, made):
    thorough = tier == "thorough"
    rng = random.Random(seed() * 7919 + 23)
    from wannierberri.w90files.utility import get_mp_grid, grid_from_kpoints
    rep.rule("TLC enumerates every Gamma-centred mesh inside (NMAX, MAXPTS) in all permutations (<= 5 points) or seeded key orders, with one "
             "point removed / duplicated and with shifts; a case = one finished TLC state executed on get_mp_grid, grid_from_kpoints(None), "
             "grid_from_kpoints(mesh), grid_from_kpoints(coarser mesh), grid_from_kpoints(other grid): status (returned / raised) as in the state, "
             "returned values checked against the property clauses (each mesh point once, detected grid), plus seeded random recorded calls "
             "validated by TLC; distinct by input")
    rep.assume("coordinates are fractions with denominator <= 100 in [0,1), given as correctly rounded floats or (denominator <= 18) rounded to 8 decimals")
    keys = [1000, 100000] + [1000 * rng.randint(2, 99) + rng.randint(0, 100) for _ in range(10 if thorough else 3)]
    nmax, maxpts = (6, 72) if thorough else (4, 64)

    def mkcfg(nm, mp, dedup):
        return (f"SPECIFICATION Spec\nCONSTANTS\n  NMAX = {nm}\n  MAXPTS = {mp}\n  ALLPERM = 5\n"
                f"  PermKeys = {{{', '.join(str(k) for k in sorted(set(keys)))}}}\n  Shifts = {{2111, 2100, 2001, 3111, 3120}}\n"
                f"  Dedup = {'TRUE' if dedup else 'FALSE'}\n" + "".join(f"INVARIANT {i}\n" for i in INVS) + "CHECK_DEADLOCK FALSE\n")
    # sensitivity self-test: a selection that does not skip repeated points must be rejected by TLC
    st0 = tlc.run_tlc("MC_MPGrid.tla", mkcfg(2, 8, False), f"{tag}_mpgrid_v0", workers=2, timeout=1800)
    made.append(st0["meta"])
    if not st0.get("violation") or st0["violation"][1] not in ("DuplicateOnce", "SubmeshOnce", "StatusIsProperty", "SelectionsOnce"):
        raise MachineryError(f"sensitivity self-test failed: MC_MPGrid with Dedup=FALSE should violate DuplicateOnce, TLC says {st0.get('violation')} {(st0.get('error') or '')[:300]}")
    rep.part("c23_mpgrid_v0", sensitivity_violation=st0["violation"][1])
    st = ftable.enumerate_states("MC_MPGrid.tla", mkcfg(nmax, maxpts, True), f"{tag}_mpgrid", workers=4, timeout=3000)
    made.append(st["meta"])
    ftable.spec_violation(rep, st, "c23_mpgrid")
    rep.add_tlc("c23_mpgrid", st)
    if rep.violations:
        return rep.finish()
    tlc.check_not_vacuous(st, ["Call"], "c23_mpgrid")
    counts = {}
    info = dict(mp_differs_from_transcription=0, selection_differs_from_transcription=0, exception_class_differs=0)
    ndone = 0
    nsample = 0
    DEN = 720
    for s in ftable.dump_states(st):
        if s["pc"] != "done":
            continue
        ndone += 1
        kind, n, pts = s["kind"], tuple(s["n"]), [tuple(p) for p in s["pts"]]
        half = tuple(x // 2 if x % 2 == 0 else x for x in n)
        other = (n[0] + 1, n[1], 2 * n[2])
        h = stable((kind, n, pts), 6)
        fmt = "dec8" if h % 3 == 0 else "exact"
        k = floats(pts, DEN, fmt)
        grids = dict(mp=None, none=None, sel=n, sub=half, oth=other)
        exp = dict(mp=res_of(s["mp"]), none=res_of(s["gnone"]), sel=res_of(s["gsel"]), sub=res_of(s["gsub"]), oth=res_of(s["goth"]))
        kin = k.tolist() if h == 1 else k            # get_mp_grid also accepts lists
        gsel = list(n) if h == 2 else (np.array(n) if h == 4 else n)      # the grid as list / array / tuple
        got = dict(mp=call(rep, "get_mp_grid", get_mp_grid, kin), none=call(rep, "grid_from_kpoints", grid_from_kpoints, k),
                   sel=call(rep, "grid_from_kpoints", grid_from_kpoints, k, grid=gsel),
                   sub=call(rep, "grid_from_kpoints", grid_from_kpoints, k, grid=half),
                   oth=call(rep, "grid_from_kpoints", grid_from_kpoints, k, grid=other))
        rep.case((kind, n, tuple(pts)), nontrivial=len(pts) > 1)
        cls = kind + ":" + ("detected" if exp["mp"][0] == "" else "rejected")
        counts[cls] = counts.get(cls, 0) + 1
        for w_ in ("sel", "oth"):
            c_ = w_ + ":" + ("rejected" if exp[w_][0] else "ok")
            counts[c_] = counts.get(c_, 0) + 1
        is_mesh = exp["none"][0] == ""                 # StatusIsProperty: gnone is returned iff the points are a mesh
        nodup = len(set(pts)) == len(pts)
        names = dict(mp="get_mp_grid", none="grid_from_kpoints:detect", sel="grid_from_kpoints:select", sub="grid_from_kpoints:select_coarser",
                     oth="grid_from_kpoints:select_other_grid")

        def bad(what, why):
            rep.violation(f"{names[what]}:{kind}:{why}", dict(function=names[what], kind=kind, mesh=n, grid_argument=grids[what], kpoints_numerators=pts,
                                                              denominator=DEN, float_format=fmt, why=why, transcription=exp[what], got=got[what]))
        # get_mp_grid: a duplicate-free Gamma-centred mesh (in any order) must be detected; other lists: information
        if is_mesh and nodup:
            if got["mp"] != exp["mp"]:
                bad("mp", "mesh_not_detected")
        elif got["mp"] != exp["mp"]:
            info["mp_differs_from_transcription"] += 1
        # grid_from_kpoints
        for what in ("none", "sel", "sub", "oth"):
            e, g_ = exp[what], got[what]
            if (e[0] == "") != (g_[0] == ""):
                bad(what, "accepted_incomplete_mesh" if e[0] else "rejected_complete_mesh")
                continue
            if e[0] != g_[0]:
                info["exception_class_differs"] += 1
            if e[0] == "":
                if what == "none":
                    if g_[1] != e[1]:
                        bad(what, "wrong_grid")
                elif not once(g_[1], pts, grids[what], DEN):
                    bad(what, "not_each_mesh_point_once")
                elif g_[1] != e[1]:
                    info["selection_differs_from_transcription"] += 1
        if nsample < 2 and len(pts) > 1:
            nsample += 1
            rep.sample(dict(kind=kind, mesh=n, kpoints_over_720=pts[:6], get_mp_grid=exp["mp"], select=exp["sel"]))
    if 2 * ndone != st["distinct"]:
        raise MachineryError(f"{ndone} finished states for {st['distinct']} TLC states")
    for need in ("complete:detected", "removed:detected", "removed:rejected", "dup:detected", "shifted:detected", "shifted:rejected", "sel:rejected", "sel:ok",
                 "oth:rejected"):
        if not counts.get(need) and not rep.violations:
            raise MachineryError(f"case class {need} never occurred ({counts})")
    rep.part("replay", **counts)
    rep.part("conformance_info", **info)

    # ---------------- code -> spec: random recorded calls
    recs = []
    nrec = 900 if thorough else 200
    big = [(16, 16, 1), (20, 10, 2), (24, 12, 1), (1, 16, 16), (2, 12, 12)]
    nbig = 0
    # whole planes removed along one direction (class "removed"): the remaining coordinates of a composite size N may all have
    # smaller denominators than N (e.g. 0, 1/3, 1/2, 2/3 of a 6-mesh) - the list is a mesh only if the kept planes are a whole
    # coarser mesh.  Deterministic sub-classes per N: planes coprime to N removed; multiples of a prime factor kept / removed;
    # seeded subsets
    presets = []
    for NN in (4, 6, 8, 9, 10, 12) + ((14, 15, 18, 20) if thorough else ()):
        primes = [q for q in (2, 3, 5, 7) if NN % q == 0]
        keeps = [[j for j in range(NN) if math.gcd(j, NN) != 1]]
        keeps += [[j for j in range(NN) if j % q == 0] for q in primes] + [[j for j in range(NN) if j % q != 0 or j == 0] for q in primes]
        keeps += [sorted(rng.sample(range(NN), rng.randint(1, NN - 1))) for _ in range(2)]
        for keep in keeps:
            if 0 < len(keep) < NN:
                presets.append((NN, keep))
    nrec += len(presets)
    planes = dict(records=0)
    while len(recs) < nrec:
        r = rng.random()
        preset = presets.pop() if presets else None
        if preset is not None:
            n = [rng.choice([1, 1, 2, 3]) for _ in range(3)]
            pax = rng.randrange(3)
            n[pax] = preset[0]
        elif nbig < (10 if thorough else 3):   # a few larger 3-D meshes
            n = list(big[nbig % len(big)])
            nbig += 1
        elif r < 0.15:      # one-dimensional meshes up to the supported denominator
            n = [1, 1, 1]
            n[rng.randrange(3)] = rng.randint(7, 100)
        elif r < 0.5:
            n = [rng.randint(1, 8) for _ in range(3)]
        else:
            n = [rng.choice([1, 2, 3, 4, 5, 6, 8, 10, 12]) for _ in range(3)]
        N = n[0] * n[1] * n[2]
        if N > 400:
            continue
        Q = rng.choice([1, 1, 1, 2, 3])
        den = math.lcm(n[0], n[1], n[2]) * Q
        if max(Q * x for x in n) > 100:
            Q, den = 1, math.lcm(n[0], n[1], n[2])
        mesh = [(i * (den // n[0]), j * (den // n[1]), l * (den // n[2])) for i in range(n[0]) for j in range(n[1]) for l in range(n[2])]
        kind = rng.choice(["complete", "complete", "removed", "dup", "shifted"]) if Q > 1 else rng.choice(["complete", "complete", "removed", "dup"])
        pts = list(mesh)
        if preset is not None:
            kind = "removed"
            step = den // n[pax]
            pts = [p_ for p_ in mesh if (p_[pax] // step) in preset[1]]
            planes["records"] += 1
        elif kind == "removed":
            if N == 1:
                continue
            for _ in range(rng.randint(1, min(3, N - 1))):
                pts.pop(rng.randrange(len(pts)))
        elif kind == "dup":
            for _ in range(rng.randint(1, 3)):
                pts.append(rng.choice(mesh))
        elif kind == "shifted":
            sh = [rng.randint(0, Q - 1) for _ in range(3)]
            if not any(sh):
                sh[rng.randrange(3)] = 1
            pts = [tuple((p[a] + sh[a] * (den // (Q * n[a]))) % den for a in range(3)) for p in pts]
        rng.shuffle(pts)
        which = rng.choice(["none", "mesh", "coarser", "coarser", "any"]) if preset is None else rng.choice(["none", "none", "none", "mesh", "coarser"])
        grid = []
        if which == "mesh":
            grid = list(n)
        elif which == "coarser":
            grid = [x // rng.choice([d for d in range(1, x + 1) if x % d == 0]) for x in n]
        elif which == "any":      # finer / non-divisor grids: rejected unless the points on it happen to be the whole mesh
            grid = [max(1, x + rng.choice([-1, 0, 0, 1, x])) for x in n]
        maxden = max(Q * x for x in n)
        k = floats(pts, den, rng.choice(["exact", "exact", "dec8"]) if maxden <= DEC8_MAXDEN else "exact")
        garg = None
        if grid:
            garg = rng.choice([tuple(grid), list(grid), np.array(grid)])
        mp = call(rep, "get_mp_grid", get_mp_grid, k)
        gfk = call(rep, "grid_from_kpoints", grid_from_kpoints, k, grid=garg)
        recs.append(dict(kind=kind, n=n, DEN=den, pts=[list(p) for p in pts], grid=grid,
                         mp=dict(err=mp[0], val=mp[1]), gfk=dict(err=gfk[0], val=gfk[1])))
        rep.case(("rec", kind, tuple(n), tuple(pts), tuple(grid)))
    # binding self-test: corrupted copies of recorded calls must be rejected (validated in the same TLC run)
    badrecs = []

    def pick(pred, what):
        for r in recs:
            if pred(r):
                return copy.deepcopy(r)
        if rep.violations:
            return None
        raise MachineryError(f"binding self-test: no record with {what}")
    r = pick(lambda r: r["kind"] == "complete" and r["mp"]["err"] == "" and max(r["n"]) > 1, "a detected complete mesh")
    if r is not None:
        r["mp"]["val"][0] += 1
        badrecs.append((r, "complete_detected"))
    r = pick(lambda r: r["grid"] and r["gfk"]["err"] == "" and len(r["gfk"]["val"]) > 1, "a returned selection")
    if r is not None:
        r["gfk"]["val"] = r["gfk"]["val"][:-1]
        badrecs.append((r, "each_point_once"))
    r = pick(lambda r: r["grid"] and r["gfk"]["err"] == "" and len(r["gfk"]["val"]) > 1, "a returned selection")
    if r is not None:
        r["gfk"]["val"][1] = r["gfk"]["val"][0]
        badrecs.append((r, "each_point_once"))
    r = pick(lambda r: r["gfk"]["err"] != "", "a rejected call")
    if r is not None:      # a rejected incomplete mesh reported as accepted
        r["gfk"] = dict(err="", val=list(range(len(r["pts"]))) if r["grid"] else list(r["n"]))
        badrecs.append((r, "status_is_property"))
    stv, bad_ = ftable.validate_records("MPGridRec.tla", ftable.REC_CFG, recs + [b for b, _ in badrecs], tag, chunk=2000)
    b2 = {j: bad_.pop(len(recs) + j, []) for j in range(len(badrecs))}
    stv["distinct"] -= len(badrecs)
    stv["generated"] -= 2 * len(badrecs)
    rep.add_tlc("c23_records", stv)
    rep.add_traces(len(recs))
    rinfo = {}
    outside = []
    for i, clauses in sorted(bad_.items()):
        r = recs[i]
        hard = [c for c in clauses if not c.startswith("info_")]
        for c in clauses:
            if c.startswith("info_"):
                rinfo[c] = rinfo.get(c, 0) + 1
        if "in_model" in hard or "kind_consistent" in hard:
            outside.append((i, hard))
            continue
        if hard:
            fn = "get_mp_grid" if "complete_detected" in hard else "grid_from_kpoints"
            rep.violation(f"{fn}:recorded:{r['kind']}:{hard[0]}", dict(record=r, failing_clauses=hard))
    if outside and not rep.violations:
        raise MachineryError(f"recorded call outside the model: {outside[:3]} {str(recs[outside[0][0]])[:300]}")
    rep.part("records_info", **rinfo)
    if not rep.violations and planes["records"] < 20:
        raise MachineryError(f"only {planes['records']} records with whole planes removed")
    rep.part("planes_removed", **planes)
    rep.sample(dict(recorded=dict(recs[0], pts=recs[0]["pts"][:6])))
    if badrecs:
        missed = [c for j, (_, c) in enumerate(badrecs) if c not in b2.get(j, [])]
        if missed and not rep.violations:
            raise MachineryError(f"binding self-test failed: corrupted records accepted (expected failing clauses {missed}, TLC says {b2})")
        rep.part("binding_selftest", corrupted_records_rejected={str(k_): v for k_, v in b2.items()})
    shutil.rmtree(os.path.join(WORK, "records", tag), ignore_errors=True)
    shutil.rmtree(os.path.join(WORK, "records", f"{tag}_selftest"), ignore_errors=True)

    # ---------------- numeric only (information): other float formats and unreduced coordinates
    num = dict(dec6_detected=0, dec6_not_detected=0, shifted_by_integers_same=0, shifted_by_integers_differs=0, near_one_same=0, near_one_differs=0)
    for _ in range(60):
        n = [rng.choice([1, 2, 3, 4, 5, 6, 8, 10, 12]) for _ in range(3)]
        den = math.lcm(*n)
        mesh = [(i * (den // n[0]), j * (den // n[1]), l * (den // n[2])) for i in range(n[0]) for j in range(n[1]) for l in range(n[2])]
        rng.shuffle(mesh)
        ref = call(rep, "get_mp_grid", get_mp_grid, floats(mesh, den, "exact"))
        d6 = call(rep, "get_mp_grid", get_mp_grid, floats(mesh, den, "dec6"))
        num["dec6_detected" if d6 == ref else "dec6_not_detected"] += 1
        k = floats(mesh, den, "exact")
        ks = k + np.array([[rng.randint(-2, 2) for _ in range(3)] for _ in mesh])
        num["shifted_by_integers_same" if call(rep, "get_mp_grid", get_mp_grid, ks) == ref else "shifted_by_integers_differs"] += 1
        k1 = k.copy()
        k1[k1 == 0] = rng.choice([0.999999999, 1e-10])
        num["near_one_same" if call(rep, "get_mp_grid", get_mp_grid, k1) == ref else "near_one_differs"] += 1
    rep.part("numeric_only", **num)
    return rep.finish()
