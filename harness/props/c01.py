"""C01: Wannier interpolation reproduces the input on the ab-initio mesh (Wigner-Seitz / MDRS replica selection, q -> R -> k).

spec  : WignerSeitz.tla (exact replica selection under an integer Gram matrix with the code's search box and tolerance,
        q_to_R / remap_XX_R / exclude_zeros / conj_XX_R / evaluation at the mesh points in Z[zeta12]),
        MC_WignerSeitz.tla (every shift / mesh / Gram matrix / tolerance; shifts in quarters or thirds), MC_WSRoundTrip.tla (the
        calls set_Rvec -> set_fft_q_to_R -> q_to_R and set_Rvec -> do_ws_dist as a state machine, orders of the mesh points,
        scalar / vector / tensor Hermitian data)
bind  : spec -> code: every enumerated, determined input is executed on the real Rvectors.set_Rvec and the statement is evaluated on
        the returned replica sets (weights per mesh class, (b,a) = -(a,b), no duplicates, iRvec covers the replicas; the sets
        themselves are compared exactly where the statement fixes them: inside the search-box precondition, tight tolerance),
        q_to_R (fftw, numpy), X(-R) = X(R)^+ (computed by the harness), conj_XX_R, R_to_k on the mesh (fftw, numpy, slow, k-list),
        System_R.do_ws_dist with exact expected values from the TLC states;
        code -> spec: seeded random executions (3-D meshes, 1-3 Wannier functions, centres in thirds / quarters / sixths /
        twelfths, also outside the search-box precondition, all tolerances) are recorded and validated by TLC against WignerSeitzRec.tla.
"""
import copy
import math
import os
import random
import warnings

import numpy as np

from .. import tlc
from ..common import Report, MachineryError, seed, quiet
from . import cyclo12 as cy
from .tbf_common import (cyclo_library_check, sorted_states, validate_parallel, tlc_batch, drop_scratch, guarded,
                         skipped_private, finish_on_error, project_exact, TOL)

PROPS = {
    "C01": dict(level="model_checking",
                technique="TLC exhaustive on WignerSeitz.tla (exact replica selection and degeneracies under integer Gram matrices, weights, "
                          "(b,a) = -(a,b), q->R->k identity in Z[zeta12] for permuted mesh orders and scalar/vector/tensor Hermitian data, "
                          "do_ws_dist) + replay of the enumerated inputs on Rvectors.set_Rvec / q_to_R / conj_XX_R / R_to_k / "
                          "System_R.do_ws_dist + TLC validation of recorded executions",
                text="TLC enumerates integer Gram matrices (quick: 2-D incl. hexagonal / non-orthogonal with the 1-D problems contained, one "
                     "3-D non-orthogonal lattice with a 2x1x2 mesh; thorough: also 1-D separately, more 3-D), meshes with 1,2,3,4,6 points "
                     "per direction, centre shifts in quarters (one configuration in thirds) of lattice vectors and tolerances and decides "
                     "the Wigner-Seitz replicas with the code's search box exactly; it checks that the weights 1/Ndegen add up to one per "
                     "pair and mesh class, that the R-set of (b,a) is minus that of (a,b) inside the search-box precondition, that q->R->k on "
                     "the mesh is the identity for all permutations of meshes with <= ORDALL (4, one config 3) points and three fixed orders "
                     "of larger meshes and scalar, vector and tensor Hermitian data, that X(-R) = X(R)^dagger and that do_ws_dist keeps the "
                     "mesh values. Every enumerated input whose floating-point decision is determined is executed on the real code: the "
                     "statement's clauses are evaluated on the returned sets and matrices (integers exactly, matrices to 1e-8), and the "
                     "sets are compared with the specification's where the statement fixes them (inside the precondition, tolerance "
                     "<= 1e-3). Random executions are recorded and every clause of WignerSeitzRec is evaluated on them by TLC. Numeric only "
                     "(no level claim): random real lattices with 1..8 mesh points per direction, and get_system_w90 on the bundled Si "
                     "checkpoint (2x2x2) against chk.get_HH_q.",
                note="lattices are Cholesky factors of integer Gram matrices; shifts with a distance on (or, for centres that are not "
                     "decimal fractions, within the code's decimal rounding of) the tolerance boundary are excluded by the predicates "
                     "Ambiguous / near; which replicas are kept with a loose tolerance (1/4, 1/2) or outside the search-box precondition "
                     "(|tau_b - tau_a| <= 1.5 lattice vectors, DESIGN 7.2), which all-zero R-vectors do_ws_dist drops, whether equal shifts "
                     "share one internal list and whether iRvec holds more than the replicas is not part of the statement (reported as "
                     "information only); Hermiticity of X(R) and (b,a) = -(a,b) are claimed only inside the precondition; meshes with 5, 7, "
                     "8 points per direction only in the numeric-only part",
                ref="DESIGN.md 3.4"),
}

SS = 4
TOLS = {1: (1, 1000), 2: (1, 100000), 3: (1, 4), 4: (1, 2)}
TIGHT = (1, 2)
WS_INVS = ("WeightsOne", "WeightsTotal", "MinusSymmetry", "BoxSufficient", "InertModeValid", "InertLemma")
RT_INVS = ("WeightsOne", "MinusSymmetry", "RoundTrip", "InputHermitian", "HermitianXR", "WsDistKeeps")
TAUS = {(2, 1): [[0, 0, 0], [2, 0, 0]], (2, 2): [[1, 0, 0], [-2, 3, 0]], (2, 3): [[0, 0, 0], [0, 0, 0]], (2, 4): [[0, 0, 0], [2, 2, 0]],
        (2, 5): [[-1, -2, 0], [5, 4, 0]], (2, 6): [[0, 0, 0], [9, 0, 0]], (2, 7): [[0, 0, 0], [2, 2, 2]], (2, 8): [[3, 0, 0], [0, 0, 0]],
        (3, 1): [[0, 0, 0], [2, 0, 0], [0, 2, 0]], (3, 2): [[1, 0, 0], [-2, 3, 0], [2, 2, 0]]}
CART = {1: (), 3: (3,), 9: (3, 3)}


def tau_of(nw, tid):
    if nw == 1:
        return [[0, 0, 0]]
    return TAUS.get((nw, tid), [[0, 0, 0], [1, 0, 0], [4, 0, 0]])


def gram_of(code):
    d = [(code // 10 ** k) % 10 for k in range(6)]      # d[5]=g11 d[4]=g22 d[3]=g33 d[2]=g12+4 d[1]=g13+4 d[0]=g23+4
    g12, g13, g23 = d[2] - 4, d[1] - 4, d[0] - 4
    return [[d[5], g12, g13], [g12, d[4], g23], [g13, g23, d[3]]]


def mesh_of(code):
    return [code // 100, (code // 10) % 10, code % 10]


def lattice_of(G):
    return np.linalg.cholesky(np.array(G, dtype=float))


def tolf(tid):
    return TOLS[tid][0] / TOLS[tid][1]


def ws_cfg(**kw):
    d = dict(GRAMS="{111444}", MESHES="{211}", TOLS="{1}", DIM=2, DMAX=6, STEP=2, BOXDIM=2, LEMMADIM=2, BIGBOX=0, WrongSign="FALSE", SS=4)
    d.update(kw)
    return ("SPECIFICATION Spec\nCONSTANTS\n" + "".join(f"  {k} = {v}\n" for k, v in d.items()) +
            "".join(f"INVARIANT {i}\n" for i in WS_INVS) + "CHECK_DEADLOCK FALSE\n"), d


def rt_cfg(**kw):
    d = dict(GRAMS="{111444}", MESHES="{211}", TOLS="{1}", NWS="{1, 2}", TAUIDS="{1}", BOXDIM=2, ORDALL=4, NCS="{1}", DATAMODE='"basis"',
             NDENSE=1, NoWeights="FALSE", SS=4)
    d.update(kw)
    return ("SPECIFICATION Spec\nCONSTANTS\n" + "".join(f"  {k} = {v}\n" for k, v in d.items()) +
            "".join(f"INVARIANT {i}\n" for i in RT_INVS) + "CHECK_DEADLOCK FALSE\n"), d


# ---------------------------------------------------------------- the statement, evaluated by the harness on the code's results
def in_search_box(d, S):
    return all(2 * abs(x) <= 3 * S for x in d)


_BOX = np.array([[i, j, k] for i in range(-3, 4) for j in range(-3, 4) for k in range(-3, 4)], dtype=np.int64)


def undetermined_margin(G, N, S, delta, tol_signed):
    """how far the floating-point decision `abs(dist - dist_min) < tolerance` of the code is from flipping for the shift delta / S:
    min |dist - dist_min - tol| over all candidates of all mesh classes (exact integers under the square root), minus twice the
    displacement of the shift by the code's decimal rounding of the centres (np.round(shift, ceil(-log10 tol) + 1); 8 digits in
    the legacy mode tol < 0).  Zero for quarters.  The input is `near` (undetermined) when the result is below 1e-9."""
    tol = abs(tol_signed)
    digits = 8 if tol_signed < 0 else int(np.ceil(-np.log10(tol))) + 1
    Gm = np.array(G, dtype=np.int64)
    Nn = np.array(N, dtype=np.int64)
    r = np.array([[i, j, k] for i in range(N[0]) for j in range(N[1]) for k in range(N[2])], dtype=np.int64)
    v = S * (r[:, None, :] + Nn[None, None, :] * _BOX[None, :, :]) + np.array(delta, dtype=np.int64)[None, None, :]
    q = np.einsum('kti,ij,ktj->kt', v, Gm, v)
    dist = np.sqrt(q.astype(float)) / S
    g = dist - dist.min(axis=1, keepdims=True)
    margin = float(np.abs(g - tol).min())
    sr = np.array(delta, dtype=float) / S
    e = float(np.linalg.norm((np.round(sr, digits) - sr) @ lattice_of(G)))
    return margin - 2 * e


def weights_ok(pset, N):
    """per mesh class the weights 1/Ndegen add up to one: the class is non-empty and Ndegen = size of the class"""
    cls = {}
    for R, nd in pset:
        cls.setdefault(tuple(x % n for x, n in zip(R, N)), []).append(nd)
    return len(cls) == N[0] * N[1] * N[2] and all(all(nd == len(v) for nd in v) for v in cls.values())


def minus_set(pset):
    return {(tuple(-x for x in R), nd) for R, nd in pset}


def harness_conj(X, Rlist):
    """X(R) -> X(-R)^dagger, zero where -R is not in the list (what conj_XX_R is documented to do), computed by the harness"""
    idx = {R: i for i, R in enumerate(Rlist)}
    out = np.zeros(np.shape(X), dtype=complex)
    for i, R in enumerate(Rlist):
        j = idx.get(tuple(-x for x in R))
        if j is not None:
            out[i] = np.swapaxes(X[j], 0, 1).conj()
    return out


def mesh_values(Rlist, X, N):
    """sum_R X(R) exp(2 pi i p.R / N) at every mesh point p -> array (nk, ...)"""
    p = np.array([[i, j, k] for i in range(N[0]) for j in range(N[1]) for k in range(N[2])], dtype=float) / np.array(N, dtype=float)
    ph = np.exp(2j * np.pi * (p @ np.array(Rlist, dtype=float).reshape(-1, 3).T))
    X = np.asarray(X)
    if len(Rlist) == 0:
        return np.zeros((len(p),) + X.shape[1:], dtype=complex)
    return (ph @ X.reshape(len(Rlist), -1)).reshape((len(p),) + X.shape[1:])


# ---------------------------------------------------------------- the real code
def real_set_rvec(G, N, tau, tol, S=SS, lattice=None):
    from wannierberri.fourier.rvectors import Rvectors
    rv = Rvectors(lattice=lattice_of(G) if lattice is None else lattice, shifts_left_red=np.array(tau, dtype=float) / S)
    with quiet():
        rv.set_Rvec(mp_grid=np.array(N), ws_tolerance=tol)
    return rv


def irvec_of(rv):
    return [tuple(int(x) for x in R) for R in rv.iRvec]


def observed_sets(rv, N, nw):
    """the replica sets seen through the public transform only: the data NK * delta(k = 0) * (all-ones matrix) has the constant 1 on the
    R grid, so q_to_R returns 1 / Ndegen_ab(R) on the replicas of the pair (a, b) and 0 elsewhere (a replica listed twice is not visible)"""
    order = np.array([[i, j, k] for i in range(N[0]) for j in range(N[1]) for k in range(N[2])], dtype=float)
    nk = len(order)
    data = np.zeros((nk, nw, nw), dtype=complex)
    data[0] = nk
    with quiet():
        rv.set_fft_q_to_R(kpt_red=order / np.array(N, dtype=float), fftlib="numpy")
        XR = np.asarray(rv.q_to_R(data))
    Rl = irvec_of(rv)
    out = {}
    for a in range(nw):
        for b in range(nw):
            out[(a, b)] = [(R, int(round(1.0 / XR[i, a, b].real))) for i, R in enumerate(Rl) if abs(XR[i, a, b]) > 1e-9]
    return out


def replica_sets(rep, rv, N, nw):
    """{(a, b): [(R, Ndegen), ...]} of a Rvectors object after set_Rvec; through iRvec_list / Ndegen_list / shift_index (the state the
    property names) when they exist, otherwise observed through q_to_R.  -> (sets, dedup) where dedup tells whether pairs share an
    internal list exactly when their shifts are equal (information only)"""
    try:
        sidx = np.asarray(rv.shift_index)
        out = {}
        for a in range(nw):
            for b in range(nw):
                ish = int(sidx[a, b])
                out[(a, b)] = list(zip([tuple(int(x) for x in R) for R in rv.iRvec_list[ish]], [int(x) for x in rv.Ndegen_list[ish]]))
        return out, sidx
    except (AttributeError, TypeError, IndexError, KeyError) as ex:
        skipped_private(rep, "Rvectors.iRvec_list/Ndegen_list/shift_index (replicas observed through q_to_R instead)", ex)
    return observed_sets(rv, N, nw), None


class Stats:
    def __init__(self):
        self.pairs = self.exact_pairs = self.nonstrict_differ = self.near = self.not_dedup = self.extra_irvec = 0
        self.min_margin = float("inf")


def check_rvec(rep, rv, W, tau, G, N, S, tid, tol, det, st):
    """the statement on the replica sets of the real set_Rvec; W: shift -> {(R, nd)} decided by the specification (may lack shifts).
    -> (ok, matches, sets): ok = no violation; matches = the code's sets equal the specification's for every pair (then the exact
    expected matrices of the TLC state apply); sets = the code's replica sets per pair"""
    nw = len(tau)
    done, res = guarded(rep, "set_Rvec:replica_sets", det, lambda: replica_sets(rep, rv, N, nw))
    if not done:
        return False, False, None
    sets, sidx = res
    ok = matches = True
    union = set()
    shift = {(a, b): tuple(tau[b][j] - tau[a][j] for j in range(3)) for a in range(nw) for b in range(nw)}
    margins = {}
    for a in range(nw):
        for b in range(nw):
            d = shift[(a, b)]
            got = sets[(a, b)]
            gs = set(got)
            union |= {R for R, _ in got}
            st.pairs += 1
            if d not in margins:
                margins[d] = undetermined_margin(G, N, S, d, tol)
                if margins[d] >= 1e-9:
                    st.min_margin = min(st.min_margin, margins[d])
            near = margins[d] < 1e-9
            st.near += near
            if len(gs) != len(got):
                ok = False
                rep.violation("set_Rvec:replica_listed_twice", dict(det, pair=[a, b], shift_times_S=list(d), got=sorted(got)))
            if not weights_ok(gs, N):
                ok = False
                rep.violation("set_Rvec:weights", dict(det, pair=[a, b], shift_times_S=list(d), got=sorted(got),
                                                      what="per mesh class the weights 1/Ndegen must add up to one"))
            if d in W:
                exp = {(tuple(R), n) for R, n in W[d]}
                if gs != exp:
                    matches = False
                    if tid in TIGHT and in_search_box(d, S) and not near:
                        ok = False
                        rep.violation("set_Rvec:replicas", dict(det, pair=[a, b], shift_times_S=list(d), got=sorted(got), expected=sorted(exp)))
                    else:
                        st.nonstrict_differ += 1
                elif tid in TIGHT and in_search_box(d, S) and not near:
                    st.exact_pairs += 1
            if in_search_box(d, S) and not near and set(sets[(b, a)]) != minus_set(gs):
                ok = False
                rep.violation("set_Rvec:minus_symmetry", dict(det, pair=[a, b], shift_times_S=list(d), set_ab=sorted(got), set_ba=sorted(sets[(b, a)])))
            for (c, e), d2 in shift.items():
                if d2 == d and set(sets[(c, e)]) != gs:
                    ok = False
                    rep.violation("set_Rvec:equal_shifts_differ", dict(det, pairs=[[a, b], [c, e]], set_1=sorted(got), set_2=sorted(sets[(c, e)])))
                if sidx is not None and (sidx[a, b] == sidx[c, e]) != (d == d2):
                    st.not_dedup += 1           # information: equal shifts do not share one internal list (or unequal ones do)
    done, got_u = guarded(rep, "Rvectors.iRvec", det, lambda: irvec_of(rv))
    if not done:
        return False, False, sets
    if len(set(got_u)) != len(got_u):
        ok = False
        rep.violation("set_Rvec:iRvec_duplicates", dict(det, iRvec=sorted(got_u)))
    if not union <= set(got_u):
        ok = False
        rep.violation("set_Rvec:iRvec_misses_replica", dict(det, iRvec=sorted(got_u), missing=sorted(union - set(got_u))))
    st.extra_irvec += len(set(got_u) - union)
    return ok, matches, sets


def data_array(dat, nk, nw, nc):
    """TLC dat[i][a][b][c] (4-tuples) -> complex array (nk, nw, nw) + cart"""
    A = cy.arr_to_complex(np.array(dat, dtype=float).reshape(nk, nw, nw, nc, 4))
    return A.reshape((nk, nw, nw) + CART[nc])


def table_array(X, Rlist, nw, nc, scale):
    """TLC X: R -> [a][b][c] -> complex array (nR, nw, nw) + cart, divided by scale; zero for R not in X"""
    out = np.zeros((len(Rlist), nw, nw, nc), dtype=complex)
    for iR, R in enumerate(Rlist):
        if R in X:
            out[iR] = cy.arr_to_complex(np.array(X[R], dtype=float).reshape(nw, nw, nc, 4))
    return out.reshape((len(Rlist), nw, nw) + CART[nc]) / scale


def nonzero_R(X):
    return {R for R, m in X.items() if np.any(np.array(m))}


class Dev:
    def __init__(self):
        self.max = 0.0

    def far(self, got, exp):
        got, exp = np.asarray(got), np.asarray(exp)
        if got.shape != exp.shape:
            return float("inf")
        dev = float(np.abs(got - exp).max()) if got.size else 0.0
        scale = max(1.0, float(np.abs(exp).max()) if exp.size else 1.0)
        self.max = max(self.max, dev / scale)
        return dev / scale if dev > TOL * scale else 0.0


def lcm_of(W):
    L = 1
    for s in W.values():
        for _, n in s:
            L = L * n // math.gcd(L, n)
    return L


def sets_minus_symmetric(sets):
    return all(set(sets[(b, a)]) == minus_set(sets[(a, b)]) for (a, b) in sets)


class RvCache:
    """one real Rvectors (after set_Rvec, with the verdict of check_rvec) per (Gram, mesh, centres, tolerance); the transform states of
    one input follow each other"""

    def __init__(self):
        self.key = None
        self.val = None

    def get(self, rep, s, S, st):
        G, N, nw, tid = gram_of(s["gram"]), mesh_of(s["mesh"]), s["nw"], s["tolid"]
        key = (s["gram"], s["mesh"], nw, s["tauid"], tid)
        if key != self.key:
            tau = tau_of(nw, s["tauid"])
            W = {tuple(d): {(tuple(R), n) for R, n in v} for d, v in s["W"].items()}
            det = dict(gram=G, mp_grid=N, centres_times_S=tau, S=S, ws_tolerance=tolf(tid))
            done, rv = guarded(rep, "set_Rvec", det, lambda: real_set_rvec(G, N, tau, tolf(tid), S))
            if done:
                ok, matches, sets = check_rvec(rep, rv, W, tau, G, N, S, tid, tolf(tid), det, st)
            else:
                ok, matches, sets = False, False, None
            self.key, self.val = key, dict(rv=rv, ok=ok, matches=matches, sets=sets, W=W, conj_bound=False)
        return self.val


def bind_conj(rep, rv, shape, Rlist, det):
    """conj_XX_R against the harness's own R -> -R, dagger on an array that is NOT Hermitian (an identity / no-op implementation fails)"""
    r = np.random.RandomState(len(Rlist) * 131 + int(np.prod(shape)))
    Y = r.randint(-3, 4, size=shape) + 1j * r.randint(-3, 4, size=shape)
    with warnings.catch_warnings():
        warnings.simplefilter("ignore")
        done, got = guarded(rep, "conj_XX_R", det, lambda: np.asarray(rv.conj_XX_R(Y.copy())))
    if done and (got.shape != Y.shape or np.abs(got - harness_conj(Y, Rlist)).max() > 1e-12):
        rep.violation("conj_XX_R", dict(det, what="conj_XX_R(Y)[R] differs from Y[-R]^dagger (zero where -R is missing) on a non-Hermitian Y",
                                        iRvec=[list(R) for R in Rlist][:40]))


def replay_qtor(rep, dev, s, S, rng, cache, st):
    """-> (det, executed)"""
    G, N, nw, tid = gram_of(s["gram"]), mesh_of(s["mesh"]), s["nw"], s["tolid"]
    tau = tau_of(nw, s["tauid"])
    nc, nk = s["nc"], N[0] * N[1] * N[2]
    det = dict(gram=G, mp_grid=N, centres_times_S=tau, S=S, ws_tolerance=tolf(tid), order=[list(o) for o in s["ord"]], nc=nc)
    c = cache.get(rep, s, S, st)
    if not c["ok"]:
        return det, False
    rv, W = c["rv"], c["W"]
    L = lcm_of(W)
    data = data_array(s["dat"], nk, nw, nc)
    Rlist = irvec_of(rv)
    kred = (np.array(s["ord"], dtype=float) + np.array([[rng.choice([-1, 0, 0, 2]) * N[j] for j in range(3)] for _ in range(nk)])) / np.array(N)
    herm = sets_minus_symmetric(c["sets"])
    exp = None
    if c["matches"]:
        missing = nonzero_R(s["X"]) - set(Rlist)
        if missing:
            rep.violation("q_to_R:iRvec_misses_nonzero_R", dict(det, missing=sorted(missing)))
            return det, True
        exp = table_array(s["X"], Rlist, nw, nc, float(nk * L))
    XRs = {}
    for lib in ("fftw", "numpy"):
        def call(lib=lib):
            with quiet():
                rv.set_fft_q_to_R(kpt_red=kred, fftlib=lib)
                return np.asarray(rv.q_to_R(data.copy()))
        done, XR = guarded(rep, f"q_to_R:{lib}", det, call)
        if not done:
            continue
        if XR.shape != (len(Rlist),) + data.shape[1:]:
            rep.violation(f"q_to_R:shape:{lib}", dict(det, got=list(XR.shape), expected=[len(Rlist)] + list(data.shape[1:])))
            continue
        XRs[lib] = XR
        if exp is not None:
            d = dev.far(XR, exp)
            if d:
                rep.violation(f"q_to_R:values:{lib}", dict(det, relative_deviation=d, data=str(data.tolist())[:400]))
                continue
        if herm:
            d = dev.far(harness_conj(XR, Rlist), XR)
            if d:
                rep.violation(f"hermitian_R:{lib}", dict(det, relative_deviation=d, what="X(-R) = X(R)^dagger violated by the result of q_to_R"))
    if not c["conj_bound"] and XRs:
        c["conj_bound"] = True
        bind_conj(rep, rv, next(iter(XRs.values())).shape, Rlist, det)
    XR = XRs.get("numpy", XRs.get("fftw"))
    if XR is None:
        return det, True
    # back to the mesh: FFT back ends on the mesh itself, and the explicit list in the order of the input
    grid_data = np.zeros_like(data)
    for i, o in enumerate(s["ord"]):
        grid_data[(o[0] * N[1] + o[1]) * N[2] + o[2]] = data[i]
    for lib in ("fftw", "numpy", "slow"):
        def back(lib=lib):
            with quiet():
                rv.set_fft_R_to_k(NK=N, num_wann=nw, fftlib=lib)
                return np.asarray(rv.R_to_k(XR.copy(), hermitian=False))
        done, got = guarded(rep, f"R_to_k:{lib}", det, back)
        if done:
            d = dev.far(got, grid_data)
            if d:
                rep.violation(f"round_trip:{lib}", dict(det, relative_deviation=d, data=str(data.tolist())[:400]))

    def back_list():
        with quiet():
            rv.set_fft_R_to_k(NK=None, num_wann=nw, k_list=kred)
            return np.asarray(rv.R_to_k(XR.copy(), hermitian=False))
    done, got = guarded(rep, "R_to_k:k_list", det, back_list)
    if done:
        d = dev.far(got, data)
        if d:
            rep.violation("round_trip:k_list", dict(det, relative_deviation=d, data=str(data.tolist())[:400]))
    return det, True


def sparse_dict(tab, nw, comps):
    """R -> [a][b][c] table -> from_sparse dictionary for the Cartesian components comps (None = scalar component 0)"""
    out = {}
    for R, m in tab.items():
        A = cy.arr_to_complex(np.array(m, dtype=float).reshape(nw, nw, -1, 4))
        out[tuple(R)] = {(a, b): (A[a, b, 0] if comps is None else A[a, b, :]) for a in range(nw) for b in range(nw)}
    return out


def real_do_ws_dist(G, N, tau, tol, old, nw, nc, S=SS, lattice=None):
    import wannierberri as wb
    mats = {"Ham": sparse_dict(old, nw, None)}
    if nc == 3:
        mats["AA"] = sparse_dict(old, nw, 3)
    with quiet():
        syst = wb.system.System_R.from_sparse(real_lattice=lattice_of(G) if lattice is None else lattice,
                                              wannier_centers_red=np.array(tau, dtype=float) / S, matrices=mats)
        syst.do_ws_dist(mp_grid=[int(x) for x in N], ws_dist_tol=tol)
    return syst


def replay_wsdist(rep, dev, s, S, cache, st):
    G, N, nw, tid = gram_of(s["gram"]), mesh_of(s["mesh"]), s["nw"], s["tolid"]
    tau = tau_of(nw, s["tauid"])
    nc = s["nc"]
    det = dict(gram=G, mp_grid=N, centres_times_S=tau, S=S, ws_dist_tol=tolf(tid), nc=nc)
    c = cache.get(rep, s, S, st)
    if not c["ok"]:
        return det, False
    L = lcm_of(c["W"])
    old = {tuple(R): m for R, m in s["dat"].items()}
    done, syst = guarded(rep, "do_ws_dist", det, lambda: real_do_ws_dist(G, N, tau, tolf(tid), old, nw, nc, S))
    if not done:
        return det, True
    X = {tuple(R): m for R, m in s["X"].items()}
    got_R = irvec_of(syst.rvec)
    if len(set(got_R)) != len(got_R):
        rep.violation("do_ws_dist:iRvec_duplicates", dict(det, got=sorted(got_R)))
        return det, True
    oldR = sorted(old)
    old_all = table_array(old, oldR, nw, nc, 1.0)
    keys = [("Ham", (lambda A: A[:, :, :, 0]) if nc == 3 else (lambda A: A))] + ([("AA", lambda A: A)] if nc == 3 else [])
    exp_all = None
    if c["matches"]:
        missing = nonzero_R(X) - set(got_R)
        if missing:
            rep.violation("do_ws_dist:iRvec_misses_nonzero_R", dict(det, got=sorted(got_R), missing=sorted(missing)))
            return det, True
        exp_all = table_array(X, got_R, nw, nc, float(L))
    herm = sets_minus_symmetric(c["sets"])
    for key, pick in keys:
        done, M = guarded(rep, f"do_ws_dist:get_R_mat:{key}", det, lambda key=key: np.asarray(syst.get_R_mat(key)))
        if not done:
            continue
        # the statement: the values at the mesh points are kept
        want = mesh_values(oldR, pick(old_all), N)
        if M.shape[0] != len(got_R) or dev.far(mesh_values(got_R, M, N), want):
            rep.violation(f"do_ws_dist:mesh_values:{key}", dict(det, what="sum_R X(R) exp(2 pi i p.R/N) at the mesh points changed", iRvec=sorted(got_R)))
            continue
        if exp_all is not None:
            d = dev.far(M, pick(exp_all))
            if d:
                rep.violation(f"do_ws_dist:values:{key}", dict(det, relative_deviation=d))
        if herm:
            d = dev.far(harness_conj(M, got_R), M)
            if d:
                rep.violation(f"do_ws_dist:hermitian_R:{key}", dict(det, relative_deviation=d))
    return det, True


# ---------------------------------------------------------------- records (code -> spec)
def random_gram(rng, dim):
    while True:
        if rng.random() < 0.5:
            A = np.array([[rng.randint(-2, 2) for _ in range(3)] for _ in range(3)])
            G = A @ A.T
        else:
            G = np.array([[rng.randint(1, 4) if i == j else 0 for j in range(3)] for i in range(3)])
            for i in range(3):
                for j in range(i):
                    G[i, j] = G[j, i] = rng.randint(-3, 3)
        if dim < 3:
            G[2, :] = G[:, 2] = 0
            G[2, 2] = rng.randint(1, 4)
        if dim < 2:
            G[1, :] = G[:, 1] = 0
            G[1, 1] = rng.randint(1, 4)
        if np.all(np.linalg.eigvalsh(G.astype(float)) > 0.3) and G.max() <= 9:
            return G.tolist()


def dense_hermitian(rng, nk, nw, nc):
    dat = [[[[None] * nc for _ in range(nw)] for _ in range(nw)] for _ in range(nk)]
    for i in range(nk):
        for a in range(nw):
            for b in range(a, nw):
                for c in range(nc):
                    if a == b:
                        v = (rng.randint(-2, 2), 0, 0, 0)
                    else:
                        v = tuple(rng.randint(-2, 2) for _ in range(4)) if rng.random() < 0.4 else (rng.randint(-2, 2), 0, 0, rng.randint(-2, 2))
                    dat[i][a][b][c] = list(v)
                    dat[i][b][a][c] = [v[0] + v[2], v[1], -v[2], -v[1] - v[3]]
    return dat


def record_input(rng, thorough, forced=False):
    if forced:      # a degenerate replica pair (R = +-1, Ndegen = 2) and non-zero matrices for certain: needed by the binding self-test
        return dict(G=[[1, 0, 0], [0, 1, 0], [0, 0, 1]], N=[2, 1, 1], nw=1, S=4, tau=[[0, 0, 0]], tid=1, tol=tolf(1), dim=1)
    dim = rng.choice([1, 2, 2, 3])
    G = random_gram(rng, dim)
    sizes = [1, 2, 3, 4, 6]
    while True:
        N = [rng.choice(sizes) if j < dim else 1 for j in range(3)]
        if N[0] * N[1] * N[2] <= (12 if thorough else 4):
            break
    nw = rng.choice([1, 2, 2, 3]) if thorough else rng.choice([1, 2, 2])
    tid = rng.choice([1, 1, 2, 3, 4])
    # denominators of the centres; with the tolerance 1/1000 the exact comparison of WignerSeitz.tla (CmpTol) stays inside 32 bits
    # only for S <= 4
    S = rng.choice([3, 4, 4]) if tid == 1 else rng.choice([3, 4, 4, 6, 12])
    far = rng.random() < 0.15
    tau = [[(rng.randint(-3 * S, 4 * S) if far else rng.randint(-(S // 2), S + S // 4)) if j < dim or rng.random() < 0.2 else 0 for j in range(3)]
           for _ in range(nw)]
    tol = tolf(tid) * rng.choice([1, 1, 1, -1]) if tid in TIGHT else tolf(tid)
    return dict(G=G, N=N, nw=nw, S=S, tau=tau, tid=tid, tol=tol, dim=dim)


def make_record(rep, rng, thorough, kind, forced=False):
    """one recorded execution of the wanted kind, or None (input not suited for the kind / the library raised: reported)"""
    inp = record_input(rng, thorough, forced)
    G, N, nw, S, tau, tid, tol, dim = (inp[k] for k in ("G", "N", "nw", "S", "tau", "tid", "tol", "dim"))
    det = dict(gram=G, mp_grid=N, centres_times_S=tau, S=S, ws_tolerance=tol)
    done, rv = guarded(rep, "set_Rvec", det, lambda: real_set_rvec(G, N, tau, tol, S))
    if not done:
        return None
    done, res = guarded(rep, "set_Rvec:replica_sets", det, lambda: replica_sets(rep, rv, N, nw))
    if not done:
        return None
    sets = res[0]
    pairs = [[[list(R), n] for R, n in sets[(a, b)]] for a in range(nw) for b in range(nw)]
    shifts = {tuple(tau[b][j] - tau[a][j] for j in range(3)) for a in range(nw) for b in range(nw)}
    near = bool(min(undetermined_margin(G, N, S, d, tol) for d in shifts) < 1e-9)
    rec = dict(kind="setrvec", G=G, N=N, S=S, tol=list(TOLS[tid]), tau=tau, pairs=pairs, iRvec=[list(R) for R in irvec_of(rv)], near=near)
    L = 1
    for p in pairs:
        for _, n in p:
            L = L * n // math.gcd(L, n)
    nk = N[0] * N[1] * N[2]
    if kind == "qtor":
        if L * nk > 400:
            return None
        nc = rng.choice([1, 1, 3, 9]) if nw < 3 else 1
        order = [[i, j, k] for i in range(N[0]) for j in range(N[1]) for k in range(N[2])]
        rng.shuffle(order)
        dat = dense_hermitian(rng, nk, nw, nc)
        if forced:
            dat[0][0][0][0] = [1, 0, 0, 0]
        data = data_array(dat, nk, nw, nc)
        lib = rng.choice(["fftw", "numpy"])

        def call():
            with quiet():
                rv.set_fft_q_to_R(kpt_red=np.array(order, dtype=float) / np.array(N), fftlib=lib)
                return np.asarray(rv.q_to_R(data))
        done, XR = guarded(rep, f"q_to_R:{lib}", det, call)
        if not done:
            return None
        A = XR.reshape(len(rec["iRvec"]), nw, nw, nc) * float(nk * L)
        try:
            X = project_exact(A, bound=40 * nk * L)
        except ValueError as e:
            rep.violation("non-integral projection:q_to_R", dict(record=rec, error=str(e)))
            return None
        rec.update(kind="qtor", nc=nc, L=L, ord=order, dat=dat, XR=rec["iRvec"], X=X, lib=lib)
    elif kind == "wsdist":
        if L > 60:
            return None
        nc = rng.choice([1, 3])
        oldR = set()
        for _ in range(rng.randint(1, 5)):
            oldR.add(tuple(rng.randint(-3, 3) if j < dim else 0 for j in range(3)))
        oldR |= {tuple(-x for x in R) for R in oldR} | {(0, 0, 0)}
        old = {}
        for R in sorted(oldR):
            if R in old:
                continue
            mR = tuple(-x for x in R)
            m = dense_hermitian(rng, 1, nw, nc)[0]
            if R != mR:
                m = [[[[rng.randint(-2, 2), 0, 0, rng.randint(-2, 2)] for _ in range(nc)] for _ in range(nw)] for _ in range(nw)]
                old[mR] = [[[[m[b][a][c][0], 0, 0, -m[b][a][c][3]] for c in range(nc)] for b in range(nw)] for a in range(nw)]
            old[R] = m
        done, syst = guarded(rep, "do_ws_dist", det, lambda: real_do_ws_dist(G, N, tau, abs(tol), old, nw, nc, S))
        if not done:
            return None
        newR = [list(R) for R in irvec_of(syst.rvec)]
        A = np.asarray(syst.get_R_mat("AA" if nc == 3 else "Ham")).reshape(len(newR), nw, nw, nc) * float(L)
        try:
            X = project_exact(A, bound=400 * L)
        except ValueError as e:
            rep.violation("non-integral projection:do_ws_dist", dict(record=rec, error=str(e)))
            return None
        rec.update(kind="wsdist", nc=nc, L=L, oldR=[list(R) for R in old], old=[old[R] for R in old], XR=newR, X=X)
    return rec


def numeric_only(rep, rng, ncases):
    """random real lattices / centres (the statement only: round trip, X(-R) = X(R)^+, weights; no exact oracle)"""
    from wannierberri.fourier.rvectors import Rvectors
    worst = 0.0
    sizes_seen = set()
    for ic in range(ncases):
        r = np.random.RandomState(rng.randrange(1 << 30))
        lat = np.eye(3) * (1 + r.rand(3)) + 0.3 * r.randn(3, 3)
        while abs(np.linalg.det(lat)) < 0.3:
            lat = np.eye(3) * (1 + r.rand(3)) + 0.3 * r.randn(3, 3)
        nw = int(r.randint(1, 4))
        cen = 1.25 * r.rand(nw, 3) - 0.25       # differences below 1.25 lattice vectors: inside the search-box precondition
        while True:
            N = np.array([int(x) for x in r.randint(1, 9, size=3)])        # 1..8 points per direction (also 5, 7, 8)
            if np.prod(N) <= 48:
                break
        nk = int(np.prod(N))
        sizes_seen |= set(int(x) for x in N)
        order = [(i, j, k) for i in range(N[0]) for j in range(N[1]) for k in range(N[2])]
        rng.shuffle(order)
        shape = [(), (3,), (3, 3)][int(r.randint(0, 3))]
        data = r.randn(nk, nw, nw, *shape) + 1j * r.randn(nk, nw, nw, *shape)
        data = 0.5 * (data + data.swapaxes(1, 2).conj())
        tol = float(r.choice([1e-3, 1e-5]))
        lib = str(r.choice(["fftw", "numpy"]))
        det = dict(case=ic, lattice=lat.tolist(), centres=cen.tolist(), mp_grid=N.tolist(), cart_shape=list(shape), ws_tolerance=tol, fftlib=lib)

        def run():
            rv = Rvectors(lattice=lat, shifts_left_red=cen)
            with quiet():
                rv.set_Rvec(mp_grid=N, ws_tolerance=tol)
                rv.set_fft_q_to_R(kpt_red=np.array(order, dtype=float) / N, fftlib=lib)
                XR = np.asarray(rv.q_to_R(data.copy()))
                rv.set_fft_R_to_k(NK=None, num_wann=nw, k_list=np.array(order, dtype=float) / N)
                back = np.asarray(rv.R_to_k(XR.copy(), hermitian=False))
            return rv, XR, back
        done, res = guarded(rep, "numeric_only:q_to_R/R_to_k", det, run)
        rep.case(("numeric", ic), nontrivial=False)
        if not done:
            continue
        rv, XR, back = res
        Rlist = irvec_of(rv)
        scale = max(1.0, float(np.abs(data).max()))
        d1 = float(np.abs(back - data).max()) / scale if back.shape == data.shape else float("inf")
        d2 = float(np.abs(harness_conj(XR, Rlist) - XR).max()) / scale
        worst = max(worst, d1, d2)
        if d1 > 1e-8:
            rep.violation("numeric_only:round_trip", dict(det, relative_deviation=d1))
        if d2 > 1e-8:
            rep.violation("numeric_only:hermitian_R", dict(det, relative_deviation=d2))
        done, res = guarded(rep, "numeric_only:replica_sets", det, lambda: replica_sets(rep, rv, [int(x) for x in N], nw))
        if done:
            for (a, b), ps in res[0].items():
                if len(set(ps)) != len(ps) or not weights_ok(set(ps), [int(x) for x in N]):
                    rep.violation("numeric_only:weights", dict(det, pair=[a, b], replicas=str(sorted(ps))[:600]))
    rep.part("numeric_only", cases=ncases, max_relative_deviation=worst, mesh_sizes_seen=sorted(sizes_seen),
             what="random real lattices / centres within (-0.25, 1) cells / meshes with 1..8 points per direction (<= 48 points) / scalar, "
                  "vector, tensor Hermitian data in random order: q_to_R -> R_to_k(k-list) equals the input, X(-R) = X(R)^+ (harness's own "
                  "conjugation), weights per mesh class (1e-8)")


def rt_configs_of(thorough):
    if thorough:
        return [
            ("c01_rt_small", dict(GRAMS="{111444, 221344, 341744}", MESHES="{211, 311, 221, 411}", TOLS="{1}", NWS="{1, 2}", TAUIDS="{1, 2, 4, 6}",
                                  BOXDIM=2, ORDALL=4, NCS="{1, 3}", DATAMODE='"basis"', NDENSE=2)),
            ("c01_rt_mesh", dict(GRAMS="{111444, 221544}", MESHES="{321, 331, 441, 621}", TOLS="{2}", NWS="{2}", TAUIDS="{2, 5}",
                                 BOXDIM=2, ORDALL=4, NCS="{3, 9}", DATAMODE='"dense"', NDENSE=2)),
            ("c01_rt_nw3", dict(GRAMS="{221344}", MESHES="{221, 311}", TOLS="{1}", NWS="{3}", TAUIDS="{1, 2}",
                                BOXDIM=2, ORDALL=3, NCS="{1}", DATAMODE='"basis"', NDENSE=1)),
            ("c01_rt_3d", dict(GRAMS="{111444, 322333}", MESHES="{212, 222}", TOLS="{1, 3}", NWS="{2}", TAUIDS="{1, 7}",
                               BOXDIM=3, ORDALL=4, NCS="{1, 9}", DATAMODE='"dense"', NDENSE=2)),
            ("c01_rt_thirds", dict(SS=3, GRAMS="{221344}", MESHES="{311, 331}", TOLS="{1}", NWS="{2}", TAUIDS="{1, 2}",
                                   BOXDIM=2, ORDALL=3, NCS="{1, 3}", DATAMODE='"dense"', NDENSE=2)),
        ]
    else:
        return [
            ("c01_rt_small", dict(GRAMS="{111444, 221344}", MESHES="{211, 221, 311}", TOLS="{1}", NWS="{1, 2}", TAUIDS="{1, 2}",
                                  BOXDIM=2, ORDALL=4, NCS="{1}", DATAMODE='"basis"', NDENSE=1)),
            ("c01_rt_mesh", dict(GRAMS="{221544}", MESHES="{321, 441}", TOLS="{2}", NWS="{2}", TAUIDS="{4, 6}",
                                 BOXDIM=2, ORDALL=4, NCS="{3, 9}", DATAMODE='"dense"', NDENSE=1)),
        ]


W90_SETS = (("Si_Wannier90", "Si"),)


def replay_w90(rep):
    """get_system_w90 on the smallest bundled Wannier90 data set (numeric only): H(R) built from the checkpoint, interpolated back to
    the ab-initio mesh, must reproduce chk.get_HH_q; X(-R) = X(R)^+; weights per mesh class.  Skipped (recorded) when the data or the
    loader API is not there."""
    from ..common import REPO
    done_sets, worst = [], 0.0
    for dirname, seedname in W90_SETS:
        path = os.path.join(REPO, "tests", "data", dirname, seedname)
        if not (os.path.exists(path + ".chk") and os.path.exists(path + ".eig")):
            skipped_private(rep, f"tests/data/{dirname} (get_system_w90 replay)", "chk / eig file not found")
            continue
        for tol, lib in ((1e-5, "fftw"), (1e-3, "numpy")):
            det = dict(data=f"tests/data/{dirname}/{seedname}", ws_dist_tol=tol, fftlib=lib)

            def run():
                import wannierberri as wb
                from wannierberri.w90files.wandata import WannierData
                with quiet():
                    wd = WannierData.from_w90_files(seedname=path, files=("chk", "eig"), readnnkp=False)
                    syst = wb.system.System_w90(wd, symmetrize=False, ws_dist_tol=tol, fftlib=lib)
                    kptirr, wk = wd.kptirr_system
                    HHq = np.asarray(wd.chk.get_HH_q(wd.eig, kptirr=kptirr, weights_k=wk))
                    kred = np.array(wd.kpt_red, dtype=float)
                    N = [int(x) for x in wd.mp_grid]
                    rv = syst.rvec.copy()
                    XR = np.asarray(syst.get_R_mat("Ham"))
                    rv.set_fft_R_to_k(NK=None, num_wann=syst.num_wann, k_list=kred)
                    back_list = np.asarray(rv.R_to_k(XR.copy(), hermitian=False))
                    rv.set_fft_R_to_k(NK=N, num_wann=syst.num_wann, fftlib=lib)
                    back_grid = np.asarray(rv.R_to_k(XR.copy(), hermitian=False))
                return syst, HHq, kred, N, XR, back_list, back_grid
            try:
                done, res = guarded(rep, "get_system_w90", det, run)
            except ImportError as ex:
                skipped_private(rep, "wannierberri.w90files.wandata.WannierData (get_system_w90 replay)", ex)
                return
            rep.case(("w90", dirname, tol, lib), nontrivial=False)
            if not done:
                continue
            syst, HHq, kred, N, XR, back_list, back_grid = res
            nw = int(syst.num_wann)
            scale = max(1.0, float(np.abs(HHq).max()))
            d = float(np.abs(back_list - HHq).max()) / scale if back_list.shape == HHq.shape else float("inf")
            if d > 1e-8:
                rep.violation("w90:round_trip:k_list", dict(det, relative_deviation=d))
            kg = np.round(kred * np.array(N)).astype(int) % np.array(N)
            grid = np.zeros_like(HHq)
            for i, k in enumerate(kg):
                grid[(k[0] * N[1] + k[1]) * N[2] + k[2]] = HHq[i]
            d2 = float(np.abs(back_grid - grid).max()) / scale if back_grid.shape == grid.shape else float("inf")
            if d2 > 1e-8:
                rep.violation(f"w90:round_trip:{lib}", dict(det, relative_deviation=d2))
            worst = max([worst] + [x for x in (d, d2) if np.isfinite(x)])
            Rlist = irvec_of(syst.rvec)
            cen = np.asarray(syst.wannier_centers_red, dtype=float)
            inside = bool(np.abs(cen[:, None, :] - cen[None, :, :]).max() <= 1.5 - 1e-6)
            if inside:
                d3 = float(np.abs(harness_conj(XR, Rlist) - XR).max()) / scale
                worst = max(worst, d3)
                if d3 > 1e-8:
                    rep.violation("w90:hermitian_R", dict(det, relative_deviation=d3))
            ok, sets = guarded(rep, "w90:replica_sets", det, lambda: replica_sets(rep, syst.rvec, N, nw)[0])
            if ok:
                for (a, b), ps in sets.items():
                    if len(set(ps)) != len(ps) or not weights_ok(set(ps), N):
                        rep.violation("w90:weights", dict(det, pair=[a, b], replicas=str(sorted(ps))[:600]))
            done_sets.append(dict(det, mp_grid=N, num_wann=nw, nRvec=len(Rlist), centres_inside_precondition=inside))
    rep.part("numeric_only_w90", runs=done_sets, max_relative_deviation=worst,
             what="System_w90 (get_system_w90) from the bundled chk + eig: R_to_k(Ham_R) at the ab-initio k-points (k-list and FFT on the "
                  "mesh) equals chk.get_HH_q, X(-R) = X(R)^+, weights per mesh class (1e-8); no exact oracle")


# ---------------------------------------------------------------- the check
def check(pid, tier):
    rep = Report(pid, tier, "model_checking")
    try:
        return _check(rep, tier)
    except Exception:
        finish_on_error(rep)
        raise


def _check(rep, tier):
    thorough = tier == "thorough"
    rng = random.Random(seed() * 7919 + 1)
    import wannierberri  # noqa: F401
    rep.rule("TLC enumerates every (Gram matrix, mesh, shift in quarters or thirds, tolerance) of the listed constants and, in "
             "MC_WSRoundTrip, orders of the mesh points (all permutations up to ORDALL points, three fixed ones above) and the one-hot "
             "Hermitian basis plus dense data; a case = one enumerated, determined input executed on the real code (set_Rvec: the "
             "statement's clauses exactly, the sets themselves where the statement fixes them; q_to_R, X(-R)=X(R)^+, conj_XX_R, R_to_k, "
             "do_ws_dist to 1e-8), plus seeded random recorded executions validated by TLC; distinct by input")
    rep.assume("lattice = Cholesky factor of the integer Gram matrix, centres in quarters (thirds, sixths, twelfths in one configuration "
               "and in the records): squared distances times S^2 are integers. The floating-point decision abs(dist - dist_min) < tol is "
               "taken as determined when every |dist - dist_min - tol| exceeds twice the displacement of the shift by the code's decimal "
               "rounding of the centres (np.round(shift, ceil(-log10 tol) + 1), zero for quarters) by 1e-9; the smallest margin met is "
               "reported; other inputs are excluded (Ambiguous in the specification, `near` in the records)")
    rep.assume("search-box precondition (DESIGN 7.2): (b,a) = -(a,b), X(-R) = X(R)^dagger and the identity of the replica sets are claimed "
               "for |tau_b - tau_a| <= 1.5 lattice vectors per direction; weights and the q->R->k identity are claimed without it")
    cyclo_library_check(rep)
    dev = Dev()
    st = Stats()

    # ---------------- replica selection: spec -> code
    G1 = "{111444, 211444, 411444}"
    G2 = "{111444, 121444, 221344, 221544, 341744, 431144, 231544}"
    if thorough:
        ws_configs = [
            ("c01_ws_1d", dict(GRAMS="{111444, 211444, 311444, 411444}", MESHES="{111, 211, 311, 411, 611}", TOLS="{1, 2}", DIM=1, DMAX=6, STEP=1, BOXDIM=1, LEMMADIM=1, BIGBOX=6)),
            ("c01_ws_2d", dict(GRAMS="{111444, 121444, 141444, 221344, 221544, 331344, 341744, 431144, 231544, 441244, 241644, 441744, 341444}",
                               MESHES="{111, 211, 121, 221, 321, 231, 331, 411, 421, 611}", TOLS="{1}", DIM=2, DMAX=6, STEP=1, BOXDIM=2, LEMMADIM=2)),
            ("c01_ws_2d_bigbox", dict(GRAMS="{431144, 341744, 441744, 231544, 241644, 221344}", MESHES="{111, 211, 121, 221, 321, 441}", TOLS="{2}", DIM=2,
                                      DMAX=6, STEP=2, BOXDIM=2, LEMMADIM=2, BIGBOX=5)),
            ("c01_ws_2d_m6", dict(GRAMS=G2, MESHES="{621, 361, 661}", TOLS="{1}", DIM=2, DMAX=6, STEP=2, BOXDIM=2, LEMMADIM=2)),
            ("c01_ws_lemma", dict(GRAMS="{111444, 221344, 341744, 431144}", MESHES="{211, 221, 321, 411}", TOLS="{1, 2}", DIM=2, DMAX=6, STEP=3, BOXDIM=3, LEMMADIM=2)),
            ("c01_ws_lemma1", dict(GRAMS=G1, MESHES="{211, 311, 411}", TOLS="{1}", DIM=1, DMAX=6, STEP=1, BOXDIM=3, LEMMADIM=1)),
            ("c01_ws_loose", dict(GRAMS="{111444, 221344, 341744, 421444}", MESHES="{211, 221, 321}", TOLS="{3, 4}", DIM=2, DMAX=6, STEP=3, BOXDIM=3, LEMMADIM=3)),
            ("c01_ws_3d", dict(GRAMS="{111444, 322333, 322543, 211444}", MESHES="{222, 212, 232}", TOLS="{1}", DIM=3, DMAX=2, STEP=2, BOXDIM=3, LEMMADIM=3)),
            ("c01_ws_thirds", dict(SS=3, GRAMS="{111444, 221344, 231544}", MESHES="{311, 321, 331, 611, 221}", TOLS="{1, 2}", DIM=2, DMAX=4, STEP=1, BOXDIM=2, LEMMADIM=2)),
            ("c01_ws_sixths", dict(SS=6, GRAMS="{221344}", MESHES="{331, 621}", TOLS="{2}", DIM=2, DMAX=9, STEP=1, BOXDIM=2, LEMMADIM=2)),
        ]
    else:
        ws_configs = [
            # 1-D problems are contained: rectangular Gram matrices with meshes (n, 1, 1) and shifts (x, 0, 0)
            ("c01_ws_2d", dict(GRAMS="{111444, 221344, 341744, 231544}", MESHES="{211, 221, 321, 411}", TOLS="{1}", DIM=2, DMAX=6, STEP=2,
                               BOXDIM=2, LEMMADIM=2)),
            ("c01_ws_full", dict(GRAMS="{221344, 341744}", MESHES="{221}", TOLS="{2, 4}", DIM=2, DMAX=2, STEP=2, BOXDIM=3, LEMMADIM=2)),
            # a 3-D non-orthogonal lattice with the full search box
            ("c01_ws_3d", dict(GRAMS="{322333}", MESHES="{212}", TOLS="{1}", DIM=3, DMAX=2, STEP=2, BOXDIM=3, LEMMADIM=3)),
            # centres in thirds (hexagonal and square lattice, meshes with 3 points): not decimal fractions
            ("c01_ws_thirds", dict(SS=3, GRAMS="{111444, 221344}", MESHES="{311, 331}", TOLS="{1}", DIM=2, DMAX=3, STEP=1, BOXDIM=2, LEMMADIM=2)),
        ]
    rt_configs = rt_configs_of(thorough)
    sens_sign = ws_cfg(GRAMS="{111444}", MESHES="{211}", TOLS="{1}", DIM=1, DMAX=2, STEP=1, BOXDIM=1, LEMMADIM=1, WrongSign="TRUE")[0]
    sens_weights = rt_cfg(GRAMS="{111444}", MESHES="{211}", TOLS="{1}", NWS="{1}", TAUIDS="{1}", BOXDIM=1, ORDALL=2, NCS="{1}",
                          DATAMODE='"basis"', NDENSE=1, NoWeights="TRUE")[0]
    # all TLC runs of the model-checking part at once (at most four JVMs at a time), the replays afterwards
    results = tlc_batch([dict(module="MC_WignerSeitz.tla", cfg=ws_cfg(**kw)[0], name=name) for name, kw in ws_configs] +
                        [dict(module="MC_WSRoundTrip.tla", cfg=rt_cfg(**kw)[0], name=name) for name, kw in rt_configs] +
                        [dict(module="MC_WignerSeitz.tla", cfg=sens_sign, name="c01_sens_sign", dump=False, workers=2, heap="1g", coverage=False, timeout=900),
                         dict(module="MC_WSRoundTrip.tla", cfg=sens_weights, name="c01_sens_weights", dump=False, workers=2, heap="1g", coverage=False, timeout=900)])
    ws_results, rt_results = results[:len(ws_configs)], results[len(ws_configs):len(ws_configs) + len(rt_configs)]
    st1, st2 = results[-2:]
    n_enum = n_ws = n_amb = n_degen = 0
    cpu0 = os.times()
    for (name, kw), tst in zip(ws_configs, ws_results):
        cfg, consts = ws_cfg(**kw)
        S = consts["SS"]
        if tst.get("violation"):
            from ..ftable import spec_violation
            spec_violation(rep, tst, name)
            continue
        tlc.check_not_vacuous(tst, ["Compute"], name)
        tst["constants"] = consts
        rep.add_tlc(name, tst)
        states = sorted_states(tst, ("C", "Cm"), lambda s: s["phase"] == "done", lambda s: (s["gram"], s["mesh"], s["tolid"], tuple(s["delta"])))
        if 2 * len(states) != tst["distinct"]:
            raise MachineryError(f"{name}: {len(states)} finished states in the dump, TLC reported {tst['distinct']} states")
        for idx, s in enumerate(states):
            G, N, delta, tid = gram_of(s["gram"]), mesh_of(s["mesh"]), list(s["delta"]), s["tolid"]
            n_enum += 1
            amb = any(c["amb"] for c in s["C"].values()) or any(c["amb"] for c in s["Cm"].values())
            if amb:
                n_amb += 1
                continue        # Ambiguous(P, delta): the floating-point comparison is not determined
            W = {tuple(delta): {(tuple(R), c["nd"]) for c in s["C"].values() for R in c["Rs"]}}
            mdelta = tuple(-x for x in delta)
            Wm = {(tuple(R), c["nd"]) for c in s["Cm"].values() for R in c["Rs"]}
            if mdelta in W and W[mdelta] != Wm:
                raise MachineryError("zero shift with different sets for (a,b) and (b,a)")
            W[mdelta] = Wm
            tau = [[0, 0, 0], delta]
            tol = tolf(tid) * (-1 if (tid in TIGHT and idx % 7 == 0) else 1)      # negative: legacy mode, same replicas
            det = dict(gram=G, mp_grid=N, centres_times_S=tau, S=S, ws_tolerance=tol)
            done, rv = guarded(rep, "set_Rvec", det, lambda: real_set_rvec(G, N, tau, tol, S))
            if done:
                check_rvec(rep, rv, W, tau, G, N, S, tid, tol, det, st)
            rep.case((name, s["gram"], s["mesh"], tuple(delta), tid), nontrivial=True)
            n_ws += 1
            n_degen += any(c["nd"] > 1 for c in s["C"].values())
            if n_ws <= 2:
                rep.sample(dict(config=name, **det, replicas_ab=sorted([list(R), n] for R, n in W[tuple(delta)])))
        drop_scratch(tst)
    if not rep.violations and (n_ws == 0 or n_degen == 0 or st.exact_pairs == 0):
        raise MachineryError(f"vacuous replica enumeration: replayed {n_ws}, with degeneracy {n_degen}, exact set comparisons {st.exact_pairs}")
    cpu1 = os.times()
    rep.part("replay_set_Rvec", inputs_enumerated=n_enum, inputs_replayed=n_ws, excluded_ambiguous=n_amb, with_degenerate_replicas=n_degen,
             pair_sets_checked=st.pairs, pair_sets_compared_exactly_with_spec=st.exact_pairs,
             pairs_near_boundary_not_compared=st.near, replay_cpu_s=round(cpu1.user + cpu1.system - cpu0.user - cpu0.system, 1))
    mark = (st.pairs, st.exact_pairs)

    # ---------------- transforms: spec -> code
    n_rt = n_wsd = n_perm = n_excl = 0
    kinds = set()
    cpu0 = os.times()
    for (name, kw), tst in zip(rt_configs, rt_results):
        cfg, consts = rt_cfg(**kw)
        S = consts["SS"]
        if tst.get("violation"):
            from ..ftable import spec_violation
            spec_violation(rep, tst, name)
            continue
        tlc.check_not_vacuous(tst, ["CallSetRvec", "SetFFTq", "DoQtoR", "DoWsDist"], name)
        tst["constants"] = consts
        rep.add_tlc(name, tst)
        cache = RvCache()
        states = sorted_states(tst, ("dat", "X", "ord"), lambda s: s["phase"] in ("R", "ws", "rvec"),
                               lambda s: (s["gram"], s["mesh"], s["nw"], s["tauid"], s["tolid"], s["phase"], s["nc"], tuple(s["ord"]), s["dat"]))
        nterm = 0
        for s in states:
            if s["phase"] == "rvec":
                n_excl += bool(s["amb"])
                continue
            nterm += 1
            if s["phase"] == "R":
                det, executed = replay_qtor(rep, dev, s, S, rng, cache, st)
                n_rt += executed
                n_perm += executed and list(s["ord"]) != sorted(s["ord"])
                kinds.add(s["nc"])
            else:
                det, executed = replay_wsdist(rep, dev, s, S, cache, st)
                n_wsd += executed
            if executed:
                rep.case((name, s["phase"], s["gram"], s["mesh"], s["nw"], s["tauid"], s["tolid"], s["nc"], tuple(s["ord"]), repr(s["dat"])[:2000]),
                         nontrivial=True)
                if n_rt + n_wsd <= 2:
                    rep.sample(dict(config=name, call="q_to_R" if s["phase"] == "R" else "do_ws_dist", **det))
        if nterm == 0:
            raise MachineryError(f"{name}: no terminal state in the dump")
        drop_scratch(tst)
    if not rep.violations and (n_rt == 0 or n_wsd == 0 or n_perm == 0 or len(kinds) < 2):
        raise MachineryError(f"vacuous transform enumeration: q_to_R {n_rt}, do_ws_dist {n_wsd}, permuted orders {n_perm}, components {kinds}")
    cpu1 = os.times()
    rep.part("replay_transforms", q_to_R_states=n_rt, do_ws_dist_states=n_wsd, permuted_orders=n_perm, cartesian_components=sorted(kinds),
             excluded_ambiguous_inputs=n_excl, pair_sets_checked=st.pairs - mark[0], pair_sets_compared_exactly_with_spec=st.exact_pairs - mark[1],
             max_relative_deviation_from_exact=dev.max, tolerance=TOL, replay_cpu_s=round(cpu1.user + cpu1.system - cpu0.user - cpu0.system, 1))
    rep.part("information_not_part_of_the_statement",
             pair_sets_differing_from_spec_outside_precondition_or_loose_tolerance=st.nonstrict_differ,
             pairs_where_equal_shifts_do_not_share_one_shift_index=st.not_dedup,
             R_vectors_in_iRvec_beyond_the_replicas=st.extra_irvec,
             smallest_margin_of_a_floating_point_decision=None if st.min_margin == float("inf") else st.min_margin)
    if dev.max * 1e4 > TOL:
        rep.part("tolerance_warning", observed=dev.max, tolerance=TOL, what="the tolerance is less than 10^4 times the observed deviation")

    # ---------------- sensitivity
    if not st1.get("violation") or st1["violation"][1] != "MinusSymmetry":
        raise MachineryError(f"sensitivity self-test failed: (b,a) searched with the shift of (a,b) should violate MinusSymmetry ({st1.get('violation')}, {st1.get('error')})")
    if not st2.get("violation") or st2["violation"][1] not in ("RoundTrip", "WsDistKeeps"):
        raise MachineryError(f"sensitivity self-test failed: dropping the weights 1/Ndegen should violate RoundTrip / WsDistKeeps ({st2.get('violation')}, {st2.get('error')})")
    rep.part("sensitivity", wrong_shift_sign=st1["violation"][1], no_degeneracy_weights=st2["violation"][1])
    for x in (st1, st2):
        x["violation"] = None
        drop_scratch(x)

    # ---------------- code -> spec
    quota = dict(setrvec=200, qtor=120, wsdist=80) if thorough else dict(setrvec=6, qtor=6, wsdist=6)
    recs = []
    forced = make_record(rep, rng, thorough, "qtor", forced=True)
    if forced is not None:
        recs.append(forced)
    for kind, n in quota.items():
        have = tries = 0
        while have < n and tries < 40 * n:
            tries += 1
            r = make_record(rep, rng, thorough, kind)
            if r is not None:
                recs.append(r)
                have += 1
        if have < n and not rep.violations:
            raise MachineryError(f"could not produce {n} records of kind {kind} ({have})")
    if recs:
        stv, bad = validate_parallel("WignerSeitzRec.tla", recs, "c01")
        rep.add_tlc("c01_records", stv)
        rep.add_traces(len(recs))
        n_undet = 0
        for i, clauses in bad.items():
            real = [c for c in clauses if c != "unambiguous"]
            n_undet += "unambiguous" in clauses
            if real:
                r = recs[i]
                small = {k: v for k, v in r.items() if k not in ("dat", "X", "old")} if len(str(r)) > 4000 else r
                rep.violation(f"recorded:{r['kind']}:" + ",".join(sorted(real)), dict(record=small, failing_clauses=real))
        by_kind, by_S, distinct = {}, {}, set()
        for r in recs:
            by_kind[r["kind"]] = by_kind.get(r["kind"], 0) + 1
            by_S[r["S"]] = by_S.get(r["S"], 0) + 1
            key = repr((r["kind"], r["G"], r["N"], r["S"], r["tol"], r["tau"], r.get("ord"), r.get("dat"), r.get("old")))
            if key not in distinct:
                distinct.add(key)
                rep.case(("rec", key), nontrivial=True)
        rep.part("records", by_kind=by_kind, by_centre_denominator={str(k): v for k, v in sorted(by_S.items())}, distinct_inputs=len(distinct),
                 undetermined_records_whose_sets_are_not_compared_with_spec=n_undet)
        rep.sample({k: v for k, v in recs[0].items() if k not in ("dat", "X", "old")})
    # binding self-test: corrupted records must be rejected
    if forced is not None:
        b1 = copy.deepcopy(forced)
        for p in b1["pairs"]:
            for e in p:
                if e[1] > 1:
                    e[1] -= 1                        # wrong degeneracy
        b2 = copy.deepcopy(forced)
        for m in b2["X"]:
            for row in m:
                for e in row:
                    if any(any(x) for x in e):
                        e[0][0] += 1                 # wrong matrix element
        b3 = copy.deepcopy(forced)
        b3["pairs"][0] = b3["pairs"][0][1:]          # a replica missing
        if b1 == forced or b2 == forced:
            raise MachineryError("binding self-test: the forced record has no degenerate replica / no non-zero matrix")
        _, bb = validate_parallel("WignerSeitzRec.tla", [b1, b2, b3], "c01_selftest", 1)
        if any(not [c for c in bb.get(i, []) if c != "unambiguous"] for i in range(3)):
            raise MachineryError(f"binding self-test failed: corrupted records accepted ({bb})")
        rep.part("binding_selftest", corrupted_records_rejected={str(k): v for k, v in bb.items()})
    elif not rep.violations:
        raise MachineryError("the forced record of the binding self-test could not be produced")

    numeric_only(rep, rng, 300 if thorough else 40)
    replay_w90(rep)
    return rep.finish()
