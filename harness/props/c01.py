"""C01: Wannier interpolation reproduces the input on the ab-initio mesh (Wigner-Seitz / MDRS replica selection, q -> R -> k).

spec  : WignerSeitz.tla (exact replica selection under an integer Gram matrix with the code's search box and tolerance,
        q_to_R / remap_XX_R / exclude_zeros / conj_XX_R / evaluation at the mesh points in Z[zeta12]),
        MC_WignerSeitz.tla (every shift / mesh / Gram matrix / tolerance), MC_WSRoundTrip.tla (the calls set_Rvec ->
        set_fft_q_to_R -> q_to_R and set_Rvec -> do_ws_dist as a state machine, all orders of the mesh points, scalar / vector /
        tensor Hermitian data)
bind  : spec -> code: every enumerated input is executed on the real Rvectors.set_Rvec (iRvec_list / Ndegen_list / shift_index /
        iRvec compared exactly), q_to_R (fftw, numpy), conj_XX_R, R_to_k on the mesh (fftw, numpy, slow, k-list), System_R.do_ws_dist
        with exact expected values from the TLC states (1e-9);
        code -> spec: seeded random executions (3-D meshes, 1-3 Wannier functions, centres also outside the search-box
        precondition, all tolerances) are recorded and validated by TLC against WignerSeitzRec.tla.
"""
import copy
import math
import random
import time

import numpy as np

from .. import tlc, ftable
from ..common import Report, MachineryError, seed, quiet
from . import cyclo12 as cy
from .tbf_common import cyclo_library_check, fast_dump_states, validate_parallel, TOL

PROPS = {
    "C01": dict(level="model_checking",
                technique="TLC exhaustive on WignerSeitz.tla (exact replica selection and degeneracies under integer Gram matrices, weights, "
                          "(b,a) = -(a,b), q->R->k identity in Z[zeta12] for all mesh orders and scalar/vector/tensor Hermitian data, do_ws_dist) "
                          "+ replay of every enumerated input on Rvectors.set_Rvec / q_to_R / conj_XX_R / R_to_k / System_R.do_ws_dist "
                          "+ TLC validation of recorded executions",
                text="TLC enumerates integer Gram matrices (1-D, 2-D incl. non-orthogonal, 3-D cubic), meshes, centre shifts in quarters of "
                     "lattice vectors and tolerances and decides the Wigner-Seitz replicas with the code's search box exactly; it checks that "
                     "the weights 1/Ndegen add up to one per pair and mesh class, that the R-set of (b,a) is minus that of (a,b) inside the "
                     "search-box precondition, that q->R->k on the mesh is the identity for every order of the mesh points and scalar, vector "
                     "and tensor Hermitian data, that X(-R) = X(R)^dagger and that do_ws_dist keeps the mesh values. Every enumerated input is "
                     "executed on the real code and compared exactly (integers) or to 1e-9 (matrices); random executions are recorded and "
                     "every clause of WignerSeitzRec is evaluated on them by TLC.",
                note="lattices are Cholesky factors of integer Gram matrices; centres are quarters; shifts with a distance exactly on the "
                     "tolerance boundary are excluded by the predicate Ambiguous; Hermiticity of X(R) and the (b,a)/(a,b) symmetry are claimed "
                     "only inside the search-box precondition (|tau_b - tau_a| <= 1.5 lattice vectors, DESIGN 7.2)",
                ref="DESIGN.md 3.4"),
}

SS = 4
TOLS = {1: (1, 1000), 2: (1, 100000), 3: (1, 4), 4: (1, 2)}
WS_INVS = ("WeightsOne", "WeightsTotal", "MinusSymmetry", "BoxSufficient", "InertModeValid", "InertLemma")
RT_INVS = ("WeightsOne", "MinusSymmetry", "RoundTrip", "InputHermitian", "HermitianXR", "WsDistKeeps")
TAUS = {(2, 1): [[0, 0, 0], [2, 0, 0]], (2, 2): [[1, 0, 0], [-2, 3, 0]], (2, 3): [[0, 0, 0], [0, 0, 0]], (2, 4): [[0, 0, 0], [2, 2, 0]],
        (2, 5): [[-1, -2, 0], [5, 4, 0]], (2, 6): [[0, 0, 0], [9, 0, 0]], (2, 7): [[0, 0, 0], [2, 2, 2]], (2, 8): [[3, 0, 0], [0, 0, 0]],
        (3, 1): [[0, 0, 0], [2, 0, 0], [0, 2, 0]], (3, 2): [[1, 0, 0], [-2, 3, 0], [2, 2, 0]]}


def tau_of(nw, tid):
    if nw == 1:
        return [[0, 0, 0]]
    return TAUS.get((nw, tid), [[0, 0, 0], [1, 0, 0], [4, 0, 0]])


def gram_of(code):
    d = [(code // 10 ** k) % 10 for k in range(6)]      # d[5]=g11 d[4]=g22 d[3]=g33 d[2]=g12+4 d[1]=g13+4 d[0]=g23+4
    g12, g13, g23 = d[2] - 4, d[1] - 4, d[0] - 4
    return [[d[5], g12, g13], [g12, d[4], g23], [g13, g23, d[3]]]


def mesh_of(code):
    return [code // 100, (code // 10) % 10, code % 10]


def lattice_of(G):
    return np.linalg.cholesky(np.array(G, dtype=float))


def tolf(tid):
    return TOLS[tid][0] / TOLS[tid][1]


def ws_cfg(**kw):
    d = dict(GRAMS="{111444}", MESHES="{211}", TOLS="{1}", DIM=2, DMAX=6, STEP=2, BOXDIM=2, LEMMADIM=2, BIGBOX=0, WrongSign="FALSE")
    d.update(kw)
    return ("SPECIFICATION Spec\nCONSTANTS\n" + "".join(f"  {k} = {v}\n" for k, v in d.items()) +
            "".join(f"INVARIANT {i}\n" for i in WS_INVS) + "CHECK_DEADLOCK FALSE\n"), d


def rt_cfg(**kw):
    d = dict(GRAMS="{111444}", MESHES="{211}", TOLS="{1}", NWS="{1, 2}", TAUIDS="{1}", BOXDIM=2, ORDALL=4, NCS="{1}", DATAMODE='"basis"',
             NDENSE=1, NoWeights="FALSE")
    d.update(kw)
    return ("SPECIFICATION Spec\nCONSTANTS\n" + "".join(f"  {k} = {v}\n" for k, v in d.items()) +
            "".join(f"INVARIANT {i}\n" for i in RT_INVS) + "CHECK_DEADLOCK FALSE\n"), d


# ---------------------------------------------------------------- the real code
def real_set_rvec(G, N, tau, tol, lattice=None):
    from wannierberri.fourier.rvectors import Rvectors
    rv = Rvectors(lattice=lattice_of(G) if lattice is None else lattice, shifts_left_red=np.array(tau, dtype=float) / SS)
    with quiet():
        rv.set_Rvec(mp_grid=np.array(N), ws_tolerance=tol)
    return rv


def pair_set(rv, a, b):
    ish = int(rv.shift_index[a, b])
    Rs = [tuple(int(x) for x in R) for R in rv.iRvec_list[ish]]
    nd = [int(x) for x in rv.Ndegen_list[ish]]
    return list(zip(Rs, nd))


def compare_rvec(rep, rv, W, tau, det, count):
    """exact comparison of iRvec_list / Ndegen_list / shift_index / iRvec with the specification's sets; W: delta -> {(R, nd)}"""
    nw = len(tau)
    ok = True
    union = set()
    for a in range(nw):
        for b in range(nw):
            d = tuple(tau[b][j] - tau[a][j] for j in range(3))
            got = pair_set(rv, a, b)
            union |= {R for R, _ in got}
            if d in W:
                exp = {(tuple(R), n) for R, n in W[d]}
                count[0] += 1
                if len(set(got)) != len(got) or set(got) != exp:
                    ok = False
                    rep.violation("set_Rvec:replicas", dict(det, pair=[a, b], shift_times_4=list(d), got=sorted(got), expected=sorted(exp)))
            for c in range(nw):
                for e in range(nw):
                    d2 = tuple(tau[e][j] - tau[c][j] for j in range(3))
                    if (rv.shift_index[a, b] == rv.shift_index[c, e]) != (d == d2):
                        ok = False
                        rep.violation("set_Rvec:shift_index", dict(det, pairs=[[a, b], [c, e]], shift_index=rv.shift_index.tolist()))
    got_u = [tuple(int(x) for x in R) for R in rv.iRvec]
    if len(set(got_u)) != len(got_u) or set(got_u) != union:
        ok = False
        rep.violation("set_Rvec:iRvec_union", dict(det, iRvec=sorted(got_u), union_of_lists=sorted(union)))
    return ok


def data_array(dat, nk, nw, nc):
    """TLC dat[i][a][b][c] (4-tuples) -> complex array (nk, nw, nw) + cart"""
    A = cy.arr_to_complex(np.array(dat, dtype=float).reshape(nk, nw, nw, nc, 4))
    return A.reshape((nk, nw, nw) + {1: (), 3: (3,), 9: (3, 3)}[nc])


def table_array(X, Rlist, nw, nc, scale):
    """TLC X: R -> [a][b][c] -> complex array (nR, nw, nw) + cart, divided by scale; zero for R not in X"""
    out = np.zeros((len(Rlist), nw, nw, nc), dtype=complex)
    for iR, R in enumerate(Rlist):
        if R in X:
            out[iR] = cy.arr_to_complex(np.array(X[R], dtype=float).reshape(nw, nw, nc, 4))
    return out.reshape((len(Rlist), nw, nw) + {1: (), 3: (3,), 9: (3, 3)}[nc]) / scale


class Dev:
    def __init__(self):
        self.max = 0.0

    def far(self, got, exp):
        got, exp = np.asarray(got), np.asarray(exp)
        if got.shape != exp.shape:
            return float("inf")
        dev = float(np.abs(got - exp).max()) if got.size else 0.0
        scale = max(1.0, float(np.abs(exp).max()) if exp.size else 1.0)
        self.max = max(self.max, dev / scale)
        return dev / scale if dev > TOL * scale else 0.0


def lcm_of(W):
    L = 1
    for s in W.values():
        for _, n in s:
            L = L * n // math.gcd(L, n)
    return L


def all_minus_symmetric(W):
    return all({(tuple(-x for x in R), n) for R, n in W[d]} == set(W[tuple(-x for x in d)]) for d in W)


def replay_qtor(rep, dev, s, rng, rvcache, count):
    G, N, nw, tid = gram_of(s["gram"]), mesh_of(s["mesh"]), s["nw"], s["tolid"]
    tau = tau_of(nw, s["tauid"])
    nc, nk = s["nc"], N[0] * N[1] * N[2]
    W = {tuple(d): {(tuple(R), n) for R, n in v} for d, v in s["W"].items()}
    L = lcm_of(W)
    det = dict(gram=G, mp_grid=N, centres_times_4=tau, ws_tolerance=tolf(tid), order=[list(o) for o in s["ord"]], nc=nc)
    key = (s["gram"], s["mesh"], nw, s["tauid"], tid)
    if key not in rvcache:
        rv = real_set_rvec(G, N, tau, tolf(tid))
        rvcache.clear()
        rvcache[key] = (rv, compare_rvec(rep, rv, W, tau, det, count))
    rv, ok = rvcache[key]
    if not ok:
        return det
    data = data_array(s["dat"], nk, nw, nc)
    Rlist = [tuple(int(x) for x in R) for R in rv.iRvec]
    exp = table_array(s["X"], Rlist, nw, nc, float(nk * L))
    kred = (np.array(s["ord"], dtype=float) + np.array([[rng.choice([-1, 0, 0, 2]) * N[j] for j in range(3)] for _ in range(nk)])) / np.array(N)
    herm = all_minus_symmetric(W)
    XRs = {}
    for lib in ("fftw", "numpy"):
        with quiet():
            rv.set_fft_q_to_R(kpt_red=kred, fftlib=lib)
            XR = rv.q_to_R(data.copy())
        XRs[lib] = XR
        d = dev.far(XR, exp)
        if d:
            rep.violation(f"q_to_R:values:{lib}", dict(det, relative_deviation=d, data=str(data.tolist())[:400]))
            continue
        if herm:
            with quiet():
                d = dev.far(rv.conj_XX_R(XR), XR)
            if d:
                rep.violation("conj_XX_R", dict(det, relative_deviation=d, fftlib=lib))
    XR = XRs["numpy"]
    # back to the mesh: FFT back ends on the mesh itself, and the explicit list in the order of the input
    grid_data = np.zeros_like(data)
    for i, o in enumerate(s["ord"]):
        grid_data[(o[0] * N[1] + o[1]) * N[2] + o[2]] = data[i]
    for lib in ("fftw", "numpy", "slow"):
        with quiet():
            rv.set_fft_R_to_k(NK=N, num_wann=nw, fftlib=lib)
            back = rv.R_to_k(XR.copy(), hermitian=False)
        d = dev.far(back, grid_data)
        if d:
            rep.violation(f"round_trip:{lib}", dict(det, relative_deviation=d, data=str(data.tolist())[:400]))
    with quiet():
        rv.set_fft_R_to_k(NK=None, num_wann=nw, k_list=kred)
        back = rv.R_to_k(XR.copy(), hermitian=False)
    d = dev.far(back, data)
    if d:
        rep.violation("round_trip:k_list", dict(det, relative_deviation=d, data=str(data.tolist())[:400]))
    return det


def sparse_dict(tab, nw, comps):
    """R -> [a][b][c] table -> from_sparse dictionary for the Cartesian components comps (None = scalar component 0)"""
    out = {}
    for R, m in tab.items():
        A = cy.arr_to_complex(np.array(m, dtype=float).reshape(nw, nw, -1, 4))
        out[tuple(R)] = {(a, b): (A[a, b, 0] if comps is None else A[a, b, :]) for a in range(nw) for b in range(nw)}
    return out


def real_do_ws_dist(G, N, tau, tol, old, nw, nc, lattice=None):
    import wannierberri as wb
    mats = {"Ham": sparse_dict(old, nw, None)}
    if nc == 3:
        mats["AA"] = sparse_dict(old, nw, 3)
    with quiet():
        syst = wb.system.System_R.from_sparse(real_lattice=lattice_of(G) if lattice is None else lattice,
                                              wannier_centers_red=np.array(tau, dtype=float) / SS, matrices=mats)
        syst.do_ws_dist(mp_grid=[int(x) for x in N], ws_dist_tol=tol)
    return syst


def replay_wsdist(rep, dev, s, count):
    G, N, nw, tid = gram_of(s["gram"]), mesh_of(s["mesh"]), s["nw"], s["tolid"]
    tau = tau_of(nw, s["tauid"])
    nc = s["nc"]
    W = {tuple(d): {(tuple(R), n) for R, n in v} for d, v in s["W"].items()}
    L = lcm_of(W)
    det = dict(gram=G, mp_grid=N, centres_times_4=tau, ws_dist_tol=tolf(tid), nc=nc)
    old = {tuple(R): m for R, m in s["dat"].items()}
    syst = real_do_ws_dist(G, N, tau, tolf(tid), old, nw, nc)
    X = {tuple(R): m for R, m in s["X"].items()}
    got_R = [tuple(int(x) for x in R) for R in syst.rvec.iRvec]
    if set(got_R) != set(X) or len(set(got_R)) != len(got_R):
        rep.violation("do_ws_dist:iRvec", dict(det, got=sorted(got_R), expected=sorted(X)))
        return det
    exp = table_array(X, got_R, nw, nc, float(L))
    d = dev.far(syst.get_R_mat("Ham"), exp[:, :, :, 0] if nc == 3 else exp)
    if d:
        rep.violation("do_ws_dist:values:Ham", dict(det, relative_deviation=d))
    if nc == 3:
        d = dev.far(syst.get_R_mat("AA"), exp)
        if d:
            rep.violation("do_ws_dist:values:AA", dict(det, relative_deviation=d))
    if all_minus_symmetric(W):
        with quiet():
            d = dev.far(syst.rvec.conj_XX_R(syst.get_R_mat("Ham")), syst.get_R_mat("Ham"))
        if d:
            rep.violation("do_ws_dist:conj_XX_R", dict(det, relative_deviation=d))
    count[0] += 1
    return det


# ---------------------------------------------------------------- records (code -> spec)
def random_gram(rng, dim):
    while True:
        if rng.random() < 0.5:
            A = np.array([[rng.randint(-2, 2) for _ in range(3)] for _ in range(3)])
            G = A @ A.T
        else:
            G = np.array([[rng.randint(1, 4) if i == j else 0 for j in range(3)] for i in range(3)])
            for i in range(3):
                for j in range(i):
                    G[i, j] = G[j, i] = rng.randint(-3, 3)
        if dim < 3:
            G[2, :] = G[:, 2] = 0
            G[2, 2] = rng.randint(1, 4)
        if dim < 2:
            G[1, :] = G[:, 1] = 0
            G[1, 1] = rng.randint(1, 4)
        if np.all(np.linalg.eigvalsh(G.astype(float)) > 0.3) and G.max() <= 9:
            return G.tolist()


def dense_hermitian(rng, nk, nw, nc):
    dat = [[[[None] * nc for _ in range(nw)] for _ in range(nw)] for _ in range(nk)]
    for i in range(nk):
        for a in range(nw):
            for b in range(a, nw):
                for c in range(nc):
                    if a == b:
                        v = (rng.randint(-2, 2), 0, 0, 0)
                    else:
                        v = tuple(rng.randint(-2, 2) for _ in range(4)) if rng.random() < 0.4 else (rng.randint(-2, 2), 0, 0, rng.randint(-2, 2))
                    dat[i][a][b][c] = list(v)
                    dat[i][b][a][c] = [v[0] + v[2], v[1], -v[2], -v[1] - v[3]]
    return dat


def make_record(rep, rng, thorough):
    dim = rng.choice([1, 2, 2, 3])
    G = random_gram(rng, dim)
    sizes = [1, 2, 3, 4, 6]
    while True:
        N = [rng.choice(sizes) if j < dim else 1 for j in range(3)]
        if N[0] * N[1] * N[2] <= (12 if thorough else 4):
            break
    nw = rng.choice([1, 2, 2, 3]) if thorough else rng.choice([1, 2, 2])
    far = rng.random() < 0.15
    tau = [[(rng.randint(-12, 16) if far else rng.randint(-2, 5)) if j < dim or rng.random() < 0.2 else 0 for j in range(3)] for _ in range(nw)]
    tid = rng.choice([1, 1, 2, 3, 4])
    rv = real_set_rvec(G, N, tau, tolf(tid) * rng.choice([1, 1, 1, -1]) if tid in (1, 2) else tolf(tid))
    pairs = [[[list(R), n] for R, n in pair_set(rv, a, b)] for a in range(nw) for b in range(nw)]
    rec = dict(kind="setrvec", G=G, N=N, S=SS, tol=list(TOLS[tid]), tau=tau, pairs=pairs, iRvec=[[int(x) for x in R] for R in rv.iRvec])
    L = 1
    for p in pairs:
        for _, n in p:
            L = L * n // math.gcd(L, n)
    nk = N[0] * N[1] * N[2]
    r = rng.random()
    if r < 0.45 and L * nk <= 400:
        nc = rng.choice([1, 1, 3, 9]) if nw < 3 else 1
        order = [[i, j, k] for i in range(N[0]) for j in range(N[1]) for k in range(N[2])]
        rng.shuffle(order)
        dat = dense_hermitian(rng, nk, nw, nc)
        data = data_array(dat, nk, nw, nc)
        lib = rng.choice(["fftw", "numpy"])
        with quiet():
            rv.set_fft_q_to_R(kpt_red=np.array(order, dtype=float) / np.array(N), fftlib=lib)
            XR = rv.q_to_R(data)
        A = np.asarray(XR).reshape(len(rv.iRvec), nw, nw, nc) * float(nk * L)
        try:
            X = cy.mat_from_complex(A, bound=40 * nk * L)
        except ValueError as e:
            rep.violation("non-integral projection:q_to_R", dict(record=rec, error=str(e)))
            return None
        rec.update(kind="qtor", nc=nc, L=L, ord=order, dat=dat, XR=rec["iRvec"], X=X, lib=lib)
    elif r < 0.7 and L <= 60:
        nc = rng.choice([1, 3])
        oldR = set()
        for _ in range(rng.randint(1, 5)):
            oldR.add(tuple(rng.randint(-3, 3) if j < dim else 0 for j in range(3)))
        oldR |= {tuple(-x for x in R) for R in oldR} | {(0, 0, 0)}
        old = {}
        for R in sorted(oldR):
            if R in old:
                continue
            mR = tuple(-x for x in R)
            m = dense_hermitian(rng, 1, nw, nc)[0]
            if R != mR:
                m = [[[[rng.randint(-2, 2), 0, 0, rng.randint(-2, 2)] for _ in range(nc)] for _ in range(nw)] for _ in range(nw)]
                old[mR] = [[[[m[b][a][c][0], 0, 0, -m[b][a][c][3]] for c in range(nc)] for b in range(nw)] for a in range(nw)]
            old[R] = m
        syst = real_do_ws_dist(G, N, tau, tolf(tid), old, nw, nc)
        newR = [[int(x) for x in R] for R in syst.rvec.iRvec]
        A = np.asarray(syst.get_R_mat("AA" if nc == 3 else "Ham")).reshape(len(newR), nw, nw, nc) * float(L)
        try:
            X = cy.mat_from_complex(A, bound=400 * L)
        except ValueError as e:
            rep.violation("non-integral projection:do_ws_dist", dict(record=rec, error=str(e)))
            return None
        rec.update(kind="wsdist", nc=nc, L=L, oldR=[list(R) for R in old], old=[old[R] for R in old], XR=newR, X=X)
    return rec


def numeric_only(rep, rng, ncases):
    """random real lattices / centres (round trip only: the back ends and the replica weights, no exact oracle)"""
    from wannierberri.fourier.rvectors import Rvectors
    worst = 0.0
    for ic in range(ncases):
        r = np.random.RandomState(rng.randrange(1 << 30))
        lat = np.eye(3) * (1 + r.rand(3)) + 0.3 * r.randn(3, 3)
        nw = int(r.randint(1, 4))
        cen = 1.25 * r.rand(nw, 3) - 0.25       # differences below 1.25 lattice vectors: inside the search-box precondition
        N = np.array([int(x) for x in r.randint(1, 5, size=3)])
        nk = int(np.prod(N))
        rv = Rvectors(lattice=lat, shifts_left_red=cen)
        with quiet():
            rv.set_Rvec(mp_grid=N, ws_tolerance=float(r.choice([1e-3, 1e-5])))
        order = [(i, j, k) for i in range(N[0]) for j in range(N[1]) for k in range(N[2])]
        rng.shuffle(order)
        shape = [(), (3,), (3, 3)][int(r.randint(0, 3))]
        data = r.randn(nk, nw, nw, *shape) + 1j * r.randn(nk, nw, nw, *shape)
        data = 0.5 * (data + data.swapaxes(1, 2).conj())
        with quiet():
            rv.set_fft_q_to_R(kpt_red=np.array(order, dtype=float) / N, fftlib=str(r.choice(["fftw", "numpy"])))
            XR = rv.q_to_R(data.copy())
            rv.set_fft_R_to_k(NK=None, num_wann=nw, k_list=np.array(order, dtype=float) / N)
            back = rv.R_to_k(XR.copy(), hermitian=False)
            cj = rv.conj_XX_R(XR)
        scale = max(1.0, float(np.abs(data).max()))
        d1 = float(np.abs(back - data).max()) / scale
        d2 = float(np.abs(cj - XR).max()) / scale
        worst = max(worst, d1, d2)
        det = dict(case=ic, lattice=lat.tolist(), centres=cen.tolist(), mp_grid=N.tolist(), cart_shape=list(shape))
        if d1 > 1e-8:
            rep.violation("numeric_only:round_trip", dict(det, relative_deviation=d1))
        if d2 > 1e-8:
            rep.violation("numeric_only:conj_XX_R", dict(det, relative_deviation=d2))
        for ish in range(len(rv.iRvec_list)):
            w = {}
            for Rm, nd in zip(rv.iRvec_mod_list[ish], rv.Ndegen_list[ish]):
                w[tuple(Rm)] = w.get(tuple(Rm), 0) + 1.0 / nd
            if len(w) != nk or max(abs(v - 1) for v in w.values()) > 1e-12:
                rep.violation("numeric_only:weights", dict(det, shift=ish, weights=str(w)))
        rep.case(("numeric", ic), nontrivial=False)
    rep.part("numeric_only", cases=ncases, max_relative_deviation=worst,
             what="random real lattices / centres within (-0.25, 1) cells / meshes 1..4 / scalar, vector, tensor Hermitian data in random order: "
                  "q_to_R -> R_to_k(k-list) equals the input, conj_XX_R(X) = X, weights per class (1e-8)")


def check(pid, tier):
    rep = Report(pid, tier, "model_checking")
    thorough = tier == "thorough"
    rng = random.Random(seed() * 7919 + 1)
    import wannierberri  # noqa: F401
    rep.rule("TLC enumerates every (Gram matrix, mesh, shift in quarters, tolerance) of the listed constants and, in MC_WSRoundTrip, every "
             "order of the mesh points (all permutations up to ORDALL points) and the one-hot Hermitian basis plus dense data; a case = one "
             "enumerated input executed on the real code (set_Rvec exact; q_to_R, conj_XX_R, R_to_k, do_ws_dist to 1e-9), plus seeded "
             "random recorded executions validated by TLC; distinct by input")
    rep.assume("lattice = Cholesky factor of the integer Gram matrix, centres in quarters: squared distances times 16 are integers, so "
               "distinct candidates differ by far more than the tolerance unless the specification flags the shift as Ambiguous")
    rep.assume("search-box precondition (DESIGN 7.2): (b,a) = -(a,b) and X(-R) = X(R)^dagger are claimed for |tau_b - tau_a| <= 1.5 "
               "lattice vectors per direction; weights and the q->R->k identity are claimed without it")
    cyclo_library_check(rep)
    dev = Dev()

    # ---------------- replica selection: spec -> code
    G1 = "{111444, 211444, 411444}"
    G2 = "{111444, 121444, 221344, 221544, 341744, 431144, 231544}"
    if thorough:
        ws_configs = [
            ("c01_ws_1d", dict(GRAMS="{111444, 211444, 311444, 411444}", MESHES="{111, 211, 311, 411, 611}", TOLS="{1, 2}", DIM=1, DMAX=6, STEP=1, BOXDIM=1, LEMMADIM=1, BIGBOX=6)),
            ("c01_ws_2d", dict(GRAMS="{111444, 121444, 141444, 221344, 221544, 331344, 341744, 431144, 231544, 441244, 241644, 441744, 341444}",
                               MESHES="{111, 211, 121, 221, 321, 231, 331, 411, 421, 611}", TOLS="{1}", DIM=2, DMAX=6, STEP=1, BOXDIM=2, LEMMADIM=2)),
            ("c01_ws_2d_bigbox", dict(GRAMS="{431144, 341744, 441744, 231544, 241644, 221344}", MESHES="{111, 211, 121, 221, 321, 441}", TOLS="{2}", DIM=2,
                                      DMAX=6, STEP=2, BOXDIM=2, LEMMADIM=2, BIGBOX=5)),
            ("c01_ws_2d_m6", dict(GRAMS=G2, MESHES="{621, 361, 661}", TOLS="{1}", DIM=2, DMAX=6, STEP=2, BOXDIM=2, LEMMADIM=2)),
            ("c01_ws_lemma", dict(GRAMS="{111444, 221344, 341744, 431144}", MESHES="{211, 221, 321, 411}", TOLS="{1, 2}", DIM=2, DMAX=6, STEP=3, BOXDIM=3, LEMMADIM=2)),
            ("c01_ws_lemma1", dict(GRAMS=G1, MESHES="{211, 311, 411}", TOLS="{1}", DIM=1, DMAX=6, STEP=1, BOXDIM=3, LEMMADIM=1)),
            ("c01_ws_loose", dict(GRAMS="{111444, 221344, 341744, 421444}", MESHES="{211, 221, 321}", TOLS="{3, 4}", DIM=2, DMAX=6, STEP=3, BOXDIM=3, LEMMADIM=3)),
            ("c01_ws_3d", dict(GRAMS="{111444, 322333, 322543, 211444}", MESHES="{222, 212, 232}", TOLS="{1}", DIM=3, DMAX=2, STEP=2, BOXDIM=3, LEMMADIM=3)),
        ]
    else:
        ws_configs = [
            # 1-D problems are contained: rectangular Gram matrices with meshes (n, 1, 1) and shifts (x, 0, 0)
            ("c01_ws_2d", dict(GRAMS="{111444, 221344, 341744, 431144, 231544}", MESHES="{111, 211, 221, 321, 411}", TOLS="{1}", DIM=2, DMAX=6, STEP=2,
                               BOXDIM=2, LEMMADIM=2)),
            ("c01_ws_full", dict(GRAMS="{221344, 341744}", MESHES="{221}", TOLS="{2, 4}", DIM=2, DMAX=2, STEP=2, BOXDIM=3, LEMMADIM=2)),
        ]
    n_ws = n_amb = n_degen = n_outside = n_pairs = 0
    t_replay = 0.0
    count = [0]
    for name, kw in ws_configs:
        cfg, consts = ws_cfg(**kw)
        st = ftable.enumerate_states("MC_WignerSeitz.tla", cfg, name, timeout=3000)
        if ftable.spec_violation(rep, st, name):
            continue
        tlc.check_not_vacuous(st, ["Compute"], name)
        st["constants"] = consts
        rep.add_tlc(name, st)
        ndone = 0
        t0 = time.time()
        for s in fast_dump_states(st, fast_vars=("C", "Cm")):
            if s["phase"] != "done":
                continue
            ndone += 1
            G, N, delta, tid = gram_of(s["gram"]), mesh_of(s["mesh"]), list(s["delta"]), s["tolid"]
            amb = any(c["amb"] for c in s["C"].values()) or any(c["amb"] for c in s["Cm"].values())
            degen = any(c["nd"] > 1 for c in s["C"].values())
            outside = any(2 * abs(x) > 3 * SS for x in delta)
            rep.case((name, s["gram"], s["mesh"], tuple(delta), tid), nontrivial=True)
            n_amb += amb
            n_degen += degen
            n_outside += outside
            if amb:
                continue        # Ambiguous(P, delta): the floating-point comparison is not determined
            W = {tuple(delta): {(tuple(R), c["nd"]) for c in s["C"].values() for R in c["Rs"]}}
            mdelta = tuple(-x for x in delta)
            Wm = {(tuple(R), c["nd"]) for c in s["Cm"].values() for R in c["Rs"]}
            if mdelta in W and W[mdelta] != Wm:
                raise MachineryError("zero shift with different sets for (a,b) and (b,a)")
            W[mdelta] = Wm
            tau = [[0, 0, 0], delta]
            tol = tolf(tid) * (-1 if (tid in (1, 2) and ndone % 7 == 0) else 1)      # negative: legacy mode, same replicas
            rv = real_set_rvec(G, N, tau, tol)
            det = dict(gram=G, mp_grid=N, centres_times_4=tau, ws_tolerance=tol)
            compare_rvec(rep, rv, W, tau, det, count)
            n_ws += 1
            if n_ws <= 2:
                rep.sample(dict(config=name, **det, replicas_ab=sorted([list(R), n] for R, n in W[tuple(delta)])))
        t_replay += time.time() - t0
        if 2 * ndone != st["distinct"]:
            raise MachineryError(f"{name}: {ndone} finished states in the dump, TLC reported {st['distinct']} states")
    n_pairs = count[0]
    if n_ws == 0 or n_degen == 0:
        raise MachineryError(f"vacuous replica enumeration: replayed {n_ws}, with degeneracy {n_degen}")
    rep.part("replay_set_Rvec", inputs_replayed=n_ws, pair_sets_compared=n_pairs, with_degenerate_replicas=n_degen,
             excluded_ambiguous=n_amb, outside_search_box_precondition=n_outside, replay_wall_s=round(t_replay, 1))

    # ---------------- transforms: spec -> code
    if thorough:
        rt_configs = [
            ("c01_rt_small", dict(GRAMS="{111444, 221344, 341744}", MESHES="{211, 311, 221, 411}", TOLS="{1}", NWS="{1, 2}", TAUIDS="{1, 2, 4, 6}",
                                  BOXDIM=2, ORDALL=4, NCS="{1, 3}", DATAMODE='"basis"', NDENSE=2)),
            ("c01_rt_mesh", dict(GRAMS="{111444, 221544}", MESHES="{321, 331, 441, 621}", TOLS="{2}", NWS="{2}", TAUIDS="{2, 5}",
                                 BOXDIM=2, ORDALL=4, NCS="{3, 9}", DATAMODE='"dense"', NDENSE=2)),
            ("c01_rt_nw3", dict(GRAMS="{221344}", MESHES="{221, 311}", TOLS="{1}", NWS="{3}", TAUIDS="{1, 2}",
                                BOXDIM=2, ORDALL=3, NCS="{1}", DATAMODE='"basis"', NDENSE=1)),
            ("c01_rt_3d", dict(GRAMS="{111444, 322333}", MESHES="{212, 222}", TOLS="{1, 3}", NWS="{2}", TAUIDS="{1, 7}",
                               BOXDIM=3, ORDALL=4, NCS="{1, 9}", DATAMODE='"dense"', NDENSE=2)),
        ]
    else:
        rt_configs = [
            ("c01_rt_small", dict(GRAMS="{111444, 221344}", MESHES="{211, 221, 311}", TOLS="{1}", NWS="{1, 2}", TAUIDS="{1, 2}",
                                  BOXDIM=2, ORDALL=4, NCS="{1}", DATAMODE='"basis"', NDENSE=1)),
            ("c01_rt_mesh", dict(GRAMS="{221544}", MESHES="{321, 441}", TOLS="{2}", NWS="{2}", TAUIDS="{4, 6}",
                                 BOXDIM=2, ORDALL=4, NCS="{3, 9}", DATAMODE='"dense"', NDENSE=1)),
        ]
    n_rt = n_wsd = n_perm = n_excl = 0
    t_replay = 0.0
    kinds = set()
    for name, kw in rt_configs:
        cfg, consts = rt_cfg(**kw)
        st = ftable.enumerate_states("MC_WSRoundTrip.tla", cfg, name, timeout=3000)
        if ftable.spec_violation(rep, st, name):
            continue
        tlc.check_not_vacuous(st, ["CallSetRvec", "SetFFTq", "DoQtoR", "DoWsDist"], name)
        st["constants"] = consts
        rep.add_tlc(name, st)
        t0 = time.time()
        rvcache = {}
        nterm = 0
        states = [s for s in fast_dump_states(st, fast_vars=("dat", "X", "ord")) if s["phase"] in ("R", "ws", "rvec")]
        states.sort(key=lambda s: (s["gram"], s["mesh"], s["nw"], s["tauid"], s["tolid"]))
        for s in states:
            if s["phase"] == "rvec":
                n_excl += bool(s["amb"])
                continue
            nterm += 1
            key = (name, s["phase"], s["gram"], s["mesh"], s["nw"], s["tauid"], s["tolid"], s["nc"], tuple(s["ord"]), repr(s["dat"])[:2000])
            rep.case(key, nontrivial=True)
            if s["phase"] == "R":
                det = replay_qtor(rep, dev, s, rng, rvcache, count)
                n_rt += 1
                n_perm += list(s["ord"]) != sorted(s["ord"])
                kinds.add(s["nc"])
            else:
                det = replay_wsdist(rep, dev, s, count)
                n_wsd += 1
            if n_rt + n_wsd <= 2:
                rep.sample(dict(config=name, call="q_to_R" if s["phase"] == "R" else "do_ws_dist", **det))
        t_replay += time.time() - t0
        if nterm == 0:
            raise MachineryError(f"{name}: no terminal state in the dump")
    if n_rt == 0 or n_wsd == 0 or n_perm == 0 or len(kinds) < 2:
        raise MachineryError(f"vacuous transform enumeration: q_to_R {n_rt}, do_ws_dist {n_wsd}, permuted orders {n_perm}, components {kinds}")
    rep.part("replay_transforms", q_to_R_states=n_rt, do_ws_dist_states=n_wsd, permuted_orders=n_perm, cartesian_components=sorted(kinds),
             excluded_ambiguous_inputs=n_excl, max_relative_deviation_from_exact=dev.max, tolerance=TOL, replay_wall_s=round(t_replay, 1))
    if dev.max * 1e4 > TOL:
        raise MachineryError(f"tolerance {TOL} is not 10^4 times the observed deviation {dev.max}")

    # ---------------- sensitivity
    st1 = tlc.run_tlc("MC_WignerSeitz.tla", ws_cfg(GRAMS="{111444}", MESHES="{211}", TOLS="{1}", DIM=1, DMAX=2, STEP=1, BOXDIM=1, LEMMADIM=1,
                                                   WrongSign="TRUE")[0], "c01_sens_sign", workers=4, coverage=False, timeout=900)
    if not st1.get("violation") or st1["violation"][1] != "MinusSymmetry":
        raise MachineryError(f"sensitivity self-test failed: (b,a) searched with the shift of (a,b) should violate MinusSymmetry ({st1.get('violation')}, {st1.get('error')})")
    st2 = tlc.run_tlc("MC_WSRoundTrip.tla", rt_cfg(GRAMS="{111444}", MESHES="{211}", TOLS="{1}", NWS="{1}", TAUIDS="{1}", BOXDIM=1, ORDALL=2,
                                                   NCS="{1}", DATAMODE='"basis"', NDENSE=1, NoWeights="TRUE")[0], "c01_sens_weights",
                      workers=4, coverage=False, timeout=900)
    if not st2.get("violation") or st2["violation"][1] not in ("RoundTrip", "WsDistKeeps"):
        raise MachineryError(f"sensitivity self-test failed: dropping the weights 1/Ndegen should violate RoundTrip / WsDistKeeps ({st2.get('violation')}, {st2.get('error')})")
    rep.part("sensitivity", wrong_shift_sign=st1["violation"][1], no_degeneracy_weights=st2["violation"][1])

    # ---------------- code -> spec
    recs = []
    nrec = 600 if thorough else 24
    while len(recs) < nrec:
        r = make_record(rep, rng, thorough)
        if r is not None:
            recs.append(r)
            rep.case(("rec", len(recs)), nontrivial=True)
    stv, bad = validate_parallel("WignerSeitzRec.tla", recs, "c01", 8)
    rep.add_tlc("c01_records", stv)
    rep.add_traces(len(recs))
    n_ambrec = 0
    for i, clauses in bad.items():
        real = [c for c in clauses if c != "unambiguous"]
        n_ambrec += "unambiguous" in clauses
        if real:
            r = recs[i]
            small = {k: v for k, v in r.items() if k not in ("dat", "X", "old")} if len(str(r)) > 4000 else r
            rep.violation(f"recorded:{r['kind']}:" + ",".join(sorted(real)), dict(record=small, failing_clauses=real))
    by_kind = {}
    for r in recs:
        by_kind[r["kind"]] = by_kind.get(r["kind"], 0) + 1
    if len(by_kind) < 3:
        raise MachineryError(f"record kinds missing: {by_kind}")
    rep.part("records", by_kind=by_kind, ambiguous_records_not_compared_with_spec=n_ambrec)
    rep.sample({k: v for k, v in recs[0].items() if k not in ("dat", "X", "old")})
    # binding self-test: corrupted records must be rejected
    b1 = copy.deepcopy(next(r for r in recs if any(n > 1 for p in r["pairs"] for _, n in p)))
    for p in b1["pairs"]:
        for e in p:
            if e[1] > 1:
                e[1] -= 1                        # wrong degeneracy
    b2 = copy.deepcopy(next(r for r in recs if r["kind"] == "qtor" and any(any(x) for m in r["X"] for row in m for e in row for x in e)))
    for m in b2["X"]:
        for row in m:
            for e in row:
                if any(any(x) for x in e):
                    e[0][0] += 1                 # wrong matrix element
    b3 = copy.deepcopy(recs[0])
    b3["pairs"][0] = b3["pairs"][0][1:]          # a replica missing
    _, bb = validate_parallel("WignerSeitzRec.tla", [b1, b2, b3], "c01_selftest", 1)
    if any(not [c for c in bb.get(i, []) if c != "unambiguous"] for i in range(3)):
        raise MachineryError(f"binding self-test failed: corrupted records accepted ({bb})")
    rep.part("binding_selftest", corrupted_records_rejected={str(k): v for k, v in bb.items()})

    numeric_only(rep, rng, 300 if thorough else 40)
    return rep.finish()
