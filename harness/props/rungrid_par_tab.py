"""C12, second half: with real calculators on a real (random Hermitian) model, the parallel branch of run() driven by a
schedule-controlled ray double (random completion orders, both ray.wait answer policies) must return the same
integrated values, grid tabulations and path tabulations (in path order) as the serial branch."""
import os
import shutil
import sys
import traceback
import numpy as np

import wannierberri as wb
from ..common import quiet, maxdiff
from ..rungrid_world import FakeRay, random_schedule, raised_by_package


def random_system(rng, nw=3, return_ham=False):
    r = np.random.RandomState(rng.randrange(1 << 30))
    Rs = [(0, 0, 0), (1, 0, 0), (0, 1, 0), (0, 0, 1), (1, 1, 0)]
    ham = {}
    for R in Rs:
        M = r.randn(nw, nw) + 1j * r.randn(nw, nw)
        if R == (0, 0, 0):
            M = (M + M.conj().T) / 2
        ham[R] = {(i, j): M[i, j] for i in range(nw) for j in range(nw)}
        if R != (0, 0, 0):
            mR = tuple(-x for x in R)
            ham[mR] = {(j, i): np.conj(M[i, j]) for i in range(nw) for j in range(nw)}
    lat = np.eye(3) + 0.1 * r.randn(3, 3)
    cen = r.rand(nw, 3)
    with quiet():
        s = wb.system.System_R.from_sparse(real_lattice=lat, wannier_centers_red=cen, matrices={"Ham": ham})
    return (s, ham) if return_ham else s



_TAG = [None]


def _scratch():
    from ..common import WORK
    return os.path.join(WORK, f"c12_par_tab_{_TAG[0] or os.getpid()}")


def _fout():
    """prefix of the files run() writes (scratch under /verif/.work, unique per check process, removed by check())"""
    d = _scratch()
    os.makedirs(d, exist_ok=True)
    return os.path.join(d, "r")


class Raised(Exception):
    """the package raised inside run(): already reported, the caller goes on with the next input"""


def run_with(rep, what, system, grid, calcs, parallel, rng, ncpu, first_n, **kw):
    events = []
    saved = sys.modules.get("ray")
    fake = None
    if parallel:
        fake = FakeRay(ncpu, random_schedule(rng, first_n), lambda e, f: events.append(f.get("t")))
        sys.modules["ray"] = fake
    try:
        with quiet():
            res = wb.run(system, grid, calcs, parallel=parallel, fout_name=_fout(), print_progress_step_time=1e9, **kw)
    except Exception as ex:
        site = raised_by_package(ex)
        if site is None:
            raise
        rep.violation(f"raises:{site}:{type(ex).__name__}",
                      dict(what=f"run() raised ({what}, parallel={parallel}, ncpu={ncpu})", error=str(ex)[:400],
                           traceback=traceback.format_exception(type(ex), ex, ex.__traceback__)[-8:], completion_order=events[:30]))
        raise Raised() from ex
    finally:
        if fake is not None:
            if saved is not None:
                sys.modules["ray"] = saved
            else:
                sys.modules.pop("ray", None)
    return res, events


def direct_energies(ham, kpts):
    """eigenvalues of H(k) = sum_R H(R) exp(2 pi i k.R) (what Energy tabulates), straight from the hopping dictionary"""
    nw = 1 + max(i for d in ham.values() for i, _ in d)
    out = []
    for k in kpts:
        H = np.zeros((nw, nw), dtype=complex)
        for R, d in ham.items():
            ph = np.exp(2j * np.pi * np.dot(k, R))
            for (i, j), v in d.items():
                H[i, j] += v * ph
        out.append(np.linalg.eigvalsh((H + H.conj().T) / 2))
    return np.array(out)


def check(rep, rng, thorough, tag=None):
    _TAG[0] = tag
    try:
        _check(rep, rng, thorough)
    finally:
        shutil.rmtree(_scratch(), ignore_errors=True)


def _check(rep, rng, thorough):
    from wannierberri import calculators as calc
    n = 6 if thorough else 2
    tol = 1e-10
    count = dict(grid_integrals=0, grid_tabulations=0, path_tabulations=0, path_energy_vs_direct=0)
    for it in range(n):
        system, ham = random_system(rng, return_ham=True)
        Ef = np.linspace(-2, 2, 7)
        # --- grid: integration + tabulation, with refinement
        with quiet():
            grid = wb.Grid(system, NKdiv=[3, 2, 2], NKFFT=[2, 2, 2])

        def icalcs():
            return {"ahc": calc.static.AHC(Efermi=Ef, kwargs_formula={"external_terms": False}),
                    "dos": calc.static.DOS(Efermi=Ef)}

        def tcalcs():
            return {"tab": calc.TabulatorAll({"Energy": calc.tabulate.Energy(), "berry": calc.tabulate.BerryCurvature(kwargs_formula={"external_terms": False})}, ibands=[0, 1, 2], mode="grid")}
        kw = dict(use_irred_kpt=False, symmetrize=False)
        try:
            i_ser, _ = run_with(rep, "grid integration", system, grid, icalcs(), False, rng, 1, True, adpt_num_iter=2, **kw)
            t_ser, _ = run_with(rep, "grid tabulation", system, grid, tcalcs(), False, rng, 1, True, adpt_num_iter=0, **kw)
        except Raised:
            continue
        for ncpu in (2, 3):
            for first_n in (True, False):
                try:
                    i_par, order = run_with(rep, "grid integration", system, grid, icalcs(), True, rng, ncpu, first_n, adpt_num_iter=2, **kw)
                    t_par, order_t = run_with(rep, "grid tabulation", system, grid, tcalcs(), True, rng, ncpu, first_n, adpt_num_iter=0, **kw)
                except Raised:
                    continue
                count["grid_integrals"] += 1
                for k in ("ahc", "dos"):
                    d = maxdiff(i_ser.results[k].data, i_par.results[k].data)
                    if not d <= tol * max(1.0, float(np.abs(i_ser.results[k].data).max())):
                        rep.violation(f"par_vs_serial:grid:{k}", dict(ncpu=ncpu, first_n=first_n, completion_order=order, maxdiff=d))
                count["grid_tabulations"] += 1
                ts, tp = t_ser.results["tab"], t_par.results["tab"]
                if maxdiff(ts.kpoints, tp.kpoints) > 1e-12:
                    rep.violation("par_vs_serial:grid:tab.kpoints", dict(ncpu=ncpu, completion_order=order_t))
                    continue
                for q in ("Energy", "berry"):
                    d = maxdiff(ts.get_data(quantity=q, iband=[0, 1, 2]), tp.get_data(quantity=q, iband=[0, 1, 2]))
                    if not d <= 1e-8:
                        rep.violation(f"par_vs_serial:grid:tab.{q}", dict(ncpu=ncpu, first_n=first_n, completion_order=order_t, maxdiff=d))
        # --- path
        nodes = [[0, 0, 0], [0.5, 0, 0], [0.5, 0.5, 0], None, [0, 0.5, 0.5], [0.3, 0.1, 0.7]]
        with quiet():
            path = wb.Path.from_nodes(system, nodes=nodes, nk=[5, 4, 6])
        kp = np.asarray(path.K_list)
        e_direct = direct_energies(ham, kp)

        def pcalcs():
            return {"tab": calc.TabulatorAll({"Energy": calc.tabulate.Energy(), "berry": calc.tabulate.BerryCurvature(kwargs_formula={"external_terms": False})}, ibands=[0, 1, 2], mode="path")}
        try:
            r_ser, _ = run_with(rep, "path tabulation", system, path, pcalcs(), False, rng, 1, True, k_batch=2)
        except Raised:
            continue
        for ncpu in (2, 3):
            for first_n in (True, False):
                for kb in (1, 2, 4):
                    try:
                        r_par, order = run_with(rep, "path tabulation", system, path, pcalcs(), True, rng, ncpu, first_n, k_batch=kb)
                    except Raised:
                        continue
                    count["path_tabulations"] += 1
                    tp, ts = r_par.results["tab"], r_ser.results["tab"]
                    inorder = np.shape(tp.kpoints) == kp.shape
                    if inorder:
                        dk = tp.kpoints - kp
                        inorder = np.abs(dk - np.round(dk)).max() <= 1e-9
                    if not inorder:
                        rep.violation("par_path:order", dict(ncpu=ncpu, k_batch=kb, completion_order=order,
                                                             what="k-points of the parallel path tabulation are not in path order"))
                        continue
                    for q in ("Energy", "berry"):
                        d = maxdiff(ts.get_data(quantity=q, iband=[0, 1, 2]), tp.get_data(quantity=q, iband=[0, 1, 2]))
                        if not d <= 1e-8:
                            rep.violation(f"par_path:{q}", dict(ncpu=ncpu, k_batch=kb, first_n=first_n, completion_order=order, maxdiff=d))
                    # each point its own values: the energies against a direct diagonalisation at the path points
                    e_tab = np.asarray(tp.get_data(quantity="Energy", iband=[0, 1, 2]))
                    if e_tab.shape == e_direct.shape:
                        count["path_energy_vs_direct"] += 1
                        d = maxdiff(np.sort(e_tab, axis=1), e_direct)
                        if not d <= 1e-7 * max(1.0, float(np.abs(e_direct).max())):
                            rep.violation("par_path:Energy_vs_direct", dict(ncpu=ncpu, k_batch=kb, first_n=first_n, completion_order=order, maxdiff=d,
                                                                            what="tabulated band energies along the path differ from eigvalsh of the Fourier sum at the same k-points"))
    rep.part("numeric_only", what="serial vs schedule-controlled parallel run() with real calculators (AHC, DOS with 2 refinement "
             "iterations; grid and path tabulations of Energy and Berry curvature, k_batch 1/2/4, 2 and 3 workers, both ray.wait "
             "answer policies); path energies also against direct diagonalisation; no TLA+ model of self_to_path / self_to_grid: "
             "this part does not carry the model_checking level", systems=n, tolerance="1e-10 relative (integrals), 1e-8 absolute (tabulations)",
             comparisons=count)
    if thorough:
        real_ray_smoke(rep)


def real_ray_smoke(rep):
    """one run with the real ray (4 CPUs) against the serial run; anything the ray runtime does wrong under load is
    recorded as skipped, never as a violation or a crash"""
    import random
    from ..common import seed
    if os.environ.get("VERIF_SKIP_REAL_RAY"):
        rep.part("real_ray_smoke", skipped="VERIF_SKIP_REAL_RAY is set")
        return
    try:
        import ray
        ray.init(num_cpus=4, include_dashboard=False, logging_level="ERROR")
    except Exception as ex:  # pragma: no cover
        rep.part("real_ray_smoke", skipped=str(ex)[:200])
        return
    try:
        from wannierberri import calculators as calc
        rng = random.Random(seed() * 7919 + 5)
        system = random_system(rng)
        Ef = np.linspace(-2, 2, 5)
        with quiet():
            grid = wb.Grid(system, NKdiv=[3, 3, 2], NKFFT=[2, 2, 2])
            cs = lambda: {"dos": calc.static.DOS(Efermi=Ef), "ahc": calc.static.AHC(Efermi=Ef, kwargs_formula={"external_terms": False})}  # noqa: E731
            kw = dict(adpt_num_iter=0, use_irred_kpt=False, symmetrize=False, fout_name=_fout())   # no refinement: workers in
            rs = wb.run(system, grid, cs(), parallel=False, **kw)                                   # other processes may round
            try:                                                                                   # a near-tie differently
                rp = wb.run(system, grid, cs(), parallel=True, **kw)
            except Exception as ex:
                if raised_by_package(ex) is not None:
                    raise
                rep.part("real_ray_smoke", skipped=f"ray runtime: {type(ex).__name__}: {str(ex)[:160]}")
                return
        for k in ("dos", "ahc"):
            d = maxdiff(rs.results[k].data, rp.results[k].data)
            if not d <= 1e-9 * max(1.0, float(np.abs(rs.results[k].data).max())):
                rep.violation(f"par_vs_serial:realray:{k}", dict(maxdiff=d))
        rep.part("real_ray_smoke", ran=True, compared=["dos", "ahc"])
    finally:
        try:
            ray.shutdown()
        except Exception:
            pass
