"""C12, second half: with real calculators on a real (random Hermitian) model, the parallel branch of run() driven by a
schedule-controlled ray double (random completion orders, both ray.wait answer policies) must return the same
integrated values, grid tabulations and path tabulations (in path order) as the serial branch."""
import os
import shutil
import sys
import numpy as np

import wannierberri as wb
from wannierberri import run_grid as RG
from ..common import quiet, maxdiff
from ..rungrid_world import FakeRay, random_schedule


def random_system(rng, nw=3):
    r = np.random.RandomState(rng.randrange(1 << 30))
    Rs = [(0, 0, 0), (1, 0, 0), (0, 1, 0), (0, 0, 1), (1, 1, 0)]
    ham = {}
    for R in Rs:
        M = r.randn(nw, nw) + 1j * r.randn(nw, nw)
        if R == (0, 0, 0):
            M = (M + M.conj().T) / 2
        ham[R] = {(i, j): M[i, j] for i in range(nw) for j in range(nw)}
        if R != (0, 0, 0):
            mR = tuple(-x for x in R)
            ham[mR] = {(j, i): np.conj(M[i, j]) for i in range(nw) for j in range(nw)}
    lat = np.eye(3) + 0.1 * r.randn(3, 3)
    cen = r.rand(nw, 3)
    with quiet():
        s = wb.system.System_R.from_sparse(real_lattice=lat, wannier_centers_red=cen, matrices={"Ham": ham})
    return s



def _fout():
    """prefix of the files run() writes (scratch under /verif/.work, removed by the caller of check())"""
    from ..common import WORK
    d = os.path.join(WORK, "c12_par_tab")
    os.makedirs(d, exist_ok=True)
    return os.path.join(d, "r")


def run_with(system, grid, calcs, parallel, rng, ncpu, first_n, **kw):
    events = []
    saved = sys.modules.get("ray")
    fake = None
    orig = RG.process
    if parallel:
        fake = FakeRay(ncpu, random_schedule(rng, first_n), lambda e, f: events.append(f.get("t")))
        sys.modules["ray"] = fake

        def pw(*a, **k):
            fake.new_batch()
            return orig(*a, **k)
        RG.process = pw
    try:
        with quiet():
            res = wb.run(system, grid, calcs, parallel=parallel, fout_name=_fout(), print_progress_step_time=1e9, **kw)
    finally:
        RG.process = orig
        if fake is not None:
            if saved is not None:
                sys.modules["ray"] = saved
            else:
                sys.modules.pop("ray", None)
    return res, events


def check(rep, rng, thorough):
    from wannierberri import calculators as calc
    n = 6 if thorough else 2
    tol = 1e-10
    for it in range(n):
        system = random_system(rng)
        Ef = np.linspace(-2, 2, 7)
        # --- grid: integration + tabulation, with refinement
        with quiet():
            grid = wb.Grid(system, NKdiv=[3, 2, 2], NKFFT=[2, 2, 2])
        def icalcs():
            return {"ahc": calc.static.AHC(Efermi=Ef, kwargs_formula={"external_terms": False}),
                    "dos": calc.static.DOS(Efermi=Ef)}

        def tcalcs():
            return {"tab": calc.TabulatorAll({"Energy": calc.tabulate.Energy(), "berry": calc.tabulate.BerryCurvature(kwargs_formula={"external_terms": False})}, ibands=[0, 1, 2], mode="grid")}
        kw = dict(use_irred_kpt=False, symmetrize=False)
        i_ser, _ = run_with(system, grid, icalcs(), False, rng, 1, True, adpt_num_iter=2, **kw)
        t_ser, _ = run_with(system, grid, tcalcs(), False, rng, 1, True, adpt_num_iter=0, **kw)
        for ncpu in (2, 3):
            for first_n in (True, False):
                i_par, order = run_with(system, grid, icalcs(), True, rng, ncpu, first_n, adpt_num_iter=2, **kw)
                rep.case(("grid", it, ncpu, first_n, tuple(order[:12])))
                for k in ("ahc", "dos"):
                    d = maxdiff(i_ser.results[k].data, i_par.results[k].data)
                    if not d <= tol * max(1.0, float(np.abs(i_ser.results[k].data).max())):
                        rep.violation(f"par_vs_serial:grid:{k}", dict(ncpu=ncpu, first_n=first_n, completion_order=order, maxdiff=d))
                t_par, order = run_with(system, grid, tcalcs(), True, rng, ncpu, first_n, adpt_num_iter=0, **kw)
                rep.case(("gridtab", it, ncpu, first_n, tuple(order[:12])))
                ts, tp = t_ser.results["tab"], t_par.results["tab"]
                if maxdiff(ts.kpoints, tp.kpoints) > 1e-12:
                    rep.violation("par_vs_serial:grid:tab.kpoints", dict(ncpu=ncpu, completion_order=order))
                    continue
                for q in ("Energy", "berry"):
                    d = maxdiff(ts.get_data(quantity=q, iband=[0, 1, 2]), tp.get_data(quantity=q, iband=[0, 1, 2]))
                    if not d <= 1e-8:
                        rep.violation(f"par_vs_serial:grid:tab.{q}", dict(ncpu=ncpu, first_n=first_n, completion_order=order, maxdiff=d))
        # --- path
        nodes = [[0, 0, 0], [0.5, 0, 0], [0.5, 0.5, 0], None, [0, 0.5, 0.5], [0.3, 0.1, 0.7]]
        with quiet():
            path = wb.Path.from_nodes(system, nodes=nodes, nk=[5, 4, 6])
        kp = path.K_list
        def pcalcs():
            return {"tab": calc.TabulatorAll({"Energy": calc.tabulate.Energy(), "berry": calc.tabulate.BerryCurvature(kwargs_formula={"external_terms": False})}, ibands=[0, 1, 2], mode="path")}
        r_ser, _ = run_with(system, path, pcalcs(), False, rng, 1, True, k_batch=2)
        for ncpu in (2, 3):
            for first_n in (True, False):
                for kb in (1, 2, 4):
                    r_par, order = run_with(system, path, pcalcs(), True, rng, ncpu, first_n, k_batch=kb)
                    rep.case(("path", it, ncpu, first_n, kb, tuple(order[:12])))
                    tp, ts = r_par.results["tab"], r_ser.results["tab"]
                    dk = tp.kpoints - kp
                    if tp.kpoints.shape != kp.shape or np.abs(dk - np.round(dk)).max() > 1e-9:
                        rep.violation("par_path:order", dict(ncpu=ncpu, k_batch=kb, completion_order=order,
                                                             what="k-points of the parallel path tabulation are not in path order"))
                        continue
                    for q in ("Energy", "berry"):
                        d = maxdiff(ts.get_data(quantity=q, iband=[0, 1, 2]), tp.get_data(quantity=q, iband=[0, 1, 2]))
                        if not d <= 1e-8:
                            rep.violation(f"par_path:{q}", dict(ncpu=ncpu, k_batch=kb, first_n=first_n, completion_order=order, maxdiff=d))
    rep.part("parallel_vs_serial_real_calculators", systems=n, note="numeric comparison serial vs schedule-controlled parallel, tol 1e-8")
    if thorough:
        real_ray_smoke(rep)


def real_ray_smoke(rep):
    """one run with the real ray (4 CPUs) against the serial run"""
    import random
    try:
        import ray
        ray.init(num_cpus=4, include_dashboard=False, logging_level="ERROR")
    except Exception as ex:  # pragma: no cover
        rep.part("real_ray_smoke", skipped=str(ex)[:200])
        return
    try:
        from wannierberri import calculators as calc
        rng = random.Random(5)
        system = random_system(rng)
        Ef = np.linspace(-2, 2, 5)
        with quiet():
            grid = wb.Grid(system, NKdiv=[3, 3, 2], NKFFT=[2, 2, 2])
            cs = lambda: {"dos": calc.static.DOS(Efermi=Ef), "ahc": calc.static.AHC(Efermi=Ef)}
            rs = wb.run(system, grid, cs(), parallel=False, adpt_num_iter=1, use_irred_kpt=False, symmetrize=False, fout_name=_fout())
            rp = wb.run(system, grid, cs(), parallel=True, adpt_num_iter=1, use_irred_kpt=False, symmetrize=False, fout_name=_fout())
        for k in ("dos", "ahc"):
            d = maxdiff(rs.results[k].data, rp.results[k].data)
            rep.case(("realray", k))
            if not d <= 1e-9 * max(1.0, float(np.abs(rs.results[k].data).max())):
                rep.violation(f"par_vs_serial:realray:{k}", dict(maxdiff=d))
        rep.part("real_ray_smoke", ran=True)
    finally:
        ray.shutdown()
