"""C24: wannierise produces a valid gauge that honours the windows.

spec  : Disentangle.tla (windows of wannierise on top of Bands.SelectWindow; abstract gauge state), MC_Disentangle.tla
        (window selection step by step + InitU/Update/Finalize, all small sorted energy arrays / window edges / explicit
        frozen band / num_wann), DisentangleRec.tla (records of real runs)
bind  : spec -> code : TLC states are grouped into real wannierise calls on synthetic WannierData (integer energies in
        units of 1/256 eV, smooth random overlaps, random projections); the boolean masks handed by wannierise to
        Wannierizer.add_kpoint are compared exactly with the specification's frozen/free sets, the AssertionError with
        the specification's assert_failed states.
        code -> spec : full runs (init amn/random/restart, 0..5 iterations, localise on/off, mixing) are recorded per
        k-point (masks + every gauge matrix projected to support/rank/residual buckets) and validated by TLC.
"""
import copy
import random
import numpy as np

from .. import tlc, ftable
from ..common import Report, MachineryError, seed, quiet

PROPS = {
    "C24": dict(level="exploration",
                technique="TLC exhaustive on Disentangle/MC_Disentangle (window selection of wannierise as steps over Bands.SelectWindow, "
                          "abstract gauge machine) + replay of the TLC states' windows on the real wannierise (masks compared exactly) + "
                          "TLC validation of recorded real runs on synthetic overlaps",
                text="Exact: for every sorted integer energy array (<= 4 bands, degenerate and non-degenerate gaps), every window "
                     "quadruple at/above band energies, explicit frozen band and num_wann, the frozen/free masks used inside wannierise "
                     "equal the specification's (frozen window excludes, outer window includes multiplets cut by an edge; frozen within "
                     "outer; free = outer minus frozen) and the assertion fires exactly when the specification says. Numeric: every "
                     "gauge matrix of real runs (initial, after each iteration, final v_matrix) has orthonormal columns, zero rows "
                     "outside the outer window and contains the frozen unit vectors in its span (1e-8; observed 1e-15).",
                note="exact in TLA+: window semantics, nesting, multiplets, feasibility |frozen| <= num_wann <= |outer| (named "
                     "precondition Feasible; infeasible inputs are not run). numeric: isometry / span / zero rows of U(k), measured on "
                     "the implementation's output and bucketed to integers before TLC sees them. Overlaps are synthetic (a smooth "
                     "random tight-binding model), eigenvalues are chosen by the specification independently of them; no site symmetry.",
                ref="DESIGN.md 3.5, 3.7"),
}

UNIT = 1.0 / 256
INV = ["WindowsMeaning", "FrozenInOuter", "FreePartition", "NeverSplit", "NestedNeverFails", "AssertMeaning", "FeasibleMeaning", "GaugeInvariant"]
MP = (2, 2, 1)


class _Stop(Exception):
    pass


class World:
    """synthetic inputs for wannierise: one k-grid, smooth random overlaps per number of bands"""

    def __init__(self, nprs):
        from wannierberri.w90files.bkvectors import BKVectors
        self.nprs = nprs
        lat = np.diag([3.0, 3.0, 5.0])
        self.rec = 2 * np.pi * np.linalg.inv(lat).T
        self.kpts = np.array([[i / MP[0], j / MP[1], k / MP[2]] for i in range(MP[0]) for j in range(MP[1]) for k in range(MP[2])])
        with quiet():
            self.bk = BKVectors.from_kpoints(recip_lattice=self.rec, mp_grid=MP, kpoints_red=self.kpts)
        self.NK = len(self.kpts)
        self._mmn = {}

    def mmn(self, nb, variant=0):
        key = (nb, variant)
        if key not in self._mmn:
            nbas = nb + 2
            Rs = [(0, 0, 0), (1, 0, 0), (0, 1, 0), (1, 1, 0)]
            HR = {R: (self.nprs.randn(nbas, nbas) + 1j * self.nprs.randn(nbas, nbas)) * (1.0 if R == (0, 0, 0) else 0.3) for R in Rs}
            C = []
            for k in self.kpts:
                H = sum(HR[R] * np.exp(2j * np.pi * np.dot(k, R)) for R in Rs)
                _, v = np.linalg.eigh(H + H.conj().T)
                C.append(v[:, :nb])
            self._mmn[key] = [np.array([C[ik].conj().T @ C[self.bk.neighbours[ik][ib]] for ib in range(self.bk.NNB)]) for ik in range(self.NK)]
        return self._mmn[key]

    def wandata(self, Elist, nw, variant=0):
        from wannierberri.w90files.wandata import WannierData
        from wannierberri.w90files.eig import EIG
        from wannierberri.w90files.amn import AMN
        from wannierberri.w90files.mmn import MMN
        nb = len(Elist[0])
        wd = WannierData()
        wd.seedname = "/verif/.work/c24/none"
        wd.set_file("bkvec", self.bk)
        wd.set_file("eig", EIG(data=[np.array(E, dtype=float) * UNIT for E in Elist]))
        wd.set_file("mmn", MMN(data=[m.copy() for m in self.mmn(nb, variant)]))
        wd.set_file("amn", AMN(data=[self.nprs.randn(nb, nw) + 1j * self.nprs.randn(nb, nw) for _ in range(self.NK)]))
        return wd


def run_wannierise(wd, win, extra, stop, **kw):
    """runs the real wannierise with a recording Wannierizer; returns the log (masks per k, events, asserted)"""
    import wannierberri.wannierisation.wannierise as wmod
    from wannierberri.wannierisation.wannierizer import Wannierizer
    log = dict(masks=[], events=[], asserted=False, final=None)

    class Recording(Wannierizer):
        def add_kpoint(self, **kwargs):
            log["masks"].append((np.array(kwargs["frozen"], dtype=bool).copy(), np.array(kwargs["free"], dtype=bool).copy()))
            if not stop:
                super().add_kpoint(**kwargs)

        def get_U_opt_full(self):
            if stop:
                raise _Stop()
            U = super().get_U_opt_full()
            log["events"].append(("init", [np.array(u).copy() for u in U]))
            return U

        def update_all(self, U_neigh, **kwargs):
            U = super().update_all(U_neigh, **kwargs)
            log["events"].append(("update", [np.array(u).copy() for u in U]))
            return U

    flo, fhi, olo, ohi = win
    old = wmod.Wannierizer
    wmod.Wannierizer = Recording
    try:
        import warnings
        with quiet(), warnings.catch_warnings():
            warnings.simplefilter("ignore")
            wmod.wannierise(wd, froz_min=flo * UNIT, froz_max=fhi * UNIT, outer_min=olo * UNIT, outer_max=ohi * UNIT,
                            frozen_states=list(extra), parallel=False, savechk=False, print_progress_every=10**6, **kw)
        log["final"] = [np.array(wd.chk.v_matrix[ik]).copy() for ik in range(len(log["masks"]))]
    except _Stop:
        pass
    except AssertionError as ex:
        if "Frozen bands should be included" in str(ex):
            log["asserted"] = True
        else:
            raise
    finally:
        wmod.Wannierizer = old
    return log


def project(U, frozen, outer_rows):
    """gauge matrix -> integers (support, rank, buckets)"""
    from ._symcommon import bucket
    nb, nw = U.shape
    gram = float(np.abs(U.conj().T @ U - np.eye(nw)).max())
    P = U @ U.conj().T
    fr = np.where(frozen)[0]
    capt = float(np.abs(P[fr, :] - np.eye(nb)[fr, :]).max()) if len(fr) else 0.0
    outside = [b for b in range(nb) if b not in outer_rows]
    out = float(np.abs(U[outside, :]).max()) if outside else 0.0
    sv = np.linalg.svd(U, compute_uv=False)
    return dict(support=[int(b) for b in range(nb) if np.abs(U[b]).max() > 1e-12], rank=int(np.sum(sv > 0.5)),
                gram=bucket(gram), capt=bucket(capt), out=bucket(out)), max(gram, capt, out)


def check(pid, tier):
    rep = Report(pid, tier, "exploration")
    thorough = tier == "thorough"
    rng = random.Random(seed() * 7919 + 24)
    nprs = np.random.RandomState(seed() * 31 + 24)
    rep.rule("TLC enumerates every energy array / window quadruple / explicit frozen band / num_wann within the constants; a case = the "
             "window masks of one TLC state compared on the real wannierise (grouped into k-points of one call), or one k-point of a "
             "recorded full run validated by TLC; distinct by (E, windows, extra, nw, run settings)")
    rep.assume("energies and window edges are integer multiples of 1/256 eV, so the comparisons inside select_window_degen are exact and "
               "thresh = 1e-2 eV means integer gap < 3")
    rep.assume("num_wann satisfies |frozen| <= num_wann <= |outer| at every k-point (Disentangle!Feasible); overlaps/projections are random")

    nbmax, gaps = (4, "{0, 2, 3}") if thorough else (3, "{0, 2, 3}")
    cfg = lambda variant: (f"SPECIFICATION Spec\nCONSTANTS\n  NB = {nbmax}\n  GAPS = {gaps}\n  MAXIT = 1\n  Variant = \"{variant}\"\n" +
                           "".join(f"INVARIANT {i}\n" for i in INV) + "CHECK_DEADLOCK FALSE\n")
    st = ftable.enumerate_states("MC_Disentangle.tla", cfg("code"), "c24_mc")
    if ftable.spec_violation(rep, st, "c24_mc"):
        return rep.finish()
    tlc.check_not_vacuous(st, ["SelectFrozen", "SelectOuter", "AddFrozenStates", "ComputeFree", "InitU", "Update", "Finalize"], "c24_mc")
    rep.add_tlc("c24_mc", st)
    st0 = tlc.run_tlc("MC_Disentangle.tla", cfg("swapped"), "c24_mc_swapped", timeout=900)
    if not st0.get("violation"):
        raise MachineryError("sensitivity self-test failed: exchanging the include_degen flags of the two windows must violate an invariant")
    rep.part("sensitivity", swapped_flags_violate=st0["violation"][1])

    ready, failed, done = [], [], []
    for s in ftable.dump_states(st):
        if s["pc"] not in ("ready", "assert_failed", "done"):
            continue
        d = dict(E=list(s["E"]), win=(s["flo"], s["fhi"], s["olo"], s["ohi"]), extra=tuple(sorted(j - 1 for j in s["extra"])),
                 frozen=sorted(j - 1 for j in s["frozen"]), free=sorted(j - 1 for j in s["free"]), outer=sorted(j - 1 for j in s["outer"]), nw=s["nw"])
        {"ready": ready, "assert_failed": failed, "done": done}[s["pc"]].append(d)
    if not ready or not failed or not done:
        raise MachineryError("TLC dump lacks ready / assert_failed / done states")

    world = World(nprs)
    NK = world.NK

    # ---------------- spec -> code : window masks of TLC states on the real wannierise
    groups = {}
    for d in ready:
        groups.setdefault((len(d["E"]), d["win"], d["extra"]), []).append(d)
    keys = sorted(groups)
    nrun = len(keys) if thorough else min(len(keys), 500)
    classes = dict(frozen_cut=0, outer_grown=0, extra=0, empty_frozen=0, nonempty_frozen=0)
    nmask = 0
    for key in (keys if nrun == len(keys) else rng.sample(keys, nrun)):
        nb, win, extra = key
        members = groups[key]
        for c0 in range(0, len(members), NK):
            batch = [members[(c0 + n) % len(members)] for n in range(NK)]
            wd = world.wandata([d["E"] for d in batch], nw=1)
            log = run_wannierise(wd, win, extra, stop=True, num_iter=0)
            if log["asserted"] or len(log["masks"]) != NK:
                rep.violation("wannierise:windows:unexpected_assert", dict(E=[d["E"] for d in batch], windows=win, extra=extra, unit=UNIT,
                                                                            asserted=log["asserted"], masks_seen=len(log["masks"])))
                continue
            for d, (fz, fr) in zip(batch, log["masks"]):
                nmask += 1
                rep.case(("mask", tuple(d["E"]), win, extra), nontrivial=True)
                got_fz, got_fr = [int(x) for x in np.where(fz)[0]], [int(x) for x in np.where(fr)[0]]
                inside0 = [j for j, e in enumerate(d["E"]) if win[0] <= e <= win[1]]
                classes["frozen_cut"] += int(len(d["frozen"]) < len(inside0) and not extra)
                classes["outer_grown"] += int(len(d["outer"]) > len([e for e in d["E"] if win[2] <= e <= win[3]]))
                classes["extra"] += int(bool(extra))
                classes["empty_frozen" if not d["frozen"] else "nonempty_frozen"] += 1
                if got_fz != d["frozen"]:
                    rep.violation("wannierise:windows:frozen", dict(E=d["E"], windows_flo_fhi_olo_ohi=win, extra=extra, unit=UNIT,
                                                                    expected_frozen=d["frozen"], got_frozen=got_fz))
                if got_fr != d["free"]:
                    rep.violation("wannierise:windows:free", dict(E=d["E"], windows_flo_fhi_olo_ohi=win, extra=extra, unit=UNIT,
                                                                  expected_free=d["free"], got_free=got_fr))
                if nmask <= 2:
                    rep.sample(dict(E=d["E"], windows_flo_fhi_olo_ohi=win, extra=extra, frozen=got_fz, free=got_fr))
    for k, v in classes.items():
        if v == 0:
            raise MachineryError(f"window replay: class {k} never occurred")
    nfail = 0
    for d in (failed if thorough else rng.sample(failed, min(len(failed), 60))):
        wd = world.wandata([d["E"]] * NK, nw=1)
        log = run_wannierise(wd, d["win"], d["extra"], stop=True, num_iter=0)
        rep.case(("assert", tuple(d["E"]), d["win"], d["extra"]))
        nfail += 1
        if not log["asserted"]:
            rep.violation("wannierise:windows:missing_assert", dict(E=d["E"], windows_flo_fhi_olo_ohi=d["win"], extra=d["extra"], unit=UNIT,
                                                                     what="frozen bands outside the outer window were accepted"))
    rep.part("window_replay", masks_compared=nmask, calls=nrun, assert_cases=nfail, classes=classes)

    # ---------------- code -> spec : full runs recorded and validated by TLC
    recs = []
    maxres = 0.0
    settings = [dict(init="amn", num_iter=0), dict(init="amn", num_iter=1), dict(init="amn", num_iter=3, localise=False),
                dict(init="amn", num_iter=5, mix_ratio_z=1.0), dict(init="random", num_iter=2), dict(init="restart", num_iter=2),
                dict(init="amn", num_iter=2, mix_ratio_z=0.3, conv_tol=1e-3, num_iter_converge=1)]
    modes = {}

    def full_run(Elist, win, extra, nw, outer_sets, setting):
        nonlocal maxres
        wd = world.wandata(Elist, nw=nw, variant=rng.randrange(3))
        kw = dict(setting)
        init = kw.pop("init")
        if init == "random":
            np.random.seed(rng.randrange(2**31))
            kw["num_wann"] = nw
        if init == "restart":
            first = run_wannierise(wd, win, extra, stop=False, init="amn", num_iter=1)
            if first["asserted"]:
                return
        log = run_wannierise(wd, win, extra, stop=False, init=init, **kw)
        modes[init] = modes.get(init, 0) + 1
        evs = log["events"] + ([("final", log["final"])] if log["final"] is not None else [])
        for ik in range(NK):
            fz, fr = log["masks"][ik]
            events = []
            for kind, Us in evs:
                pr, res = project(Us[ik], fz, outer_sets[ik])
                maxres = max(maxres, res)
                events.append(dict(kind=kind, **pr))
            recs.append(dict(E=[int(e) for e in Elist[ik]], flo=win[0], fhi=win[1], olo=win[2], ohi=win[3], extra=[int(x) for x in extra], nw=nw,
                             asserted=False, frozen=[int(x) for x in np.where(fz)[0]], free=[int(x) for x in np.where(fr)[0]], events=events,
                             setting=repr(setting)))
            rep.case(("run", tuple(Elist[ik]), win, tuple(extra), nw, repr(setting)))

    # (a) from TLC's done states: same windows and num_wann across the k-points of a call
    gdone = {}
    for d in done:
        gdone.setdefault((len(d["E"]), d["win"], d["extra"], d["nw"]), []).append(d)
    dkeys = sorted(gdone)
    for n, key in enumerate(rng.sample(dkeys, min(len(dkeys), 600 if thorough else 70))):
        nb, win, extra, nw = key
        members = gdone[key]
        batch = [members[(rng.randrange(len(members)) if m >= len(members) else m)] for m in range(NK)]
        full_run([d["E"] for d in batch], win, extra, nw, [set(d["outer"]) for d in batch], settings[n % len(settings)])
    # (b) larger random inputs (more bands, multiplets cut by every edge)
    nrand = 300 if thorough else 40
    tries = 0
    while nrand > 0 and tries < 20000:
        tries += 1
        nb = rng.randint(4, 9)
        Elist = []
        for _ in range(NK):
            E = [rng.randint(0, 3)]
            for _ in range(nb - 1):
                E.append(E[-1] + rng.choice([0, 1, 2, 2, 3, 4, 7]))
            Elist.append(E)
        top = max(E[-1] for E in Elist)
        olo = rng.choice([-1, rng.randint(0, top // 3 + 1)])
        ohi = rng.randint(max(olo, top // 2), top + 1)
        flo = rng.randint(olo, ohi)
        fhi = rng.randint(flo, ohi)
        extra = ()
        sel = lambda E, lo, hi, incl: _select(E, lo, hi, incl)
        fro = [sel(E, flo, fhi, False) for E in Elist]
        out = [sel(E, olo, ohi, True) for E in Elist]
        if rng.random() < 0.2:
            common = set.intersection(*out)
            if common:
                extra = (rng.choice(sorted(common)),)
                fro = [f | set(extra) for f in fro]
        lo_nw, hi_nw = max(len(f) for f in fro), min(len(o) for o in out)
        if lo_nw > hi_nw or hi_nw < 1:
            continue
        nw = rng.randint(max(1, lo_nw), hi_nw)
        full_run(Elist, (flo, fhi, olo, ohi), extra, nw, out, settings[tries % len(settings)])
        nrand -= 1
    for m in ("amn", "random", "restart"):
        if modes.get(m, 0) == 0:
            raise MachineryError(f"init mode {m} never ran")
    if not any(len(r["events"]) >= 4 for r in recs) or not any(r["frozen"] and r["events"] for r in recs):
        raise MachineryError("no multi-iteration run / no run with frozen bands")
    stv, bad = ftable.validate_records("DisentangleRec.tla", ftable.REC_CFG, recs, "c24")
    rep.add_tlc("c24_records", stv)
    rep.add_traces(len(recs))
    for i, clauses in bad.items():
        r = recs[i]
        kind = "windows" if any(c in clauses for c in ("frozen_equals_spec", "free_equals_spec", "assert_iff", "never_split", "frozen_in_outer")) else "gauge"
        rep.violation(f"wannierise:{kind}:recorded:{'+'.join(sorted(clauses))}", dict(record=r, failing_clauses=clauses, unit=UNIT))
    rep.sample({k: v for k, v in recs[0].items()})
    rep.part("numeric_only", what="orthonormal columns, frozen unit vectors in the span, zero rows outside the outer window of every gauge "
                                  "matrix of the recorded runs (bucketed, limit 1e-8)", records=len(recs), max_residual=maxres, init_modes=modes)
    # binding self-test
    cand = [r for r in recs if r["events"] and r["frozen"]]
    b1 = copy.deepcopy(cand[0])
    b1["frozen"] = b1["frozen"][:-1]
    b2 = copy.deepcopy(cand[0])
    b2["events"][-1]["gram"] = 11
    b3 = copy.deepcopy(cand[0])
    b3["events"][0]["rank"] -= 1
    _, bb = ftable.validate_records("DisentangleRec.tla", ftable.REC_CFG, [b1, b2, b3], "c24_selftest")
    if "frozen_equals_spec" not in bb.get(0, []) or "gauge_orthonormal" not in bb.get(1, []) or "gauge_rank" not in bb.get(2, []):
        raise MachineryError(f"binding self-test failed: corrupted records accepted ({bb})")
    rep.part("binding_selftest", corrupted_records_rejected=bb)
    return rep.finish()


def _select(E, lo, hi, incl, th=3):
    """harness-side helper only used to pick feasible num_wann for random inputs (the verdict comes from TLC)"""
    n = len(E)
    inside = {j for j in range(n) if lo <= E[j] <= hi}

    def multiplet(j):
        a = j
        while a > 0 and E[a] - E[a - 1] < th:
            a -= 1
        b = j
        while b < n - 1 and E[b + 1] - E[b] < th:
            b += 1
        return set(range(a, b + 1))
    if incl:
        return set().union(*[multiplet(j) for j in inside]) if inside else set()
    return {j for j in inside if multiplet(j) <= inside}
