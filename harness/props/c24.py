"""C24: wannierise produces a valid gauge that honours the windows.

spec  : Disentangle.tla (windows of wannierise on top of Bands.SelectWindow; abstract gauge state), MC_Disentangle.tla
        (window selection step by step + InitU/Update/Finalize, all small sorted energy arrays / window edges / explicit
        frozen band / num_wann), DisentangleRec.tla (records of real runs)
bind  : spec -> code : TLC states are grouped into real wannierise calls on synthetic WannierData (integer energies in
        units of 1/256 eV, smooth random overlaps, random projections).  Statement level: inputs whose frozen states lie
        outside the outer window must be refused (any exception), all others accepted.  When the internal call
        Wannierizer.add_kpoint can be observed, the masks handed to it must freeze at least the specification's frozen
        states and select nothing outside the specification's outer window; whether they are *equal* to the
        specification's sets is reported as information.
        code -> spec : full runs (init amn/random/restart, 0..5 iterations, localise on/off, mixing of Z and of U,
        symmetrize_Z off, explicit frozen bands as list and as per-k dict, rank-deficient projections) are recorded per k-point (final v_matrix and, when
        observable, every intermediate gauge matrix, projected to support/rank/residual buckets against the specification's
        frozen/outer sets) and validated by TLC.
"""
import copy
import os
import random
import numpy as np

from .. import tlc, ftable
from ..common import Report, MachineryError, seed, quiet, WORK
from . import _symcommon as sc

PROPS = {
    "C24": dict(level="exploration",
                technique="TLC exhaustive on Disentangle/MC_Disentangle (window selection of wannierise as steps over Bands.SelectWindow; the "
                          "gauge part of the model is a bookkeeping device and is not counted) + replay of the TLC states' windows on the real "
                          "wannierise + TLC validation of recorded real runs on synthetic overlaps",
                text="Exact: for every sorted integer energy array (quick <= 3 bands and a sample of 300 window settings, thorough <= 4 bands, "
                     "all; degenerate and non-degenerate gaps), every window quadruple at/above band energies, explicit frozen band and "
                     "num_wann, wannierise refuses exactly the inputs whose frozen states are not inside the outer window, and the masks it "
                     "uses freeze every state of the frozen window and select nothing outside the outer window (multiplets cut by an edge: "
                     "dropped from the frozen, added to the outer window). Numeric: every gauge matrix of real runs (final v_matrix; "
                     "initial and after each iteration when observable) has orthonormal columns, zero rows outside the outer window and "
                     "contains the frozen unit vectors in its span (1e-8; observed 1e-15), also for rank-deficient projections on the selected bands (a zero "
                     "column, two equal columns, a column supported only outside the outer window) x gauge straight from the projections "
                     "(num_iter=0, localise=False) or after localisation: every combination is a required input class.",
                note="exact in TLA+: window semantics, nesting, multiplets, feasibility |frozen| <= num_wann <= |outer| (named "
                     "precondition Feasible; infeasible inputs are not run). The InitU/Update/Finalize part of MC_Disentangle sets "
                     "support/rank/captured by construction: it only carries num_wann to the replay and proves nothing, its states are "
                     "not counted. numeric: isometry / span / zero rows of U(k), measured on the implementation's output against the "
                     "specification's frozen/outer sets and bucketed to integers before TLC sees them. Overlaps are synthetic (a smooth "
                     "random tight-binding model on a 2x2x1 grid), eigenvalues are chosen by the specification independently of them. Not "
                     "covered: sitesym=True (needs symmetry-adapted overlaps, band representations and a SymmetrizerSAWF; no cheap robust "
                     "synthetic model), parallel=True, 3-D grids. Equality of the internal masks with the specification's sets, multiplet "
                     "integrity and the order of internal calls are reported as information only.",
                ref="DESIGN.md 3.5, 3.7"),
}

UNIT = 1.0 / 256
INV = ["WindowsMeaning", "FrozenInOuter", "FreePartition", "NeverSplit", "NestedNeverFails", "AssertMeaning", "FeasibleMeaning", "GaugeInvariant"]
WINDOW_ACTIONS = ["Init", "SelectFrozen", "SelectOuter", "AddFrozenStates", "ComputeFree"]
MP = (2, 2, 1)
# clauses of DisentangleRec that are not demanded by the statement (the implementation's present choice) / harness-vs-spec
INFO_CLAUSES = ("frozen_equals_spec", "free_equals_spec", "never_split", "event_order")
HARNESS_CLAUSES = ("harness_sets", "sorted", "feasible_if_ran", "amn_class")


class _Stop(Exception):
    pass


class World:
    """synthetic inputs for wannierise: one k-grid, smooth random overlaps per number of bands"""

    def __init__(self, nprs):
        from wannierberri.w90files.bkvectors import BKVectors
        self.nprs = nprs
        lat = np.diag([3.0, 3.0, 5.0])
        self.rec = 2 * np.pi * np.linalg.inv(lat).T
        self.kpts = np.array([[i / MP[0], j / MP[1], k / MP[2]] for i in range(MP[0]) for j in range(MP[1]) for k in range(MP[2])])
        with quiet():
            self.bk = BKVectors.from_kpoints(recip_lattice=self.rec, mp_grid=MP, kpoints_red=self.kpts)
        self.NK = len(self.kpts)
        self._mmn = {}
        self.seedname = os.path.join(WORK, f"c24_p{os.getpid()}", "none")      # never written (savechk=False)

    def mmn(self, nb, variant=0):
        key = (nb, variant)
        if key not in self._mmn:
            nbas = nb + 2
            Rs = [(0, 0, 0), (1, 0, 0), (0, 1, 0), (1, 1, 0)]
            HR = {R: (self.nprs.randn(nbas, nbas) + 1j * self.nprs.randn(nbas, nbas)) * (1.0 if R == (0, 0, 0) else 0.3) for R in Rs}
            C = []
            for k in self.kpts:
                H = sum(HR[R] * np.exp(2j * np.pi * np.dot(k, R)) for R in Rs)
                _, v = np.linalg.eigh(H + H.conj().T)
                C.append(v[:, :nb])
            self._mmn[key] = [np.array([C[ik].conj().T @ C[self.bk.neighbours[ik][ib]] for ib in range(self.bk.NNB)]) for ik in range(self.NK)]
        return self._mmn[key]

    def wandata(self, Elist, nw, variant=0, defect=None, outer_sets=None):
        """defect: rank-deficient projections on the selected bands at every k-point where that is possible: "zero" (last column
        zero), "dup" (last column = first column), "outside" (last column supported only on bands outside the outer window).
        self.last_defects = per k (class, rows of support of the defective column)"""
        from wannierberri.w90files.wandata import WannierData
        from wannierberri.w90files.eig import EIG
        from wannierberri.w90files.amn import AMN
        from wannierberri.w90files.mmn import MMN
        nb = len(Elist[0])
        wd = WannierData()
        wd.seedname = self.seedname
        wd.set_file("bkvec", self.bk)
        wd.set_file("eig", EIG(data=[np.array(E, dtype=float) * UNIT for E in Elist]))
        wd.set_file("mmn", MMN(data=[m.copy() for m in self.mmn(nb, variant)]))
        amn = [self.nprs.randn(nb, nw) + 1j * self.nprs.randn(nb, nw) for _ in range(self.NK)]
        self.last_defects = [("full", [])] * self.NK
        if defect is not None:
            self.last_defects = []
            for ik in range(self.NK):
                kind, rows = defect, []
                if defect == "outside":
                    rows = [b for b in range(nb) if b not in outer_sets[ik]]
                    if not rows:
                        kind = "zero"
                if kind == "dup" and nw < 2:
                    kind = "zero"
                if kind == "zero":
                    amn[ik][:, -1] = 0
                elif kind == "dup":
                    amn[ik][:, -1] = amn[ik][:, 0]
                else:
                    amn[ik][[b for b in range(nb) if b not in rows], -1] = 0
                self.last_defects.append((kind, rows if kind == "outside" else []))
        wd.set_file("amn", AMN(data=amn))
        return wd


def run_wannierise(rep, wd, win, frozen_states, stop, detail, **kw):
    """runs the real wannierise; where possible with a recording Wannierizer (an internal name: every use is guarded).
    Returns the log: masks per k (as handed to add_kpoint), events (intermediate gauge matrices), final (v_matrix per k),
    rejected (exception type if the call was refused before any k-point was set up), failed (a violation was recorded),
    hook (the recording class was reached)"""
    import warnings
    import wannierberri.wannierisation.wannierise as wmod
    log = dict(masks=[], events=[], rejected=None, final=None, failed=False, hook=False, hook_broken=None)
    old = getattr(wmod, "Wannierizer", None)
    if old is not None:
        class Recording(old):
            def add_kpoint(self, *args, **kwargs):
                log["hook"] = True
                try:
                    log["masks"].append((np.array(kwargs["frozen"], dtype=bool).copy(), np.array(kwargs["free"], dtype=bool).copy()))
                except Exception as ex:
                    log["hook_broken"] = f"add_kpoint: {type(ex).__name__}: {ex}"
                if not stop:
                    return super().add_kpoint(*args, **kwargs)

            def get_U_opt_full(self, *args, **kwargs):
                if stop:
                    raise _Stop()
                U = super().get_U_opt_full(*args, **kwargs)
                try:
                    log["events"].append(("init", [np.array(u).copy() for u in U]))
                except Exception as ex:
                    log["hook_broken"] = f"get_U_opt_full: {type(ex).__name__}: {ex}"
                return U

            def update_all(self, *args, **kwargs):
                U = super().update_all(*args, **kwargs)
                try:
                    log["events"].append(("update", [np.array(u).copy() for u in U]))
                except Exception as ex:
                    log["hook_broken"] = f"update_all: {type(ex).__name__}: {ex}"
                return U
        wmod.Wannierizer = Recording
    elif stop:
        log["hook_broken"] = "wannierise.Wannierizer is gone"
        return log
    flo, fhi, olo, ohi = win
    try:
        with quiet(), warnings.catch_warnings():
            warnings.simplefilter("ignore")
            wmod.wannierise(wd, froz_min=flo * UNIT, froz_max=fhi * UNIT, outer_min=olo * UNIT, outer_max=ohi * UNIT,
                            frozen_states=frozen_states, parallel=False, savechk=False, print_progress_every=10**6, **kw)
        nk = wd.mmn.NK
        ok, fin = sc.private(rep, "wandata.chk.v_matrix", lambda: [np.array(wd.chk.v_matrix[ik]).copy() for ik in range(nk)])
        log["final"] = fin if ok else None
    except _Stop:
        pass
    except MachineryError:
        raise
    except Exception as ex:
        where = sc.library_site(ex)
        if where is None:
            raise
        if not log["masks"] and not log["events"]:
            log["rejected"] = type(ex).__name__          # refused before any k-point was set up (any exception class / text)
        else:
            log["failed"] = True
            rep.violation(f"raises:wannierise:{type(ex).__name__}", dict(detail, error=f"{type(ex).__name__}: {ex}"[:400], raised_in=where))
    finally:
        if old is not None:
            wmod.Wannierizer = old
    return log


def project(U, frozen_rows, outer_rows):
    """gauge matrix -> integers (support, rank, buckets) against the given frozen / outer band sets"""
    nb, nw = U.shape
    gram = float(np.abs(U.conj().T @ U - np.eye(nw)).max())
    P = U @ U.conj().T
    fr = sorted(frozen_rows)
    capt = float(np.abs(P[fr, :] - np.eye(nb)[fr, :]).max()) if len(fr) else 0.0
    outside = [b for b in range(nb) if b not in outer_rows]
    out = float(np.abs(U[outside, :]).max()) if outside else 0.0
    sv = np.linalg.svd(U, compute_uv=False)
    return dict(support=[int(b) for b in range(nb) if np.abs(U[b]).max() > 1e-12], rank=int(np.sum(sv > 0.5)),
                gram=sc.bucket(gram), capt=sc.bucket(capt), out=sc.bucket(out)), max(gram, capt, out)


def _select(E, lo, hi, incl, th=3):
    """harness-side window selection, used to pick feasible num_wann for random inputs and as the row sets of the numeric
    residuals; it is compared with the specification on every TLC state (check_select) and by TLC on every record
    (clause harness_sets), so the verdict stays with the specification"""
    n = len(E)
    inside = {j for j in range(n) if lo <= E[j] <= hi}

    def multiplet(j):
        a = j
        while a > 0 and E[a] - E[a - 1] < th:
            a -= 1
        b = j
        while b < n - 1 and E[b + 1] - E[b] < th:
            b += 1
        return set(range(a, b + 1))
    if incl:
        return set().union(*[multiplet(j) for j in inside]) if inside else set()
    return {j for j in inside if multiplet(j) <= inside}


def check_select(states):
    for d in states:
        flo, fhi, olo, ohi = d["win"]
        if (_select(d["E"], flo, fhi, False) | set(d["extra"])) != set(d["frozen"]) or _select(d["E"], olo, ohi, True) != set(d["outer"]):
            raise MachineryError(f"the harness's window helper disagrees with the specification on E={d['E']} windows={d['win']} extra={d['extra']}")


def check(pid, tier):
    rep = Report(pid, tier, "exploration")
    try:
        return _check(rep, tier)
    except Exception:
        if rep.violations:
            rep.finish()
        raise
    finally:
        sc.cleanup(keep=any(k.startswith("spec:") for k, _ in rep.violations))      # TLC output is referenced only by spec:* violations


def _check(rep, tier):
    thorough = tier == "thorough"
    rng = random.Random(seed() * 7919 + 24)
    nprs = np.random.RandomState(seed() * 31 + 24)
    rep.rule("TLC enumerates every energy array / window quadruple / explicit frozen band / num_wann within the constants; a case = the "
             "windows of one TLC state run on the real wannierise (grouped into k-points of one call), or one k-point of a "
             "recorded full run validated by TLC; distinct by (E, windows, extra, nw, run settings)")
    rep.assume("energies and window edges are integer multiples of 1/256 eV, so the comparisons inside select_window_degen are exact and "
               "thresh = 1e-2 eV means integer gap < 3")
    rep.assume("num_wann satisfies |frozen| <= num_wann <= |outer| at every k-point (Disentangle!Feasible); overlaps/projections are random")

    nbmax, gaps = (4, "{0, 2, 3}") if thorough else (3, "{0, 2, 3}")
    cfg = lambda variant: (f"SPECIFICATION Spec\nCONSTANTS\n  NB = {nbmax}\n  GAPS = {gaps}\n  MAXIT = 1\n  Variant = \"{variant}\"\n" +
                           "".join(f"INVARIANT {i}\n" for i in INV) + "CHECK_DEADLOCK FALSE\n")
    st = ftable.enumerate_states("MC_Disentangle.tla", cfg("code"), sc.uniq("c24_mc"), workers=sc.WORKERS)
    if ftable.spec_violation(rep, st, "c24_mc"):
        return rep.finish()
    tlc.check_not_vacuous(st, ["SelectFrozen", "SelectOuter", "AddFrozenStates", "ComputeFree", "InitU", "Update", "Finalize"], "c24_mc")
    # only the window part of the model is model checking of C24; the gauge bookkeeping states are not counted
    wcov = {a: st["coverage"].get(a, {}) for a in WINDOW_ACTIONS}
    rep.add_tlc("c24_mc", dict(st, distinct=sum(c.get("distinct", 0) for c in wcov.values()), generated=sum(c.get("generated", 0) for c in wcov.values())))
    rep.part("c24_mc", all_states_of_the_model=st["distinct"], counted="states produced by " + ", ".join(WINDOW_ACTIONS))
    st0 = tlc.run_tlc("MC_Disentangle.tla", cfg("swapped"), sc.uniq("c24_mc_swapped"), workers=sc.WORKERS, timeout=1500)
    if not st0.get("violation"):
        raise MachineryError("sensitivity self-test failed: exchanging the include_degen flags of the two windows must violate an invariant")
    st1 = tlc.run_tlc("MC_Disentangle.tla", cfg("dropnull"), sc.uniq("c24_mc_dropnull"), workers=sc.WORKERS, timeout=1500)
    if not st1.get("violation") or st1["violation"][1] != "GaugeInvariant":
        raise MachineryError(f"sensitivity self-test failed: dropping the null directions of rank-deficient projections must violate GaugeInvariant, got {st1.get('violation')}")
    rep.part("sensitivity", swapped_flags_violate=st0["violation"][1], dropped_null_directions_violate=st1["violation"][1])

    ready, failed, done = [], [], []
    for s in ftable.dump_states(st):
        if s["pc"] not in ("ready", "assert_failed", "done"):
            continue
        d = dict(E=list(s["E"]), win=(s["flo"], s["fhi"], s["olo"], s["ohi"]), extra=tuple(sorted(j - 1 for j in s["extra"])),
                 frozen=sorted(j - 1 for j in s["frozen"]), free=sorted(j - 1 for j in s["free"]), outer=sorted(j - 1 for j in s["outer"]), nw=s["nw"], amn=s["amn"])
        {"ready": ready, "assert_failed": failed, "done": done}[s["pc"]].append(d)
    full_key = lambda d: (len(d["E"]), d["E"], d["win"], d["extra"], d["nw"], d["amn"])
    for lst in (ready, failed, done):       # the dump order of TLC is not deterministic
        lst.sort(key=full_key)
    if not ready or not failed or not done:
        raise MachineryError("TLC dump lacks ready / assert_failed / done states")
    check_select(ready + done)

    world = World(nprs)
    NK = world.NK

    # ---------------- is the internal hook (Wannierizer.add_kpoint kwargs frozen / free) available?
    d0 = next((d for d in done if d["frozen"] and d["free"]), done[0])
    probe = run_wannierise(rep, world.wandata([d0["E"]] * NK, nw=d0["nw"]), d0["win"], list(d0["extra"]), False, dict(probe=True), num_iter=1)
    hooked = probe["hook"] and not probe["hook_broken"] and len(probe["masks"]) == NK and len(probe["events"]) >= 1
    if not hooked:
        rep.part("skipped_private", wannierizer_hook=probe["hook_broken"] or f"hook reached: {probe['hook']}, masks {len(probe['masks'])}, events {len(probe['events'])}")

    # ---------------- spec -> code : windows of TLC states on the real wannierise
    classes = dict(frozen_cut=0, outer_grown=0, extra=0, empty_frozen=0, nonempty_frozen=0)
    info = dict(masks_equal=0, masks_differ=0)
    nmask = nrun = nfail = 0
    if hooked:
        groups = {}
        for d in ready:
            groups.setdefault((len(d["E"]), d["win"], d["extra"]), []).append(d)
        keys = sorted(groups)
        nrun = len(keys) if thorough else min(len(keys), 300)
        for key in (keys if nrun == len(keys) else rng.sample(keys, nrun)):
            nb, win, extra = key
            members = groups[key]
            for c0 in range(0, len(members), NK):
                batch = [members[(c0 + n) % len(members)] for n in range(NK)]
                detail = dict(E=[d["E"] for d in batch], windows_flo_fhi_olo_ohi=win, extra=extra, unit=UNIT)
                log = run_wannierise(rep, world.wandata([d["E"] for d in batch], nw=1), win, list(extra), True, detail, num_iter=0)
                if log["failed"]:
                    continue
                if log["rejected"]:
                    rep.violation("wannierise:windows:rejected", dict(detail, exception=log["rejected"],
                                                                      what="frozen states lie inside the outer window, yet the call was refused"))
                    continue
                if len(log["masks"]) != NK:
                    raise MachineryError(f"the recording Wannierizer saw {len(log['masks'])} k-points instead of {NK} (internal chunking changed?)")
                for d, (fz, fr) in zip(batch, log["masks"]):
                    nmask += 1
                    rep.case(("mask", tuple(d["E"]), win, extra), nontrivial=True)
                    got_fz, got_fr = {int(x) for x in np.where(fz)[0]}, {int(x) for x in np.where(fr)[0]}
                    inside0 = [j for j, e in enumerate(d["E"]) if win[0] <= e <= win[1]]
                    classes["frozen_cut"] += int(len(d["frozen"]) < len(inside0) and not extra)
                    classes["outer_grown"] += int(len(d["outer"]) > len([e for e in d["E"] if win[2] <= e <= win[3]]))
                    classes["extra"] += int(bool(extra))
                    classes["empty_frozen" if not d["frozen"] else "nonempty_frozen"] += 1
                    if not set(d["frozen"]) <= got_fz:
                        rep.violation("wannierise:windows:frozen_not_frozen", dict(E=d["E"], windows_flo_fhi_olo_ohi=win, extra=extra, unit=UNIT,
                                                                                   spec_frozen=d["frozen"], got_frozen=sorted(got_fz)))
                    if not (got_fz | got_fr) <= set(d["outer"]):
                        rep.violation("wannierise:windows:outside_outer", dict(E=d["E"], windows_flo_fhi_olo_ohi=win, extra=extra, unit=UNIT,
                                                                               spec_outer=d["outer"], got_frozen=sorted(got_fz), got_free=sorted(got_fr)))
                    info["masks_equal" if (sorted(got_fz) == d["frozen"] and sorted(got_fr) == d["free"]) else "masks_differ"] += 1
                    if nmask <= 2:
                        rep.sample(dict(E=d["E"], windows_flo_fhi_olo_ohi=win, extra=extra, frozen=sorted(got_fz), free=sorted(got_fr)))
        for k, v in classes.items():
            if v == 0 and not rep.violations:
                raise MachineryError(f"window replay: class {k} never occurred")
    # inputs that must be refused (needs no hook if the refusal comes before any computation; with the hook the run stops early)
    for d in (failed if thorough else rng.sample(failed, min(len(failed), 60))):
        nw1 = max(1, len(set(d["frozen"])))
        log = run_wannierise(rep, world.wandata([d["E"]] * NK, nw=nw1), d["win"], list(d["extra"]), hooked, dict(E=d["E"], windows=d["win"], extra=d["extra"]), num_iter=0)
        rep.case(("assert", tuple(d["E"]), d["win"], d["extra"]))
        nfail += 1
        if not log["rejected"] and not log["failed"]:
            rep.violation("wannierise:windows:not_refused", dict(E=d["E"], windows_flo_fhi_olo_ohi=d["win"], extra=d["extra"], unit=UNIT,
                                                                  what="frozen states outside the outer window were accepted"))
    rep.part("window_replay", masks_compared=nmask, calls=nrun, refusal_cases=nfail, classes=classes, information=info)

    # ---------------- code -> spec : full runs recorded and validated by TLC
    recs = []
    maxres = 0.0
    settings = [dict(init="amn", num_iter=0), dict(init="amn", num_iter=1), dict(init="amn", num_iter=3, localise=False),
                dict(init="amn", num_iter=5, mix_ratio_z=1.0), dict(init="random", num_iter=2), dict(init="restart", num_iter=2),
                dict(init="amn", num_iter=2, mix_ratio_z=0.3, conv_tol=1e-3, num_iter_converge=1),
                dict(init="amn", num_iter=3, mix_ratio_u=0.5), dict(init="amn", num_iter=2, symmetrize_Z=False),
                dict(init="amn", num_iter=2, mix_ratio_u=0.7, localise=True, mix_ratio_z=0.5)]
    modes = {}
    edge = dict(no_free_dimension=0, no_disentanglement=0, nothing_frozen_but_disentangled=0, unequal_frozen_counts=0, per_k_frozen_states=0,
                mix_ratio_u=0, symmetrize_Z_off=0)
    DEFECTS, MODES = ("zero", "dup", "outside"), dict(num_iter_0=dict(init="amn", num_iter=0), localise_off=dict(init="amn", num_iter=2, localise=False),
                                                       localise_on=dict(init="amn", num_iter=2))
    edge.update({f"amn_{k}:{m}": 0 for k in DEFECTS for m in MODES})

    def full_run(Elist, win, extras, nw, frozen_sets, outer_sets, setting, as_dict, defect=None):
        """extras: per k-point tuple of explicitly frozen bands; as_dict: hand them over as {ik: [bands]} instead of a list;
        defect: class of rank-deficient projections (World.wandata)"""
        nonlocal maxres
        wd = world.wandata(Elist, nw=nw, variant=rng.randrange(3), defect=defect, outer_sets=outer_sets)
        defects = list(world.last_defects)
        kw = dict(setting)
        init = kw.pop("init")
        fs = {ik: list(e) for ik, e in enumerate(extras) if e} if as_dict else list(extras[0])
        detail = dict(E=Elist, windows_flo_fhi_olo_ohi=win, frozen_states=fs, num_wann=nw, setting=repr(setting), unit=UNIT, projections=defects)
        if init == "random":
            np.random.seed(rng.randrange(2**31))
            kw["num_wann"] = nw
        if init == "restart":
            first = run_wannierise(rep, wd, win, fs, False, detail, init="amn", num_iter=1)
            if first["rejected"] or first["failed"]:
                if first["rejected"]:
                    rep.violation("wannierise:windows:rejected", dict(detail, exception=first["rejected"]))
                return
        log = run_wannierise(rep, wd, win, fs, False, detail, init=init, **kw)
        if log["failed"]:
            return
        if log["rejected"]:
            rep.violation("wannierise:windows:rejected", dict(detail, exception=log["rejected"], what="valid feasible input was refused"))
            return
        if log["final"] is None:
            return
        modes[init] = modes.get(init, 0) + 1
        use_hook = hooked and not log["hook_broken"] and len(log["masks"]) == NK
        evs = (log["events"] if use_hook else []) + [("final", log["final"])]
        edge["unequal_frozen_counts"] += int(len({len(f) for f in frozen_sets}) > 1)
        edge["per_k_frozen_states"] += int(as_dict and bool(fs))
        edge["mix_ratio_u"] += int(setting.get("mix_ratio_u", 1) != 1)
        edge["symmetrize_Z_off"] += int(setting.get("symmetrize_Z", True) is False)
        if defect is not None:
            mode = "num_iter_0" if setting.get("num_iter") == 0 else ("localise_off" if setting.get("localise", True) is False else "localise_on")
            for kind in {k for k, _ in defects if k != "full"}:
                edge[f"amn_{kind}:{mode}"] += 1
        for ik in range(NK):
            fzs, ous = sorted(frozen_sets[ik]), sorted(outer_sets[ik])
            edge["no_free_dimension"] += int(len(fzs) == nw)
            edge["no_disentanglement"] += int(len(ous) == nw)
            edge["nothing_frozen_but_disentangled"] += int(not fzs and nw < len(ous))
            events = []
            for kind, Us in evs:
                pr, res = project(np.asarray(Us[ik]), fzs, set(ous))
                maxres = max(maxres, res)
                events.append(dict(kind=kind, **pr))
            if use_hook:
                fz, fr = log["masks"][ik]
                mfz, mfr = [int(x) for x in np.where(fz)[0]], [int(x) for x in np.where(fr)[0]]
            else:
                mfz, mfr = fzs, sorted(set(ous) - set(fzs))
            recs.append(dict(E=[int(e) for e in Elist[ik]], flo=win[0], fhi=win[1], olo=win[2], ohi=win[3], extra=[int(x) for x in extras[ik]], nw=nw,
                             asserted=False, frozen=mfz, free=mfr, capt_rows=[int(x) for x in fzs], outer_rows=[int(x) for x in ous], events=events,
                             amn=defects[ik][0], amn_rows=[int(x) for x in defects[ik][1]],
                             setting=repr(setting), hooked=bool(use_hook)))
            rep.case(("run", tuple(Elist[ik]), win, tuple(extras[ik]), nw, repr(setting), as_dict))

    # (a) from TLC's done states: same windows and num_wann across the k-points of a call; a fifth of the calls hands different explicit
    #     frozen bands to different k-points (dict form)
    gdone, gany = {}, {}
    for d in done:
        gdone.setdefault((len(d["E"]), d["win"], d["extra"], d["nw"], d["amn"]), []).append(d)
        gany.setdefault((len(d["E"]), d["win"], d["nw"], d["amn"]), []).append(d)
    dkeys = sorted(gdone)
    for n, key in enumerate(rng.sample(dkeys, min(len(dkeys), 600 if thorough else 60))):
        nb, win, extra, nw, amncls = key
        as_dict = n % 5 == 4
        members = gany[(nb, win, nw, amncls)] if as_dict else gdone[key]
        batch = [members[(rng.randrange(len(members)) if (m >= len(members) or as_dict) else m)] for m in range(NK)]
        setting = settings[n % len(settings)]
        deficient = batch[0]["amn"] == "deficient" and setting["init"] == "amn"
        full_run([d["E"] for d in batch], win, [d["extra"] for d in batch], nw, [set(d["frozen"]) for d in batch], [set(d["outer"]) for d in batch],
                 setting, as_dict, defect=DEFECTS[n % 3] if deficient else None)
    # (b) larger random inputs (more bands, multiplets cut by every edge)
    nrand = 300 if thorough else 40
    tries = 0
    while nrand > 0 and tries < 20000:
        tries += 1
        nb = rng.randint(4, 9)
        Elist = []
        for _ in range(NK):
            E = [rng.randint(0, 3)]
            for _ in range(nb - 1):
                E.append(E[-1] + rng.choice([0, 1, 2, 2, 3, 4, 7]))
            Elist.append(E)
        top = max(E[-1] for E in Elist)
        olo = rng.choice([-1, rng.randint(0, top // 3 + 1)])
        ohi = rng.randint(max(olo, top // 2), top + 1)
        flo = rng.randint(olo, ohi)
        fhi = rng.randint(flo, ohi)
        fro = [_select(E, flo, fhi, False) for E in Elist]
        out = [_select(E, olo, ohi, True) for E in Elist]
        extras = [()] * NK
        mode = rng.random()
        if mode < 0.2:          # the same explicit band at all k-points (list form)
            common = set.intersection(*out)
            if common:
                extras = [(rng.choice(sorted(common)),)] * NK
        elif mode < 0.4:        # different explicit bands per k-point (dict form), some k-points without
            extras = [((rng.choice(sorted(o)),) if (o and rng.random() < 0.7) else ()) for o in out]
        as_dict = 0.2 <= mode < 0.4
        fro = [f | set(e) for f, e in zip(fro, extras)]
        lo_nw, hi_nw = max(len(f) for f in fro), min(len(o) for o in out)
        if lo_nw > hi_nw or hi_nw < 1:
            continue
        nw = [max(1, lo_nw), hi_nw, rng.randint(max(1, lo_nw), hi_nw)][tries % 3]
        if nrand % 3 == 2:        # rank-deficient projections x how the gauge is produced: every combination, empty classes first
            combos = [(k, m) for k in DEFECTS for m in MODES]
            empty = [c for c in combos if edge[f"amn_{c[0]}:{c[1]}"] == 0]
            defect, mode = empty[0] if empty else combos[tries % len(combos)]
            if (defect == "dup" and nw < 2) or (defect == "outside" and all(len(o) == nb for o in out)):
                continue
            full_run(Elist, (flo, fhi, olo, ohi), extras, nw, fro, out, MODES[mode], as_dict, defect=defect)
        else:
            full_run(Elist, (flo, fhi, olo, ohi), extras, nw, fro, out, settings[tries % len(settings)], as_dict)
        nrand -= 1
    if not rep.violations:
        for m in ("amn", "random", "restart"):
            if modes.get(m, 0) == 0:
                raise MachineryError(f"init mode {m} never ran")
        for k, v in edge.items():
            if v == 0:
                raise MachineryError(f"full runs: input class {k} never occurred")
        if (hooked and not any(len(r["events"]) >= 4 for r in recs)) or not any(r["capt_rows"] and r["events"] for r in recs):
            raise MachineryError("no multi-iteration run / no run with frozen bands")
    if not recs:
        return rep.finish()
    # binding self-test: corrupted copies travel in the same batch
    nreal = len(recs)
    cand = [r for r in recs if r["events"] and r["capt_rows"]]
    selftest = {}
    if cand:
        b1 = copy.deepcopy(cand[0])
        b1["frozen"] = [x for x in b1["frozen"] if x != b1["capt_rows"][-1]]
        b2 = copy.deepcopy(cand[0])
        b2["events"][-1]["gram"] = 11
        b3 = copy.deepcopy(cand[0])
        b3["events"][0]["rank"] -= 1
        for b, clause in ((b1, "frozen_covers_spec"), (b2, "gauge_orthonormal"), (b3, "gauge_rank")):
            selftest[len(recs)] = clause
            recs.append(b)
    stv, bad = ftable.validate_records("DisentangleRec.tla", ftable.REC_CFG, recs, sc.uniq("c24"))
    rep.add_tlc("c24_records", dict(stv, distinct=stv["distinct"] - len(selftest), generated=stv["generated"] - 2 * len(selftest)))
    rep.add_traces(nreal)
    for i, clause in selftest.items():
        if clause not in bad.get(i, []):
            raise MachineryError(f"binding self-test failed: corrupted record accepted ({clause}: {bad.get(i)})")
    rep.part("binding_selftest", corrupted_records_rejected={str(i - nreal): bad.get(i) for i in selftest})
    infocount, harness_bad = {}, {}
    for i, clauses in bad.items():
        if i >= nreal:
            continue
        r = recs[i]
        for c in clauses:
            if c in INFO_CLAUSES:
                infocount[c] = infocount.get(c, 0) + 1
            if c in HARNESS_CLAUSES:
                harness_bad[c] = harness_bad.get(c, 0) + 1
        hard = sorted(c for c in clauses if c not in INFO_CLAUSES and c not in HARNESS_CLAUSES)
        if hard:
            kind = "windows" if any(c in hard for c in ("frozen_covers_spec", "selected_in_outer", "assert_iff", "frozen_in_outer")) else "gauge"
            rep.violation(f"wannierise:{kind}:recorded:{'+'.join(hard)}", dict(record=r, failing_clauses=hard, unit=UNIT))
    if harness_bad:
        raise MachineryError(f"the harness's inputs / row sets disagree with the specification: {harness_bad}")
    rep.sample({k: v for k, v in recs[0].items()})
    rep.part("numeric_only", what="orthonormal columns, frozen unit vectors in the span, zero rows outside the outer window of every gauge "
                                  "matrix of the recorded runs (final v_matrix; initial / per iteration when observable), against the "
                                  "specification's frozen / outer sets (bucketed, limit 1e-8)",
             records=nreal, max_residual=maxres, init_modes=modes, input_classes=edge, hooked=hooked,
             information_only_clauses_failing=infocount)
    return rep.finish()
