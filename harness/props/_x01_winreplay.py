"""X01 (b): replay of the TLC states of MC_WinRead / MC_WinObj on the real WIN class, and recorded real calls"""
import os
import copy
import shutil
import warnings
import numpy as np

from ..common import quiet
from . import _x01_win as W


def seeds_of(d):
    """{path: model name} for the seednames used inside scratch directory d"""
    return {os.path.join(d, "seed"): "seed", os.path.join(d, "copy"): "copy"}


def try_project(w, seeds, unwrapped=False):
    """unwrapped: the object came out of np.load - its scalars are 0-d arrays, its lists 1-d arrays (see unwrap)"""
    try:
        if unwrapped:
            class View:
                data = {k: unwrap(v) for k, v in w.data.items()}
            return W.project_data(View, seeds), None
        return W.project_data(w, seeds), None
    except W.Unrepresentable as ex:
        return None, str(ex)[:200]


def classify_key_problem(k, exp, got_all):
    """a parameter the model has under k is not there / differs: where does it come from?"""
    for pre in ("upper:", "title:", "other:"):
        if pre + k in got_all and got_all[pre + k] == exp:
            return "WIN.from_w90_file:keyword_case"
    g = got_all.get(k)
    if g is not None and exp["t"] == "str" and g["t"] == "str" and g["s"] == exp["s"] and g["i"] != exp["i"]:
        return "WIN.write:string_value"
    if g is not None and exp["t"] == "str" and g["t"] == "bool":
        return "third_party:string_read_as_bool"
    return None


def compare_data(site, exp, got, but=()):
    """-> list of (violation key, key of the dictionary, expected, got)"""
    out = []
    for k in W.same_data(exp, got, but=but):
        e, g = W.get(exp, k), W.get(got, k)
        if k.split(":")[0] in ("upper", "title", "other") and e["t"] == "none":
            continue                        # reported under the lower-case key it should have been stored under
        key = classify_key_problem(k, e, got)
        if key is None:
            kind = k if k in ("unit_cell_cart", "kpoints", "atoms_frac", "atoms_names", "projections", "mp_grid", "seedname") else "parameter:" + (e["t"] if e["t"] != "none" else g["t"])
            key = f"{site}:{kind}"
        out.append((key, k, e, g))
    return out


def unwrap(x):
    """what np.load hands back -> the Python value it stands for (0-d arrays -> scalars, 1-d arrays of strings / integers -> lists)"""
    if isinstance(x, np.ndarray):
        if x.ndim == 0:
            return x.item()
        if x.ndim == 1:
            return x.tolist()
    return x


def npz_roundtrip(w, path, seeds):
    """-> (loaded object, its projection, None) or (None, None, (violation key, text))"""
    from wannierberri.w90files.win import WIN
    try:
        with quiet(), warnings.catch_warnings():
            warnings.simplefilter("ignore")
            w.to_npz(path)
    except OSError:
        raise
    except Exception as ex:
        return None, None, (f"raises:WIN.to_npz:{type(ex).__name__}", repr(ex)[:200])
    try:
        with quiet(), warnings.catch_warnings():
            warnings.simplefilter("ignore")
            w2 = WIN.from_npz(path)
    except OSError:
        raise
    except Exception as ex:
        return None, None, (f"raises:WIN.from_npz:{type(ex).__name__}", repr(ex)[:200])

    class View:
        data = {k: unwrap(v) for k, v in w2.data.items()}
    try:
        return w2, W.project_data(View, seeds), None
    except W.Unrepresentable as ex:
        return None, None, ("WIN.from_npz:value", str(ex)[:200])


class ReadReplay:
    """one "done" state of MC_WinRead = one file for WIN.from_w90_file"""

    def __init__(self, vio, wd):
        self.vio, self.wd, self.n = vio, wd, 0
        self.counts, self.info = {}, {}

    def note(self, k):
        self.info[k] = self.info.get(k, 0) + 1

    def one(self, s):
        self.n += 1
        d = os.path.join(self.wd, f"r{self.n}")
        os.makedirs(d, exist_ok=True)
        try:
            self._one(s, d)
        finally:
            shutil.rmtree(d, ignore_errors=True)

    def _one(self, s, d):
        lines = W.canon_file(s["file"])
        text = W.render(lines)
        seedpath = os.path.join(d, "seed")
        with open(seedpath + ".win", "w") as f:
            f.write(text)
        sty = dict(s["style"])
        cont = dict(cell_units=s["cu"], atoms=s["at"], kpoints=s["kp"], mp_grid=s["mpp"], projections=s["pj"], parameters=s["pset"])
        det = dict(content=cont, style=sty, file_text=text[:1500], call="WIN.from_w90_file(seedname)")
        cls = ("mesh" if s["kp"] not in ("hole", "offgrid") else s["kp"]) + ":" + ("mp_wrong" if s["mpp"] == "wrong" else "mp_ok")
        self.counts[cls] = self.counts.get(cls, 0) + 1
        sk = "style:" + sty["pcase"] + sty["sep"] + ("+comments" if sty["comments"] else "")
        self.counts[sk] = self.counts.get(sk, 0) + 1
        self.counts["units:" + s["cu"] + "/" + s["at"]] = self.counts.get("units:" + s["cu"] + "/" + s["at"], 0) + 1
        w, ex = W.read_win(seedpath)
        exp_ok = s["rd"]["err"] == ""
        if s["kp"] == "hole":
            # outside the statement (get_mp_grid does not count the points): followed for information
            self.note("incomplete_mesh:" + ("read" if ex is None else "refused") + (":as_modelled" if (ex is None) == exp_ok else ":differs_from_model"))
            return
        if (ex is None) != exp_ok:
            if exp_ok:
                self.vio.violation(f"raises:WIN.from_w90_file:{ex.split(':')[0]}", dict(det, exception=ex, expected="the file is read"))
            elif s["mpp"] == "wrong" and any(k != "mp_grid" and k.lower() == "mp_grid" for k in w.data):
                # the contradicting mp_grid was stored under another spelling of the keyword and never compared
                self.vio.violation("WIN.from_w90_file:keyword_case", dict(det, key="mp_grid", stored_as=[k for k in w.data if k.lower() == "mp_grid"],
                                                                          expected="refused: mp_grid contradicts the k-points"))
            else:
                self.vio.violation("WIN.from_w90_file:accepted:" + ("mp_grid_mismatch" if s["mpp"] == "wrong" else "kpoints_off_mesh"),
                                   dict(det, expected="refused: " + s["rd"]["err"]))
            return
        if ex is not None:
            if not ex.startswith(s["rd"]["err"]):
                self.note("exception_class:" + ex.split(":")[0])
            return
        got, prob = try_project(w, seeds_of(d))
        if got is None:
            self.vio.violation("WIN.from_w90_file:value", dict(det, problem=prob))
            return
        exp = W.canon_data(s["rd"]["data"])
        for key, k, e, g in compare_data("WIN.from_w90_file", exp, got):
            if key.startswith("third_party"):
                self.note(key)
                continue
            self.vio.violation(key, dict(det, key=k, expected=e, got=g))
        # __contains__ / __getitem__ agree with the dictionary
        for k in list(w.data):
            if k not in w or w[k] is not w.data[k]:
                self.vio.violation("WIN.__getitem__:value", dict(det, key=k))
        if "nothere" in w:
            self.vio.violation("WIN.__contains__:absent_key", dict(det, key="nothere"))


class ObjReplay:
    """one behaviour of MC_WinObj on a real WIN object"""

    def __init__(self, vio, wd, states, pool):
        self.vio, self.wd, self.states, self.pool, self.n = vio, wd, states, pool, 0
        self.ops, self.info, self.counts = {}, {}, {}

    def note(self, k):
        self.info[k] = self.info.get(k, 0) + 1

    @staticmethod
    def hkey(hist):
        return tuple((e["op"], e["id"]) for e in hist)

    def replay(self, s):
        self.n += 1
        d = os.path.join(self.wd, f"o{self.n}")
        os.makedirs(d, exist_ok=True)
        try:
            return self._replay(s, d)
        finally:
            shutil.rmtree(d, ignore_errors=True)

    def _replay(self, s, d):
        hist = s["hist"]
        info = dict(preset=hist[0]["id"], ops=[(e["op"], e["id"]) for e in hist[1:]])
        root = self.states[self.hkey(hist[:1])]
        seeds = seeds_of(d)
        seedpath = os.path.join(d, "seed")
        with open(seedpath + ".win", "w") as f:
            f.write(W.render(W.canon_file(root["file"])))
        w, ex = W.read_win(seedpath)
        if ex is not None:
            self.vio.violation(f"raises:WIN.from_w90_file:{ex.split(':')[0]}", dict(info, step=0, exception=ex))
            return False
        cur, prob = try_project(w, seeds)
        if cur is None:
            self.vio.violation("WIN.from_w90_file:value", dict(info, step=0, problem=prob))
            return False
        following = not W.same_data(cur, W.canon_data(root["data"]))
        if not following:
            self.note("preset_object_differs_from_model")
        via_npz = False
        for n, e in enumerate(hist[1:], start=2):
            st = self.states[self.hkey(hist[:n])]
            op, ident, step = e["op"], e["id"], n - 1
            self.ops[op] = self.ops.get(op, 0) + 1
            det = dict(info, step=step, op=op, id=ident)
            if op in ("set", "del", "update"):
                if op == "set":
                    key, val = self.pool["key"][ident], self.pool["val"][ident]
                    changes = {key: val}
                    call = lambda: w.__setitem__(key, W.to_python(val))       # noqa: E731
                elif op == "del":
                    changes = {ident: W.VNONE}
                    call = lambda: w.__delitem__(ident)                       # noqa: E731
                else:
                    changes = dict(self.pool["upd"][ident])
                    call = lambda: w.update({k: W.to_python(v) for k, v in changes.items()})   # noqa: E731
                try:
                    with quiet(), warnings.catch_warnings(record=True) as caught:
                        warnings.simplefilter("always")
                        call()
                except Exception as ex2:
                    self.vio.violation(f"raises:WIN.{dict(set='__setitem__', **{'del': '__delitem__'}, update='update')[op]}:{type(ex2).__name__}",
                                       dict(det, exception=repr(ex2)[:200]))
                    return False
                if op == "del" and ident not in cur:
                    self.note("del_absent_key:" + ("warning" if caught else "silent"))
                new, prob = try_project(w, seeds, via_npz)
                if new is None:
                    self.vio.violation(f"WIN.{op}:value", dict(det, problem=prob))
                    return False
                # the law, on the real dictionaries: the named keys hold the new values, nothing else changed
                for k, v in changes.items():
                    if W.get(new, k) != v or (k in w) != (op != "del") or (op != "del" and k not in w.data):
                        self.vio.violation(f"WIN.{op}:key", dict(det, key=k, expected=v, got=W.get(new, k), contains=k in w))
                others = [k for k in set(cur) | set(new) if k not in changes and (cur.get(k) != new.get(k))]
                if others:
                    self.vio.violation(f"WIN.{op}:other_keys_changed", dict(det, keys=sorted(others)))
                if following and W.same_data(new, W.canon_data(st["data"])):
                    following = False
                    self.note(f"{op}:dictionary_differs_from_model")
                cur = new
                continue
            if op == "npz":
                # ---- to_npz(f) ; WIN.from_npz(f): the loaded object takes the place of the old one
                w_new, new, problem = npz_roundtrip(w, os.path.join(d, f"s{step}.win.npz"), seeds)
                if problem is not None:
                    self.vio.violation(problem[0], dict(det, problem=problem[1]))
                    return False
                diff = W.same_data(cur, new)
                if diff:
                    self.vio.violation("WIN.from_npz:dictionary", dict(det, differing_keys=diff, saved={k: W.get(cur, k) for k in diff},
                                                                       loaded={k: W.get(new, k) for k in diff}))
                    return False
                if any(isinstance(x, np.ndarray) and x.ndim == 0 for x in w_new.data.values()):
                    self.note("npz:scalars_come_back_as_0d_arrays")
                self.counts["npz_round_trips"] = self.counts.get("npz_round_trips", 0) + 1
                w, cur, via_npz = w_new, new, True
                continue
            # ---- write(seedname = t) ; WIN.from_w90_file(t)
            target = os.path.join(d, ident)
            consistent = bool(st["loaded"]["err"] == "")          # the model's dictionary equals the real one while `following`
            text, ex = W.write_win(w, target)
            if ex is not None:
                if via_npz:
                    # the same dictionary is written without complaint before it goes through .npz (other behaviours)
                    self.vio.violation("WIN.from_npz:object_not_writable", dict(det, exception=ex, data_keys=sorted(cur),
                                                                                types={k: type(x).__name__ for k, x in w.data.items()}))
                else:
                    self.vio.violation(f"raises:WIN.write:{ex.split(':')[0]}", dict(det, exception=ex, data_keys=sorted(cur)))
                return False
            spaced_in_file = []
            try:
                toks = W.tokenise(text)
                keys = W.file_keys(toks)
                want = sorted(k for k, v in cur.items() if v["t"] != "none" and k != "atoms_names")
                if sorted(keys) != want and sorted(keys) != [k for k in want if k != "seedname"]:
                    self.vio.violation("WIN.write:entries", dict(det, expected_entries=want, entries_in_file=sorted(keys), file_text=text[:1200]))
                if "seedname" in keys:
                    self.note("write:seedname_written_as_parameter")
                spaced_in_file = [ln["name"] for ln in toks if ln["k"] == "param" and ln["v"]["t"] == "str" and ln["v"]["i"] == 1]
                if following:
                    self.note("write:tokens_as_modelled" if W.significant(toks) == W.significant(W.canon_file(st["disk"])) else "write:tokens_differ_from_model")
            except W.Unrepresentable as ue:
                self.vio.violation("WIN.write:file_format", dict(det, problem=str(ue)[:200], file_text=text[:1200]))
                return False
            w2, ex = W.read_win(target)
            self.counts["write_read:" + ("consistent" if consistent else "inconsistent")] = self.counts.get("write_read:" + ("consistent" if consistent else "inconsistent"), 0) + 1
            if not following:
                self.note("write_read:not_compared_with_model_status")
            elif (ex is None) != consistent:
                if consistent:
                    self.vio.violation(f"raises:WIN.from_w90_file:{ex.split(':')[0]}",
                                       dict(det, exception=ex, file="written by WIN.write", file_text=text[:1200]))
                else:
                    self.vio.violation("WIN.from_w90_file:accepted:mp_grid_mismatch", dict(det, file="written by WIN.write", file_text=text[:1200]))
                return False
            if ex is not None:
                continue
            back, prob = try_project(w2, seeds)
            if back is None:
                self.vio.violation("WIN.roundtrip:value", dict(det, problem=prob, file_text=text[:1200]))
                return False
            # the statement, real against real: what was written comes back
            ok = True
            for key, k, e_, g_ in compare_data("WIN.roundtrip", cur, back, but=("seedname", "mp_grid")):
                if key == "WIN.write:string_value" and k not in spaced_in_file:
                    key = "WIN.roundtrip:parameter:str"
                if key.startswith("third_party"):
                    self.note(key)
                    continue
                ok = False
                self.vio.violation(key, dict(det, key=k, written=e_, read_back=g_, file_text=text[:1200]))
            if W.get(cur, "mp_grid")["t"] != "none" and W.get(back, "mp_grid") != cur["mp_grid"]:
                ok = False
                self.vio.violation("WIN.roundtrip:mp_grid", dict(det, written=cur["mp_grid"], read_back=W.get(back, "mp_grid")))
            sn = W.get(back, "seedname")
            if sn != W.mk("str", 0, ident):
                ok = False
                self.vio.violation("WIN.write:seedname_parameter" if "seedname" in keys else "WIN.from_w90_file:seedname",
                                   dict(det, read_from=ident, seedname_of_the_object=sn, what="the object read from <t>.win is not called t",
                                        file_text=text[:400]))
            if ok:
                self.counts["round_trips_ok"] = self.counts.get("round_trips_ok", 0) + 1
        return True


# --------------------------------------------------------------------------- recorded real calls
SAFE_WORDS = ["plot", "bulk", "s-k", "xcrysden", "cube", "wannier", "lcr", "x", "crystal", "bands", "gnuplot"]       # none starts with t / f
PARAM_NAMES = ["num_wann", "num_bands", "num_iter", "dis_num_iter", "dis_froz_max", "dis_froz_min", "dis_win_max", "kmesh_tol", "spinors",
               "guiding_centres", "write_hr", "restart", "bands_plot_mode", "wannier_plot_format", "transport_mode", "exclude_bands",
               "select_projections", "wannier_plot_list", "search_shells"]


def random_value(rng, name):
    if name in ("num_wann", "num_bands", "num_iter", "dis_num_iter", "search_shells"):
        return W.mk("int", rng.randint(1, 200))
    if name in ("dis_froz_max", "dis_froz_min", "dis_win_max", "kmesh_tol"):
        return W.mk("float", rng.randint(-400, 400) or 1)
    if name in ("spinors", "guiding_centres", "write_hr"):
        return W.mk("bool", rng.randint(0, 1))
    if name in ("restart", "bands_plot_mode", "wannier_plot_format", "transport_mode"):
        return W.mk("str", 0, rng.choice(SAFE_WORDS))
    n = rng.choice([2, 3, 4, 6])
    return W.mk("ints", q=sorted(rng.sample(range(1, 30), n)))


def random_data(rng):
    """a dictionary a user could build: parameters, cell (possibly from bohr), atoms, a k-point mesh, mp_grid right / absent / wrong"""
    d = {}
    for nm in rng.sample(PARAM_NAMES, rng.randint(1, 7)):
        d[nm] = random_value(rng, nm)
    while True:
        cell = [rng.choice([0, 0, 8, 16, 24, -8, 4, 12]) for _ in range(9)]
        m = np.array(cell).reshape(3, 3)
        if abs(round(np.linalg.det(m))) >= 64:
            break
    e = rng.choice([0, 0, 1])
    d["unit_cell_cart"] = W.mk("cell", e, q=cell)
    nat = rng.randint(1, 4)
    d["atoms_frac"] = W.mk("frac", 0, q=[rng.randint(0, 7) for _ in range(3 * nat)])
    d["atoms_names"] = W.mk("names", l=[rng.choice(["Fe", "Te", "O", "Bi2", "C_1"]) for _ in range(nat)])
    n = [rng.choice([1, 1, 2, 3, 4]) for _ in range(3)]
    pts = [(a * (W.KDEN // n[0]), b * (W.KDEN // n[1]), c * (W.KDEN // n[2])) for a in range(n[0]) for b in range(n[1]) for c in range(n[2])]
    rng.shuffle(pts)
    d["kpoints"] = W.mk("kpts", q=[x for p in pts for x in p])
    r = rng.random()
    mesh = "right"
    if r < 0.35:
        d["mp_grid"] = W.mk("ints", q=n)
    elif r < 0.5:
        d["mp_grid"] = W.mk("ints", q=[n[0] + 1, n[1], n[2]])
        mesh = "wrong"
    if rng.random() < 0.6:
        d["projections"] = W.mk("strs", l=[rng.choice(["Fe:d", "Te:p", "random", "f=0.5,0.5,0.5:s", "Bi2:sp3"]) for _ in range(rng.randint(1, 3))])
    elif rng.random() < 0.5:
        d["projections"] = W.VNONE
    return d, mesh


def build_real(d, seedpath, how):
    """a real WIN object holding the dictionary d"""
    from wannierberri.w90files.win import WIN
    py = {k: W.to_python(v) for k, v in d.items()}
    with quiet(), warnings.catch_warnings():
        warnings.simplefilter("ignore")
        if how == 0:
            w = WIN(seedname=seedpath)
            for k, v in py.items():
                w[k] = v
        elif how == 2:
            # the documented way to make an object without a file: keys in any case, k-points and cell as nested lists
            w = WIN.from_w90_file(seedname=None, data={k.upper() if k not in ("kpoints", "unit_cell_cart") else k: (v.tolist() if k in ("kpoints", "unit_cell_cart") else v)
                                                       for k, v in py.items()})
        else:
            w = WIN(seedname=seedpath).update(py)
    return w


def pairs(d):
    return [[k, v] for k, v in sorted(d.items())]


def record_calls(rep, vio, rng, n, wd):
    """-> (records, meta)"""
    recs, meta = [], []
    for it in range(n):
        kind = ("write", "roundtrip", "read")[it % 3]
        d = os.path.join(wd, f"rec{it}")
        os.makedirs(d, exist_ok=True)
        seeds = seeds_of(d)
        try:
            data, mesh = random_data(rng)
            target = rng.choice(["seed", "copy"])
            if kind == "read":
                # a file made by the harness's own renderer from the dictionary, in a random style
                lines = lines_from_data(rng, data)
                text = W.render(lines)
                with open(os.path.join(d, "seed.win"), "w") as f:
                    f.write(text)
                w, ex = W.read_win(os.path.join(d, "seed"))
                out = dict(err="" if ex is None else ex.split(":")[0], data=[])
                if ex is None:
                    got, prob = try_project(w, seeds)
                    if got is None:
                        vio.violation("WIN.from_w90_file:value", dict(problem=prob, file_text=text[:1200]))
                        continue
                    out["data"] = pairs(got)
                recs.append(dict(kind="read", file=lines, seed="seed", mesh=True, out=out))
                meta.append(dict(kind=kind, mesh=mesh, exception=ex, file_text=text[:1500]))
            else:
                how = (it // 3) % 3 if mesh != "wrong" else (it // 3) % 2
                data["seedname"] = W.mk("str", 0, "seed") if how != 2 else W.VNONE
                try:
                    w = build_real({k: v for k, v in data.items() if k != "seedname"}, os.path.join(d, "seed"), how)
                except OSError:
                    raise
                except Exception as exb:
                    vio.violation(f"raises:WIN.from_w90_file:{type(exb).__name__}", dict(call="WIN.from_w90_file(seedname=None, data=...)" if how == 2 else "WIN(...)",
                                                                                         exception=repr(exb)[:200], data_keys=sorted(data)))
                    continue
                cur, prob = try_project(w, seeds)
                if cur is not None and how == 2 and "mp_grid" not in data and W.get(cur, "mp_grid")["t"] == "ints":
                    data["mp_grid"] = cur["mp_grid"]          # derived from the k-points by from_w90_file (checked by the clause mp_grid_derived after the round trip)
                if cur is None or W.same_data(cur, data):
                    vio.violation("WIN.__setitem__:value", dict(problem=prob, what="the dictionary does not hold what was put in",
                                                                differing=None if cur is None else W.same_data(cur, data)))
                    continue
                text, ex = W.write_win(w, os.path.join(d, target))
                if kind == "write":
                    out = dict(err="" if ex is None else ex.split(":")[0], file=[])
                    if ex is None:
                        try:
                            out["file"] = W.tokenise(text)
                        except W.Unrepresentable as ue:
                            vio.violation("WIN.write:file_format", dict(problem=str(ue)[:200], file_text=text[:1200]))
                            continue
                    recs.append(dict(kind="write", data=pairs(cur), order=list(w.data), target=target, out=out))
                    meta.append(dict(kind=kind, mesh=mesh, exception=ex, file_text=(text or "")[:1500], data_keys=sorted(cur)))
                else:
                    if ex is not None:
                        vio.violation(f"raises:WIN.write:{ex.split(':')[0]}", dict(exception=ex, data_keys=sorted(cur)))
                        continue
                    w2, ex2 = W.read_win(os.path.join(d, target))
                    out = dict(err="" if ex2 is None else ex2.split(":")[0], data=[])
                    if ex2 is None:
                        back, prob = try_project(w2, seeds)
                        if back is None:
                            vio.violation("WIN.roundtrip:value", dict(problem=prob, file_text=text[:1200]))
                            continue
                        out["data"] = pairs(back)
                    recs.append(dict(kind="roundtrip", data=pairs(cur), target=target, out=out))
                    meta.append(dict(kind=kind, mesh=mesh, exception=ex2, file_text=text[:1500], data_keys=sorted(cur)))
            rep.case(("winrec", kind, it))
        finally:
            shutil.rmtree(d, ignore_errors=True)
    return recs, meta


def lines_from_data(rng, data):
    """token lines of a .win file holding the dictionary, written the way a person might (independent of WinFile!WriteWin)"""
    def ln(k, name="", cs="lower", sep="", v=None):
        return dict(k=k, name=name, cs=cs, sep=sep, v=v or W.VNONE)
    cs = rng.choice(["lower", "upper", "title"])
    bc = rng.choice(["lower", "upper", "title"])
    items = []
    for k, v in data.items():
        if v["t"] in ("int", "float", "bool", "str", "ints"):
            items.append([ln("param", k, cs, rng.choice(["=", ":", " "]), v)])
    cell = data["unit_cell_cart"]
    unit_c = rng.choice(["none", "ang", "bohr"]) if cell["i"] == 0 else "bohr"
    rows = [ln("row", v=W.mk("row", 0, "", cell["q"][3 * j:3 * j + 3])) for j in range(3)]
    items.append([ln("begin", "unit_cell_cart", bc)] + ([ln("units", unit_c, rng.choice(["lower", "upper", "title"]))] if unit_c != "none" else []) + rows
                 + [ln("end", "unit_cell_cart", rng.choice(["lower", bc]))])
    # the dictionary's cell is q/8 Angstrom (times a0 when the file says bohr)
    data["unit_cell_cart"] = W.mk("cell", 1 if unit_c == "bohr" else 0, q=cell["q"])
    fr, nm = data["atoms_frac"]["q"], data["atoms_names"]["l"]
    items.append([ln("begin", "atoms_frac", bc)] + [ln("row", v=W.mk("row", 0, nm[j], fr[3 * j:3 * j + 3])) for j in range(len(nm))] + [ln("end", "atoms_frac", bc)])
    kq = data["kpoints"]["q"]
    wcol = rng.random() < 0.3
    items.append([ln("begin", "kpoints", bc)] + [ln("row", v=W.mk("row", 0, "", kq[3 * j:3 * j + 3] + ([3] if wcol else []))) for j in range(len(kq) // 3)]
                 + [ln("end", "kpoints", bc)])
    if W.get(data, "projections")["t"] == "strs":
        items.append([ln("begin", "projections", bc)] + [ln("text", v=W.mk("str", 0, x)) for x in data["projections"]["l"]] + [ln("end", "projections", bc)])
    rng.shuffle(items)
    out = []
    for it in items:
        if rng.random() < 0.3:
            out.append(ln("comment"))
        out += it
        if rng.random() < 0.4:
            out.append(ln("blank"))
    return out


def corrupt(rec):
    """a copy of a record with one recorded field changed, and the clause that has to notice (None, None when the record
    offers nothing to corrupt)"""
    r = copy.deepcopy(rec)
    if r["kind"] == "roundtrip" and r["out"]["err"] == "" and r["out"]["data"]:
        for p in r["out"]["data"]:
            if p[1]["t"] == "int":
                p[1]["i"] += 1
                return r, "round_trip"
        for p in r["out"]["data"]:
            if p[0] == "kpoints":
                p[1]["q"][0] += 1
                return r, "round_trip"
    if r["kind"] == "read" and r["out"]["err"] == "":
        for p in r["out"]["data"]:
            if p[0] == "unit_cell_cart":
                p[1]["q"][0] += 1
                return r, "data"
    if r["kind"] == "write" and r["out"]["err"] == "" and r["out"]["file"]:
        for j, l in enumerate(r["out"]["file"]):
            if l["k"] == "end":
                del r["out"]["file"][j]
                return r, "well_formed"
    return None, None
