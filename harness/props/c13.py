"""C13: Fermi-level scans have the documented sea and surface semantics.

spec  : FermiScan.tla -- StaticCalculator.__call__ (non-tetra branch) in integers: extraEf / EFmin / EFmax, band groups in and
        below the scan window (Data_K.get_bands_in_range_groups_ik, Bands.tla), the three branches of the accumulation loop with
        iEf = ceil(...), the finite-difference stencils, k_resolved, select_bands weights; and the declarative meaning: the sea
        at a level = sum over whole degenerate groups below the level, fder = n -> n-th central difference (D1, D2, D1 o D2) of
        that sea on the extended grid.  MC_FermiScan: every small input, accumulation k-point by k-point.
bind  : spec -> code: finished TLC states are replayed on the real StaticCalculator machinery (a subclass that sets Formula / fder
        like the real calculators; additive, non-additive and rank-1 synthetic formulas; use_factor on and off; the real CumDOS /
        DOS / Identity formula, also with select_bands) on a duck-typed data_K that lends the methods of the real Data_K; the
        sea/surface relation and the k-resolved sum are also evaluated between real results.  code -> spec: seeded random
        larger calls are recorded as integer numerators and validated by TLC against FermiScanRec.tla.  One real wb.run
        (real Data_K, real formulas) decides the sea/surface relation between real calculators in floating point.
"""
import copy
import os
import random
from fractions import Fraction

import numpy as np

from .. import tlc, ftable
from ..common import Report, MachineryError, seed, quiet, WORK
from ._c1314_util import (tlc_jobs, validate_parallel, validate_records, lib_call, run_parts, DuckDataKBase, uniq,
                          PrivateGone)

PROPS = {
    "C13": dict(level="model_checking",
                technique="TLC exhaustive on FermiScan.tla (integer transcription of StaticCalculator.__call__ vs declarative sea / central-"
                          "difference semantics, all small inputs) + replay of finished TLC states on the real StaticCalculator / CumDOS / DOS "
                          "with a duck-typed data_K + TLC validation of recorded calls + one real run (floating point) for the relation",
                text="TLC checks for every small band structure (quick: <= 3 bands for 1 k-point, 2 bands for 2 k-points; thorough: <= 4 / 3), "
                     "Fermi grid (spacing, count incl. the single-level call, offset), threshold, derivative order, k_resolved and band "
                     "selection that the transcription of the code equals: the sum over whole degenerate groups below the level (sea), the "
                     "n-th central difference of the sea on the extended grid (surface, n = 1..3; the stencils are exact on polynomials of "
                     "degree n+1), k-resolved summed = unresolved, CumDOS monotone / 0 below / num_wann above. A seeded stratified selection "
                     "of the finished states (quick ~950 of ~3700) is executed on the real calculators (scalar additive, non-additive and "
                     "rank-1 synthetic formulas, use_factor on/off, real CumDOS / DOS / Identity also with select_bands) and compared with "
                     "the exact rational; random larger real calls are validated by TLC; one wb.run on a pythtb Haldane model compares "
                     "StaticCalculator(Formula, fder=n) with the central differences of fder=0 for the real Identity and Omega formulas "
                     "(real Data_K; floating point, tolerance 1e-7 relative to the largest value).",
                note="energies are integers times 1/8 and Fermi levels multiples of 1/8 .. 1/64 (Q = 1..8), values integers, cell volume and "
                     "constant factor powers of two: all sums are exact in floating point, only the division by dEF^n rounds; comparison "
                     "relative 1e-9 (observed <= 3e-16). In the single-level class the code's guessed step 0.001 is the grid step; the "
                     "energy unit is then 0.001*Q/d (not a binary fraction) and the threshold is 0. Named exclusions: NoTie (no level of "
                     "the extended grid coincides with the mean energy of a band group: floating ceil of an integer-valued quotient) and "
                     "NoLevelInsideGroup for the EXACT values only (no level inside the energy span of a group of several bands: at which energy "
                     "inside its span a group counts as occupied is not demanded; the code uses the mean). Inputs with a level inside a group "
                     "(model runs c13_in1 / c13_in2 with InsideMode=inside, about half of the records) are bound by representation-free "
                     "clauses instead: sea between 'groups whose top band is <= level' and 'groups whose bottom band is <= level' (whole "
                     "groups, every band at most once; TLC invariant SeaWithinBounds, record clause own_sea_within_bounds), CumDOS monotone / 0 "
                     "below / num_wann above, fder=n = n-th central difference of the code's own fder=0 result on the extended grid, "
                     "k-resolved sum; required classes: lowest level of the scan inside a group with a band strictly below it; a group reaching up to the lowest level whose mean is >= 1.5 Fermi steps below it (threshold of several steps, run c13_in3). select_bands with fder=0 is refused by the code "
                     "(NotImplementedError) and not exercised; hole_like only flips the sign (no documented semantics) and is not "
                     "exercised; <= 4 bands when a band selection is used (weights are kept as integers/12). Kramers mode is exercised "
                     "on paired input with even and odd numbers of bands (odd: the highest band has no partner and forms or joins the last "
                     "group; CumDOS reaches num_wann above all bands).",
                ref="DESIGN.md 3.5, 7.2"),
}

U = 0.125
CELL_VOLUME = 2.0
FACTOR = -4.0
RTOL = 1e-9
SELUNIT = 12
WORKERS = int(os.environ.get("VERIF_TLC_WORKERS", "16"))
INV = ["StepwiseIsScan", "EqualsDeclarative", "SurfaceIsDifferenceOfSea", "KResolvedSumsToUnresolved", "CumDosShape", "NonAdditiveSame", "Stencils", "SeaWithinBounds"]
REC_CFG = ftable.REC_CFG
VEC = np.array([1.0, 2.0, 4.0])


def tlaset(xs):
    return "{" + ", ".join(str(x) for x in xs) + "}"


def cfg_of(constants, invariants):
    return "SPECIFICATION Spec\nCONSTANTS\n" + "".join(f"  {k} = {v}\n" for k, v in constants.items()) + \
           "".join(f"INVARIANT {i}\n" for i in invariants) + "CHECK_DEADLOCK FALSE\n"


def unit_of(grid):
    """energy unit of a replay: 1/8, or for the single-level call the unit in which the code's guessed dEF = 0.001 is d/Q"""
    return U if grid["n"] > 1 else 0.001 * grid["Q"] / grid["d"]


class DuckDataK(DuckDataKBase):
    """what StaticCalculator.__call__ (non-tetra) and frml.Identity touch; everything else (band grouping) is the real Data_K code"""
    force_internal_terms_only = False

    def __init__(self, Ek, unit=U):
        self.E_K = np.array(Ek, dtype=float) * unit
        self.nk = self.E_K.shape[0]
        self.num_wann = self.E_K.shape[1]
        self.cell_volume = CELL_VOLUME


class NonPrefixTrace(Exception):
    """the calculator asked a non-additive formula for the trace over a band set that is not 0..n-1"""


class BandFormula:
    """trace over a set of bands = sum of the integer band values"""
    ndim = 0
    additive = True

    def __init__(self, data_K, vals=None):
        from wannierberri.symmetry.point_symmetry import transform_ident
        self.vals = vals
        self.transformTR = transform_ident
        self.transformInv = transform_ident

    def trace(self, ik, inn, out):
        return np.float64(sum(self.vals[ik][b] for b in inn))


class BandFormulaNonAdditive(BandFormula):
    """only traces over the lowest n bands are meaningful (the code takes differences of them)"""
    additive = False

    def trace(self, ik, inn, out):
        inn = [int(b) for b in inn]
        if inn != list(range(len(inn))):
            raise NonPrefixTrace(f"trace over the bands {inn}")
        return np.float64(sum(self.vals[ik][b] for b in inn))


class BandFormulaVector(BandFormula):
    """rank-1 formula: components 1, 2, 4 times the scalar one"""
    ndim = 1

    def trace(self, ik, inn, out):
        return VEC * float(sum(self.vals[ik][b] for b in inn))


KINDS = {"additive": BandFormula, "nonadditive": BandFormulaNonAdditive, "vector": BandFormulaVector}
_calc_classes = {}


def synth_calculator(kind, fder):
    """a StaticCalculator subclass built like the real ones (class sets Formula and fder, then StaticCalculator.__init__)"""
    from wannierberri.calculators.static import StaticCalculator
    key = (kind, fder)
    if key not in _calc_classes:
        class Synth(StaticCalculator):
            def __init__(self, **kwargs):
                self.Formula = KINDS[kind]
                self.fder = fder
                super().__init__(constant_factor=FACTOR, **kwargs)
        _calc_classes[key] = Synth
    return _calc_classes[key]


def levels(grid, ext=0, unit=U):
    Q, a, d, n = grid["Q"], grid["a"], grid["d"], grid["n"]
    return np.array([(a + (i - ext) * d) / Q for i in range(n + 2 * ext)], dtype=float) * unit


def selarr(sel):
    return None if sel is None else np.array(sorted(sel), dtype=int)


def run_synth(E, V, th, kr, grid, fder, sel, kres, kind="additive", ext=0, use_factor=True, unit=None):
    """-> array [k or 0][level] (kind vector: [..][level][component]) in (value unit)/(integer energy unit)^fder"""
    unit = unit_of(grid) if unit is None else unit
    dk = DuckDataK(E, unit)
    calc = synth_calculator(kind, fder)(Efermi=levels(grid, ext, unit), degen_thresh=th * unit, degen_Kramers=kr, k_resolved=kres,
                                        select_bands=selarr(sel), kwargs_formula=dict(vals=V), use_factor=use_factor)
    with quiet():
        res = calc(dk)
    data = np.array(res.data, dtype=float)
    data = data if kres else data[None]
    return data * (CELL_VOLUME / (FACTOR if use_factor else np.sign(FACTOR))) * unit ** fder     # value unit / (integer energy unit)^fder


def run_real_dos(E, th, kr, grid, fder, sel, kres, ext=0):
    """the real CumDOS (fder 0), DOS (fder 1) calculators, and StaticCalculator(Formula=Identity, fder=2|3)"""
    from wannierberri.calculators.static import CumDOS, DOS, StaticCalculator
    from wannierberri.formula.covariant import Identity
    unit = unit_of(grid)
    dk = DuckDataK(E, unit)
    kw = dict(Efermi=levels(grid, ext, unit), degen_thresh=th * unit, degen_Kramers=kr, k_resolved=kres, select_bands=selarr(sel))
    with quiet():
        if fder == 0:
            res = CumDOS(**kw)(dk)
        elif fder == 1:
            res = DOS(**kw)(dk)
        else:
            res = StaticCalculator(Formula=Identity, fder=fder, **kw)(dk) * dk.cell_volume
    data = np.array(res.data, dtype=float)
    data = data if kres else data[None, :]
    return data * unit ** fder


def real_name(fder):
    return "CumDOS" if fder == 0 else "DOS" if fder == 1 else f"StaticCalculator(Identity,fder={fder})"


def stencil(x, fder, d_over_q):
    """the n-th central difference of the rows of x (extended grid), step h = d/Q (integer energy units)"""
    h = d_over_q
    if fder == 0:
        return x
    if fder == 1:
        return (x[:, 2:] - x[:, :-2]) / (2 * h)
    if fder == 2:
        return (x[:, 2:] - 2 * x[:, 1:-1] + x[:, :-2]) / h ** 2
    d2 = (x[:, 2:] - 2 * x[:, 1:-1] + x[:, :-2]) / h ** 2
    return (d2[:, 2:] - d2[:, :-2]) / (2 * h)


def close(got, exp):
    got = np.asarray(got, dtype=float)
    exp = np.asarray(exp, dtype=float)
    return got.shape == exp.shape and bool(np.all(np.abs(got - exp) <= RTOL * np.maximum(1.0, np.abs(exp))))


EXTRA = {0: 0, 1: 1, 2: 1, 3: 2}


def py_borders(E, th, kr):
    """Bands.Borders in Python (choice of admissible random inputs only; TLC checks the clause `admissible` again)"""
    b = [0] + [i for i in range(1, len(E)) if E[i] - E[i - 1] > th] + [len(E)]
    if kr:
        b = [i for i in b if i % 2 == 0 or i == len(E)]
    return list(zip(b, b[1:]))


def call(rep, site, inputs, fn, *a, **kw):
    """lib_call + the harness's own signal for a wrong use of a non-additive formula"""
    try:
        return lib_call(rep, site, inputs, fn, *a, **kw)
    except NonPrefixTrace as ex:
        rep.violation("StaticCalculator:nonadditive:non_prefix_trace",
                      dict(inputs, what=f"a formula with additive=False was asked for the {ex}: for such formulas only the traces over the "
                                        "lowest n bands are defined (states below a level), group values are differences of them"))
        return False, None
    except PrivateGone as ex:
        raise MachineryError(f"the duck-typed data_K does not carry the calculator any more: {ex}")


def replay_state(rep, s, cls, idx):
    E = [list(x) for x in s["E"]]
    nk, nb = len(E), len(E[0])
    vm = s["vmode"]
    V = [[1 if vm == "ones" else 5 ** (k * nb + b) for b in range(nb)] for k in range(nk)]
    th, kr, grid, fder, kres = s["th"], s["kr"], s["grid"], s["fder"], s["kres"]
    sel = sorted(s["sel"]["bands"]) if s["sel"]["on"] else None
    exp = np.array([[Fraction(x[0], x[1]) for x in row] for row in s["res"]], dtype=object)
    expf = exp.astype(float)
    unit = unit_of(grid)
    inputs = dict(E=E, unit=unit, values=V, th=th, kramers=kr, grid=grid, fder=fder, k_resolved=kres, select_bands=sel)
    key = ("scan", tuple(map(tuple, E)), vm, th, kr, tuple(sorted(grid.items())), fder, kres, tuple(sel) if sel else None)
    nontrivial = bool(np.any(expf != 0))
    tag = (":k_resolved" if kres else "") + (":select_bands" if sel else "") + (":single_level" if grid["n"] == 1 else "")
    expstr = [[str(x) for x in row] for row in exp]
    note = "values in (value unit)/(energy unit)^fder, after removing constant factor and cell volume"
    got = None
    for kind in ("additive", "nonadditive", "vector"):
        ok, g = call(rep, f"StaticCalculator:{kind}", inputs, run_synth, E, V, th, kr, grid, fder, sel, kres, kind)
        rep.case(key + (kind,), nontrivial=nontrivial)
        if not ok:
            continue
        want = expf[..., None] * VEC if kind == "vector" else expf
        if not close(g, want):
            rep.violation(f"StaticCalculator:fder{fder}:{kind}" + tag, dict(inputs, expected=expstr, got=g.tolist(), note=note))
        if kind == "additive":
            got = g
    if idx % 3 == 0:
        ok, g = call(rep, "StaticCalculator:use_factor_false", inputs, run_synth, E, V, th, kr, grid, fder, sel, kres, "additive", use_factor=False)
        rep.case(key + ("nofactor",), nontrivial=nontrivial)
        cls["use_factor_false"] += 1
        if ok and not close(g, expf):
            rep.violation(f"StaticCalculator:fder{fder}:use_factor_false" + tag, dict(inputs, expected=expstr, got=g.tolist(),
                                                                                      note="use_factor=False: only the sign of the constant factor is applied"))
    cls["fder%d" % fder] += 1
    cls["kres"] += kres
    cls["select"] += sel is not None
    cls["kramers"] += kr
    cls["kramers_odd_num_wann"] += kr and nb % 2 == 1
    cls["single_level"] += grid["n"] == 1
    cls["single_level_nonzero"] += grid["n"] == 1 and nontrivial
    cls["wide_group"] += any(Ek[b - 1] > Ek[a] for Ek in E for a, b in py_borders(Ek, th, kr))
    for b in s["taken"]:          # "above" needs EFmax inside the span of a group: excluded by NoLevelInsideGroup
        cls["branch_" + b] = cls.get("branch_" + b, 0) + 1
    # relation between two real calculations: fder=n vs central difference of fder=0 on the extended grid
    if got is not None and fder > 0 and sel is None:
        ok, sea = call(rep, "StaticCalculator:additive", inputs, run_synth, E, V, th, kr, grid, 0, None, kres, "additive", ext=EXTRA[fder], unit=unit)
        if ok:
            fd = stencil(sea, fder, grid["d"] / grid["Q"])
            rep.case(key + ("fd",), nontrivial=nontrivial)
            if not close(got, fd):
                rep.violation(f"StaticCalculator:fder{fder}:vs_difference_of_sea", dict(inputs, sea_on_extended_grid=sea.tolist(), difference=fd.tolist(), got=got.tolist()))
            cls["fd_relation"] += 1
    if got is not None and kres:
        ok, un = call(rep, "StaticCalculator:additive", inputs, run_synth, E, V, th, kr, grid, fder, sel, False, "additive")
        if ok:
            rep.case(key + ("ksum",), nontrivial=nontrivial)
            if not close(got.sum(axis=0)[None, :] / nk, un):
                rep.violation(f"StaticCalculator:fder{fder}:k_resolved_sum", dict(inputs, k_resolved=got.tolist(), unresolved=un.tolist()))
    if vm == "ones":
        name = real_name(fder)
        ok, gd = call(rep, name, inputs, run_real_dos, E, th, kr, grid, fder, sel, kres)
        rep.case(key + ("real",), nontrivial=nontrivial)
        cls["real_" + ("CumDOS" if fder == 0 else "DOS" if fder == 1 else "Identity")] += 1
        cls["real_select"] += sel is not None
        if ok and not close(gd, expf):
            rep.violation(name + tag, dict(inputs, expected=expstr, got=gd.tolist()))
        if ok and fder == 0 and not kres and gd.shape == expf.shape:
            lv = [Fraction(grid["a"] + i * grid["d"], grid["Q"]) for i in range(grid["n"])]
            lo = min(min(e) for e in E)
            hi = max(max(e) for e in E)
            for i, x in enumerate(lv):
                if x < lo and abs(gd[0, i]) > 1e-12:
                    rep.violation("CumDOS:below_all_bands", dict(inputs, level=i, got=float(gd[0, i])))
                if x > hi and abs(gd[0, i] - nb) > 1e-12:
                    rep.violation("CumDOS:above_all_bands", dict(inputs, level=i, got=float(gd[0, i]), num_wann=nb))
            if np.any(np.diff(gd[0]) < -1e-12):
                rep.violation("CumDOS:monotone", dict(inputs, got=gd.tolist()))
    return inputs, exp


def model_runs(thorough):
    """(name, constants, number of replays).  a = x - ASHIFT for x in AS1; odd a with Q = 2 and d = 4 puts consecutive levels on both
    sides of a group of two adjacent energies (NoLevelInsideGroup keeps those)"""
    if thorough:
        return [("c13_nk1", dict(NK=1, NBS="{1, 2, 3, 4}", EMAX=3, THS="{0, 2}", QS="{2}", AS1=tlaset([0, 11]), ASHIFT=5,
                                 DS="{1, 4}", NS="{1, 4}", SELS="{{}, {0}, {1, 2}, {0, 3}}", WrongBinning="FALSE", InsideMode='"outside"'), 4000),
                ("c13_nk1b", dict(NK=1, NBS="{1, 2, 3, 4}", EMAX=3, THS="{1}", QS="{4}", AS1=tlaset([1, 6, 11]), ASHIFT=4,
                                  DS="{2, 6}", NS="{1, 5}", SELS="{{}, {1}, {2, 3}}", WrongBinning="FALSE", InsideMode='"outside"'), 2500),
                ("c13_nk2", dict(NK=2, NBS="{1, 2}", EMAX=2, THS="{0, 1}", QS="{2}", AS1=tlaset([1]), ASHIFT=4,
                                 DS="{1, 4}", NS="{1, 4}", SELS="{{}, {1}}", WrongBinning="FALSE", InsideMode='"outside"'), 3000),
                ("c13_nk2b", dict(NK=2, NBS="{3}", EMAX=1, THS="{0, 1}", QS="{2}", AS1=tlaset([1]), ASHIFT=4,
                                  DS="{4}", NS="{1, 4}", SELS="{{}, {1}, {0, 2}}", WrongBinning="FALSE", InsideMode='"outside"'), 1500)]
    return [("c13_nk1", dict(NK=1, NBS="{1, 2, 3}", EMAX=2, THS="{0, 1}", QS="{2}", AS1=tlaset([0, 5]), ASHIFT=3,
                             DS="{1, 4}", NS="{1, 4}", SELS="{{}, {0}, {1, 2}}", WrongBinning="FALSE", InsideMode='"outside"'), 600),
            ("c13_nk2", dict(NK=2, NBS="{2}", EMAX=1, THS="{0, 1}", QS="{4}", AS1=tlaset([2]), ASHIFT=3,
                             DS="{6}", NS="{1, 3}", SELS="{{}, {1}}", WrongBinning="FALSE", InsideMode='"outside"'), 300)]


def inside_runs(thorough):
    """inputs where a level of the (extended) grid lies inside the energy span of a group (th > 0): Q = 4 and odd a put the levels on odd
    quarters, which never coincide with a group mean of 2 or 3 integer energies (NoTie) and fall inside groups of adjacent energies"""
    if thorough:
        return [("c13_in1", dict(NK=1, NBS="{2, 3, 4}", EMAX=2, THS="{1, 2}", QS="{4}", AS1=tlaset([4, 6, 9]), ASHIFT=3, DS="{2, 6}", NS="{3}",
                                 SELS="{{}}", WrongBinning="FALSE", InsideMode='"inside"'), 1500),
                ("c13_in2", dict(NK=2, NBS="{2}", EMAX=2, THS="{1}", QS="{4}", AS1=tlaset([4, 6]), ASHIFT=3, DS="{2}", NS="{3}",
                                 SELS="{{}}", WrongBinning="FALSE", InsideMode='"inside"'), 1000),
                ("c13_in3", dict(NK=1, NBS="{2, 3, 4}", EMAX=3, THS="{2, 3}", QS="{4}", AS1=tlaset([10, 12, 14, 16]), ASHIFT=3, DS="{2}", NS="{6, 8}",
                                 SELS="{{}}", WrongBinning="FALSE", InsideMode='"inside"'), 1500)]
    return [("c13_in1", dict(NK=1, NBS="{2, 3}", EMAX=2, THS="{1, 2}", QS="{4}", AS1=tlaset([4, 6]), ASHIFT=3, DS="{2}", NS="{3}",
                             SELS="{{}}", WrongBinning="FALSE", InsideMode='"inside"'), 260),
            ("c13_in2", dict(NK=2, NBS="{2}", EMAX=1, THS="{1}", QS="{4}", AS1=tlaset([4]), ASHIFT=3, DS="{2}", NS="{3}",
                             SELS="{{}}", WrongBinning="FALSE", InsideMode='"inside"'), 140),
            # threshold 3 units = 6 Fermi steps of 1/2 unit, six levels: a group 0..3 straddles the lowest level with its mean 1.5 .. 2.5 steps below
            ("c13_in3", dict(NK=1, NBS="{2, 3}", EMAX=3, THS="{3}", QS="{4}", AS1=tlaset([12, 14, 16]), ASHIFT=3, DS="{2}", NS="{6}",
                             SELS="{{}}", WrongBinning="FALSE", InsideMode='"inside"'), 200)]


def sea_bounds(E, V, th, kr, grid, ext, upper):
    """FermiScan.SeaBoundRowK in Python: [k][level of the grid extended by ext] ; whole groups, a group whose top band is <= the level is
    counted, one that contains the level may be counted (upper: if its value is positive, lower: if negative)"""
    Q = grid["Q"]
    out = []
    for Ek, Vk in zip(E, V):
        row = []
        for i in range(grid["n"] + 2 * ext):
            x = Fraction(grid["a"] + (i - ext) * grid["d"], Q)
            t = 0
            for a, b in py_borders(Ek, th, kr):
                c = sum(Vk[a:b])
                if Ek[b - 1] <= x:
                    t += c
                elif Ek[a] <= x:
                    t += max(c, 0) if upper else min(c, 0)
            row.append(t)
        out.append(row)
    return np.array(out, dtype=float)


def within(got, lo, hi):
    tol = RTOL * np.maximum(1.0, np.maximum(np.abs(lo), np.abs(hi)))
    return got.shape == lo.shape and bool(np.all(got >= lo - tol) and np.all(got <= hi + tol))


def replay_inside(rep, s, cls):
    """a level lies inside the span of a group: no exact values (the representative energy of a group is the implementation's choice), but
    (i) whole groups / every band at most once: bounds of the sea, (ii) CumDOS monotone, 0 below, num_wann above, (iii) fder = n is the n-th
    central difference of the code's own sea on the extended grid, (iv) k-resolved summed = unresolved"""
    E = [list(x) for x in s["E"]]
    nk, nb = len(E), len(E[0])
    vm = s["vmode"]
    V = [[1 if vm == "ones" else 5 ** (k * nb + b) for b in range(nb)] for k in range(nk)]
    th, kr, grid, fder, kres = s["th"], s["kr"], s["grid"], s["fder"], s["kres"]
    ex = EXTRA[fder]
    inputs = dict(E=E, unit=U, values=V, th=th, kramers=kr, grid=grid, fder=fder, k_resolved=kres, select_bands=None,
                  note="a level of the (extended) Fermi grid lies inside the energy span of a degenerate group")
    key = ("inside", tuple(map(tuple, E)), vm, th, kr, tuple(sorted(grid.items())), fder, kres)
    lo, hi = sea_bounds(E, V, th, kr, grid, ex, False), sea_bounds(E, V, th, kr, grid, ex, True)
    if not kres:
        lo, hi = lo.sum(axis=0)[None] / nk, hi.sum(axis=0)[None] / nk
    tag = ":k_resolved" if kres else ""
    for kind in ("additive", "nonadditive", "vector"):
        site = f"StaticCalculator:{kind}"
        ok, sea = call(rep, site, inputs, run_synth, E, V, th, kr, grid, 0, None, kres, kind, ext=ex, unit=U)
        rep.case(key + (kind,))
        if not ok:
            continue
        scale = VEC if kind == "vector" else 1.0
        L, H = (lo[..., None] * scale, hi[..., None] * scale) if kind == "vector" else (lo, hi)
        if not within(sea, L, H):
            rep.violation(f"StaticCalculator:fder0:{kind}:sea_outside_group_bounds" + tag,
                          dict(inputs, levels="extended grid", lower=lo.tolist(), upper=hi.tolist(), got=sea.tolist(),
                               what="lower: groups whose top band is <= the level, upper: groups whose bottom band is <= the level (whole groups, "
                                    "every band at most once)"))
        if fder > 0:
            ok, got = call(rep, site, inputs, run_synth, E, V, th, kr, grid, fder, None, kres, kind)
            if ok:
                fd = stencil(sea, fder, grid["d"] / grid["Q"])
                if not close(got, fd):
                    rep.violation(f"StaticCalculator:fder{fder}:vs_difference_of_sea", dict(inputs, kind=kind, sea_on_extended_grid=sea.tolist(),
                                                                                          difference=fd.tolist(), got=got.tolist()))
        else:
            got = sea
        if ok and kres and kind == "additive":
            ok2, un = call(rep, site, inputs, run_synth, E, V, th, kr, grid, fder, None, False, kind)
            if ok2 and not close(got.sum(axis=0)[None, :] / nk, un):
                rep.violation(f"StaticCalculator:fder{fder}:k_resolved_sum", dict(inputs, k_resolved=got.tolist(), unresolved=un.tolist()))
    if vm == "ones":
        ok, cum = call(rep, "CumDOS", inputs, run_real_dos, E, th, kr, grid, 0, None, kres, ex)
        rep.case(key + ("real",))
        cls["real_CumDOS"] += 1
        if ok:
            if not within(cum, lo, hi):
                rep.violation("CumDOS:outside_group_bounds" + tag, dict(inputs, levels="extended grid", lower=lo.tolist(), upper=hi.tolist(), got=cum.tolist()))
            lv = [Fraction(grid["a"] + (i - ex) * grid["d"], grid["Q"]) for i in range(grid["n"] + 2 * ex)]
            for r in range(cum.shape[0]):
                Es = [E[r]] if kres else E
                for i, x in enumerate(lv):
                    if all(x < min(e) for e in Es) and abs(cum[r, i]) > 1e-12:
                        rep.violation("CumDOS:below_all_bands", dict(inputs, level=i, got=float(cum[r, i])))
                    if all(x > max(e) for e in Es) and abs(cum[r, i] - nb) > 1e-12:
                        rep.violation("CumDOS:above_all_bands", dict(inputs, level=i, got=float(cum[r, i]), num_wann=nb))
                if np.any(np.diff(cum[r]) < -1e-12):
                    rep.violation("CumDOS:monotone", dict(inputs, got=cum.tolist()))
            if fder > 0:
                ok, gd = call(rep, real_name(fder), inputs, run_real_dos, E, th, kr, grid, fder, None, kres)
                if ok and not close(gd, stencil(cum, fder, grid["d"] / grid["Q"])):
                    rep.violation(real_name(fder) + ":vs_difference_of_CumDOS", dict(inputs, CumDOS_on_extended_grid=cum.tolist(), got=gd.tolist()))
    cls["states"] += 1
    cls["fder%d" % fder] += 1
    cls["kres"] += kres
    cls["kramers"] += kr
    cls["lowest_level_inside_group"] += bool(s["lowin"])
    cls["lowest_level_inside_group_sea"] += bool(s["lowin"]) and fder == 0
    cls["group_mean_more_than_one_step_below_lowest_level"] += bool(s["farbelow"])
    cls["top_level_above_all_bands"] += (grid["a"] + (grid["n"] - 1 + ex) * grid["d"]) > max(max(e) for e in E) * grid["Q"]
    return inputs


def part_model(rep, thorough, rng):
    runs = model_runs(thorough)
    iruns = inside_runs(thorough)
    cls = {k: 0 for k in ["fder0", "fder1", "fder2", "fder3", "kres", "select", "kramers", "branch_below", "branch_bin", "branch_seagroup",
                          "kramers_odd_num_wann", "fd_relation", "real_CumDOS", "real_DOS", "real_Identity", "real_select", "use_factor_false", "single_level",
                          "single_level_nonzero", "wide_group"]}
    # sensitivity: binning with floor instead of ceil must be rejected by TLC
    sens = dict(NK=1, NBS="{1, 2}", EMAX=2, THS="{0}", QS="{2}", AS1="{0, 2}", ASHIFT=3, DS="{2}", NS="{3}", SELS="{{}}", WrongBinning="TRUE", InsideMode='"outside"')
    jobs = {name: ("MC_FermiScan.tla", cfg_of(consts, INV), True) for name, consts, _ in runs + iruns}
    jobs["c13_wrongbin"] = ("MC_FermiScan.tla", cfg_of(sens, ["EqualsDeclarative"]), False)
    res = tlc_jobs(jobs, WORKERS)
    st0 = res["c13_wrongbin"]
    if not st0.get("violation"):
        raise MachineryError("sensitivity self-test failed: WrongBinning=TRUE must violate EqualsDeclarative")
    rep.part("c13_wrongbin", sensitivity_violation=st0["violation"][1])
    for name, consts, nreplay in runs:
        st = res[name]
        ftable.spec_violation(rep, st, name)
        rep.add_tlc(name, st)
        done = [s for s in ftable.dump_states(st) if s["pc"] == "done"]
        if not done:      # finished states are reached through Accumulate (once per k-point) and Differences only: non-vacuity of both actions
            raise MachineryError(f"no finished state in the dump of {name}")
        # deterministic selection: stratified by (fder, kres, select, vmode, kramers, single level), seeded
        done.sort(key=lambda s: repr((s["E"], s["vmode"], s["th"], s["kr"], sorted(s["grid"].items()), s["fder"], s["sel"]["on"],
                                       sorted(s["sel"]["bands"]), s["kres"])))
        rng.shuffle(done)
        strata = {}
        for s in done:
            strata.setdefault((s["fder"], s["kres"], s["sel"]["on"], s["vmode"], s["kr"], s["grid"]["n"] == 1), []).append(s)
        chosen = []
        while len(chosen) < min(nreplay, len(done)):
            for k in sorted(strata):
                if strata[k]:
                    chosen.append(strata[k].pop())
        for i, s in enumerate(chosen):
            inputs, exp = replay_state(rep, s, cls, i)
            if i < 2:
                rep.sample(dict(fn="StaticCalculator.__call__", **inputs, exact=[[str(x) for x in row] for row in exp]))
        rep.part(name + "_replay", finished_states=len(done), replayed=len(chosen))
    for k, v in cls.items():
        if v == 0:
            raise MachineryError(f"vacuous replay class {k}")
    rep.part("c13_replay_classes", **cls)
    # inputs with a level inside a group: representation-free clauses
    icls = {k: 0 for k in ["states", "fder0", "fder1", "fder2", "fder3", "kres", "kramers", "real_CumDOS", "lowest_level_inside_group",
                           "lowest_level_inside_group_sea", "top_level_above_all_bands",
                           "group_mean_more_than_one_step_below_lowest_level"]}
    for name, consts, nreplay in iruns:
        st = res[name]
        ftable.spec_violation(rep, st, name)
        rep.add_tlc(name, st)
        done = [s for s in ftable.dump_states(st) if s["pc"] == "done"]
        if not done or not all(s["inside"] for s in done):
            raise MachineryError(f"the dump of {name} has no finished state / states without a level inside a group")
        done.sort(key=lambda s: repr((s["E"], s["vmode"], s["th"], s["kr"], sorted(s["grid"].items()), s["fder"], s["kres"])))
        rng.shuffle(done)
        done.sort(key=lambda s: (not s["farbelow"], not (s["lowin"] and s["fder"] == 0)))    # far-below means, then the sea with the lowest level inside a group first (stable)
        chosen = done[:nreplay]
        for i, s in enumerate(chosen):
            inputs = replay_inside(rep, s, icls)
            if i < 1:
                rep.sample(dict(fn="StaticCalculator.__call__ (level inside a group)", **inputs))
        rep.part(name + "_replay", finished_states=len(done), replayed=len(chosen))
    for k, v in icls.items():
        if v == 0:
            raise MachineryError(f"vacuous replay class (level inside a group) {k}")
    rep.part("c13_inside_group_classes", **icls)


def part_kramers_odd(rep):
    """explicit deciding case next to the model's states: degen_Kramers=True with an odd number of Wannier functions, CumDOS above all bands"""
    E, grid = [[0, 1, 2]], dict(Q=1, a=-1, d=2, n=3)          # levels -1, 1, 3 (units 1/8): the last one is above all bands
    inputs = dict(E=E, unit=U, th=0, kramers=True, grid=grid, fder=0)
    ok, gd = call(rep, "CumDOS", inputs, run_real_dos, E, 0, True, grid, 0, None, False)
    rep.case(("kramers_odd", 3))
    if ok and (gd.shape != (1, 3) or abs(gd[0, -1] - 3) > 1e-12 or abs(gd[0, 0]) > 1e-12):
        rep.violation("CumDOS:above_all_bands", dict(inputs, got=gd.tolist(), num_wann=3,
                                                      note="degen_Kramers=True with an odd number of bands: the highest band must stay in a group"))


def integral(x):
    r = np.rint(x)
    if np.any(np.abs(x - r) > 1e-6 * np.maximum(1.0, np.abs(r))):
        return None
    return [[int(v) for v in row] for row in r]


def part_records(rep, thorough, rng):
    recs = []
    nrec = 1500 if thorough else 180
    stats = dict(inside_group=0, lowest_level_inside_group_sea=0, group_mean_more_than_one_step_below_lowest_level=0, kramers=0, kramers_odd=0, select=0, fder0=0, fder3=0, nonadditive=0, single_level=0, wide_group=0)
    tries = 0
    nonint = 0
    while len(recs) < nrec:
        tries += 1
        if tries > 80 * nrec:
            raise MachineryError("record generator cannot find admissible inputs")
        nk = rng.randint(1, 3)
        nb = rng.randint(1, 4)
        single = rng.random() < 0.12
        th = 0 if single else rng.choice([0, 1, 2, 3])
        kr = rng.random() < 0.3
        E = []
        for _ in range(nk):
            if kr:
                half = sorted(rng.randint(0, 40) for _ in range(nb // 2))
                Ek = sorted(x + dx for x in half for dx in (0, rng.randint(0, th)))
                if any(Ek[2 * j + 1] - Ek[2 * j] > th for j in range(nb // 2)):
                    Ek = [x for x in half for _ in (0, 1)]
                if nb % 2:
                    Ek = Ek + [(Ek[-1] if Ek else rng.randint(0, 40)) + rng.randint(0, 6)]       # the highest band has no partner
            else:
                Ek = sorted(rng.choice([0, 5, 5, 9, 17, 30]) + rng.randint(0, 4) for _ in range(nb))
            E.append(Ek)
        V = [[rng.randint(-20, 20) for _ in range(nb)] for _ in range(nk)]
        fder = rng.randint(0, 3)
        Q = rng.choice([1, 2, 4, 8])
        grid = dict(Q=Q, a=rng.randint(-6 * Q, 40 * Q), d=rng.randint(1, 3 * Q), n=1 if single else rng.randint(2, 12))
        if single:
            # put the level next to a band so that the single-level result is not trivially zero
            e0 = rng.choice(rng.choice(E))
            grid["a"] = e0 * Q + rng.choice([-1, 1]) * rng.randint(1, max(1, grid["d"] - 1))
        sel = None
        if fder > 0 and rng.random() < 0.3:
            sel = sorted(rng.sample(range(nb), rng.randint(1, nb)))
        additive = rng.random() < 0.6
        if not single and th > 0 and nb >= 2 and rng.random() < 0.35:
            # targeted class: the lowest level of the (extended) scan inside a group, with a band of the group strictly below it
            Ek = E[rng.randrange(nk)]
            j = rng.randrange(nb - 1)
            if not 0 < Ek[j + 1] - Ek[j] <= th and not kr:
                Ek[j + 1:] = [x - Ek[j + 1] + Ek[j] + rng.randint(1, th) for x in Ek[j + 1:]]
            if 0 < Ek[j + 1] - Ek[j] <= th:
                grid["a"] = Q * Ek[j] + rng.randint(1, Q * (Ek[j + 1] - Ek[j])) + EXTRA[fder] * grid["d"]
        if not single and nb >= 2 and not kr and rng.random() < 0.2:
            # targeted class: threshold of 6 Fermi steps, a pair 3 units apart straddles the lowest level, its mean >= 1.5 steps below it
            th = 3
            Ek = E[rng.randrange(nk)]
            j = rng.randrange(nb - 1)
            Ek[j + 1:] = [x - Ek[j + 1] + Ek[j] + 3 for x in Ek[j + 1:]]
            Q = grid["Q"] = rng.choice([2, 4, 8])
            grid["d"] = Q // 2
            grid["n"] = rng.randint(6, 12)
            grid["a"] = Q * Ek[j] + 3 * Q - rng.randint(0, (3 * Q) // 4) + EXTRA[fder] * grid["d"]
        # named exclusion NoTie; levels inside a group are kept as the class `inside` (both checked again by TLC: clause admissible)
        ex = EXTRA[fder]
        lv = [Fraction(grid["a"] + (i - ex) * grid["d"], Q) for i in range(grid["n"] + 2 * ex)]
        tie = wide = inside = lowin = farbelow = False
        for Ek in E:
            for a, b in py_borders(Ek, th, kr):
                if Fraction(sum(Ek[a:b]), b - a) in lv:
                    tie = True
                if b - a > 1 and any(Ek[a] <= x <= Ek[b - 1] for x in lv):
                    inside = True
                if Ek[a] < lv[0] <= Ek[b - 1]:
                    lowin = True
                if b - a > 1 and Ek[b - 1] >= lv[0] and Fraction(sum(Ek[a:b]), b - a) <= lv[0] - Fraction(3 * grid["d"], 2 * Q):
                    farbelow = True
                wide = wide or Ek[b - 1] > Ek[a]
        if tie:
            continue
        inputs = dict(E=E, values=V, th=th, kramers=kr, grid=grid, fder=fder, select_bands=sel, unit=unit_of(grid))
        outs = {}
        bad = False
        for kres in (True, False):
            ok, got = call(rep, "StaticCalculator:" + ("additive" if additive else "nonadditive"), dict(inputs, k_resolved=kres),
                           run_synth, E, V, th, kr, grid, fder, sel, kres, "additive" if additive else "nonadditive")
            if not ok:
                bad = True
                break
            cn = {0: 1, 1: 2, 2: 1, 3: 2}[fder]
            N = got * SELUNIT * cn * (grid["d"] / Q) ** fder * (1 if kres else nk)
            Ni = integral(N) if N.ndim == 2 else None
            if Ni is None:
                nonint += 1
                rep.violation(f"StaticCalculator:fder{fder}:nonintegral", dict(inputs, k_resolved=kres, got=got.tolist(), numerators=N.tolist()))
                bad = True
            outs[kres] = Ni
        seaK = [[] for _ in E]
        if not bad and sel is None:
            # the code's own Fermi sea on the extended grid (k-resolved): numerators in 1/SELUNIT
            if fder == 0:
                seaK = outs[True]
            else:
                ok, sea = call(rep, "StaticCalculator:" + ("additive" if additive else "nonadditive"), dict(inputs, k_resolved=True, fder=0, extended_grid=ex),
                               run_synth, E, V, th, kr, grid, 0, None, True, "additive" if additive else "nonadditive", ext=ex)
                seaK = integral(sea * SELUNIT) if ok and sea.ndim == 2 else None
                if seaK is None:
                    if ok:
                        rep.violation("StaticCalculator:fder0:nonintegral", dict(inputs, fder=0, extended_grid=ex, got=sea.tolist()))
                    bad = True
        if bad:
            if nonint > 200:
                break           # a systematic deviation: the violations are recorded, TLC validation of the rest adds nothing
            continue
        recs.append(dict(E=E, V=V, th=th, kr=kr, grid=grid, fder=fder, selon=sel is not None, sel=sel or [], additive=additive,
                         outK=outs[True], outU=outs[False][0], inside=inside, seaK=seaK))
        stats["inside_group"] += inside
        stats["lowest_level_inside_group_sea"] += lowin and sel is None
        stats["group_mean_more_than_one_step_below_lowest_level"] += farbelow and sel is None
        stats["kramers"] += kr
        stats["kramers_odd"] += kr and nb % 2 == 1
        stats["select"] += sel is not None
        stats["fder0"] += fder == 0
        stats["fder3"] += fder == 3
        stats["nonadditive"] += not additive
        stats["single_level"] += single
        stats["wide_group"] += wide
        rep.case(("rec", len(recs), tuple(map(tuple, E)), fder, tuple(sorted(grid.items()))))
    if not recs:
        return
    if not rep.violations:
        for k, v in stats.items():
            if v == 0:
                raise MachineryError(f"vacuous record class {k}")
    stv, bad = validate_parallel("FermiScanRec.tla", REC_CFG, recs, "c13", 2)
    rep.add_tlc("c13_records", stv)
    rep.add_traces(len(recs))
    rep.part("c13_records", **stats)
    for i, clauses in sorted(bad.items()):
        r = recs[i]
        if "admissible" in clauses:
            raise MachineryError(f"the harness recorded an inadmissible input: {r}")
        rep.violation(f"StaticCalculator:fder{r['fder']}:recorded" + (":select_bands" if r["selon"] else "") + (":single_level" if r["grid"]["n"] == 1 else "") +
                      (":level_inside_group" if r["inside"] else ""),
                      dict(record=r, failing_clauses=clauses, unit=unit_of(r["grid"]),
                           note="out* = result * 12 * c_n * dEF^n * (nk if unresolved) in integer units"))
    rep.sample(recs[0])
    cand = [r for r in recs if any(any(row) for row in r["outK"])][:1]
    if not cand:
        raise MachineryError("no non-zero record for the binding self-test")
    b = copy.deepcopy(cand)
    row = next((j for j, rw in enumerate(b[0]["outK"]) if any(rw)), 0)
    col = next((j for j, x in enumerate(b[0]["outK"][row]) if x), 0)
    b[0]["outK"][row][col] += SELUNIT
    _, b2 = validate_records("FermiScanRec.tla", REC_CFG, b, "c13_selftest")
    if 0 not in b2:
        raise MachineryError("binding self-test failed: corrupted StaticCalculator record accepted")
    rep.part("binding_selftest", corrupted_record_rejected=b2[0])


REAL_RTOL = 1e-7        # >= 1e4 x the deviation observed on the unchanged tree (see PROPS note / evidence part real_run)


def part_real_run(rep):
    """one real wb.run on a tiny tight-binding model (pythtb Haldane): real Data_K, real formulas (Identity: additive,
    Omega: Berry curvature).  StaticCalculator(Formula, fder=n) against the n-th central difference of StaticCalculator(Formula,
    fder=0) evaluated on the grid extended by two points.  The Fermi grid is a binary fraction (step 1/8, offset -2.51171875), so
    both calculators bin every state between the same exactly representable edges and differ by rounding of sums only."""
    import shutil
    wd = os.path.join(WORK, uniq("c13_real"))
    try:
        try:
            import wannierberri as wb
            import wannierberri.models
            from wannierberri.calculators.static import StaticCalculator
            from wannierberri.formula import covariant as frml
            formulas = (("Identity", frml.Identity), ("Omega", frml.Omega))
        except (ImportError, AttributeError) as ex:
            rep.part("real_run", skipped=f"{type(ex).__name__}: {str(ex)[:200]}")
            return
        os.makedirs(wd, exist_ok=True)
        h, n, e0 = 0.125, 12, -2.51171875
        ef = np.arange(n) * h + e0
        efx = np.arange(-2, n + 2) * h + e0
        calcs = {}
        for fname, F in formulas:
            calcs[f"{fname}_sea"] = StaticCalculator(Efermi=efx, Formula=F, fder=0, degen_thresh=1e-6)
            for fder in (1, 2, 3):
                calcs[f"{fname}_{fder}"] = StaticCalculator(Efermi=ef, Formula=F, fder=fder, degen_thresh=1e-6)

        def run():
            with quiet():
                system = wb.system.System_R.from_pythtb(wb.models.Haldane_ptb(delta=0.2, hop1=-1.0, hop2=0.15), berry=True)
                grid = wb.Grid(system, NK=[6, 6, 1], NKFFT=[3, 3, 1])
                return wb.run(system, grid=grid, calculators=calcs, adpt_num_iter=0, use_irred_kpt=False, symmetrize=False,
                              fout_name=os.path.join(wd, "x"), dump_results=False, parallel=False)
        ok, res = lib_call(rep, "run:StaticCalculator", dict(model="Haldane_ptb(delta=0.2, hop1=-1, hop2=0.15)", NK=[6, 6, 1], Efermi=ef.tolist()), run)
        if not ok:
            return
        worst = {}
        for fname, _ in formulas:
            sea = np.moveaxis(np.asarray(res.results[f"{fname}_sea"].data), 0, -1)          # [..., level of the extended grid]
            for fder in (1, 2, 3):
                ex = EXTRA[fder]
                seax = sea[..., 2 - ex:sea.shape[-1] - (2 - ex)]
                fd = stencil(seax.reshape(-1, seax.shape[-1]), fder, h).reshape(seax.shape[:-1] + (n,))
                d = np.moveaxis(np.asarray(res.results[f"{fname}_{fder}"].data), 0, -1)
                scale = float(np.max(np.abs(d)))
                dev = float(np.max(np.abs(d - fd)))
                worst[f"{fname}_fder{fder}"] = dict(max_abs=scale, deviation=dev)
                rep.case(("real_run", fname, fder), nontrivial=scale > 1e-3)
                if d.shape != fd.shape or dev > REAL_RTOL * max(1.0, scale):
                    rep.violation(f"real_run:{fname}:fder{fder}:vs_difference_of_sea",
                                  dict(model="pythtb Haldane(delta=0.2, hop1=-1, hop2=0.15), NK=6x6x1", Efermi=ef.tolist(), formula=fname, fder=fder,
                                       max_abs=scale, deviation=dev, tolerance=REAL_RTOL * max(1.0, scale),
                                       got=np.ravel(d)[:24].tolist(), difference_of_sea=np.ravel(fd)[:24].tolist()))
        if not all(v["max_abs"] > 1e-3 for v in worst.values()):
            raise MachineryError(f"the real run gives vanishing surface terms: {worst}")
        rep.part("real_run", fder_vs_central_difference_of_fder0=worst, relative_tolerance=REAL_RTOL)
    finally:
        shutil.rmtree(wd, ignore_errors=True)


def check(pid, tier):
    rep = Report(pid, tier, "model_checking")
    thorough = tier == "thorough"
    rng = random.Random(seed() * 7919 + 13)
    rep.rule("TLC enumerates every band structure / Fermi grid / threshold / fder / k_resolved / select_bands inside the constants (MC_FermiScan); a case "
             "= one finished TLC state (stratified seeded selection) replayed on the real StaticCalculator (additive, non-additive, rank-1, "
             "use_factor off, real CumDOS/DOS/Identity), plus the relations between real results, plus seeded random recorded calls validated by "
             "TLC, plus the six relations of one real run; distinct by input tuple")
    rep.assume("energies, Fermi levels, values, cell volume and factor are exactly representable; no Fermi level of the extended grid equals a group "
               "mean energy (NoTie); exact values are compared only where no level lies inside the span of a group of several bands (NoLevelInsideGroup), "
               "elsewhere the representation-free clauses")
    t = [os.times()]

    def lap(name):
        t.append(os.times())
        a, b = t[-2], t[-1]
        rep.part("cpu_s_by_part", **{name: round((b.user + b.system + b.children_user + b.children_system) - (a.user + a.system + a.children_user + a.children_system), 1)})
        rep.part("wall_s_by_part", **{name: round(b.elapsed - a.elapsed, 1)})

    def body():
        part_model(rep, thorough, rng)
        lap("tlc_models_and_replay")
        part_kramers_odd(rep)
        part_records(rep, thorough, rng)
        lap("records")
        part_real_run(rep)
        lap("real_run")
    return run_parts(rep, body)
