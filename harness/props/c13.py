"""C13: Fermi-level scans have the documented sea and surface semantics.

spec  : FermiScan.tla -- StaticCalculator.__call__ (non-tetra branch) in integers: extraEf / EFmin / EFmax, band groups in and
        below the scan window (Data_K.get_bands_in_range_groups_ik, Bands.tla), the three branches of the accumulation loop with
        iEf = ceil(...), the finite-difference stencils, k_resolved, select_bands weights; and the declarative meaning: the sea
        at a level = sum over whole degenerate groups with mean energy <= level, fder = n -> n-th central difference (D1, D2,
        D1 o D2) of that sea on the extended grid.  MC_FermiScan: every small input, accumulation k-point by k-point.
bind  : spec -> code: finished TLC states are replayed on the real StaticCalculator machinery (a subclass that sets Formula / fder
        like the real calculators, additive and non-additive synthetic formulas, and the real CumDOS / DOS / Identity formula) on
        a duck-typed data_K that uses the real Data_K.get_bands_in_range_groups; the sea/surface relation and the k-resolved
        sum are also evaluated between real results.  code -> spec: seeded random larger calls are recorded as integer
        numerators and validated by TLC against FermiScanRec.tla.
"""
import copy
import os
import random
from fractions import Fraction

import numpy as np

from .. import tlc, ftable
from ..common import Report, MachineryError, seed, quiet
from ._c1314_util import tlc_jobs, validate_parallel

PROPS = {
    "C13": dict(level="model_checking",
                technique="TLC exhaustive on FermiScan.tla (integer transcription of StaticCalculator.__call__ vs declarative sea / central-"
                          "difference semantics, all small inputs) + replay of finished TLC states on the real StaticCalculator / CumDOS / DOS "
                          "with a duck-typed data_K + TLC validation of recorded calls",
                text="TLC checks for every small band structure (<= 4 bands, <= 2 k-points), Fermi grid (spacing, count, offset), threshold, "
                     "derivative order, k_resolved and band selection that the transcription of the code equals: the sum over whole degenerate "
                     "groups below the level (sea), the n-th central difference of the sea on the extended grid (surface, n = 1..3; the "
                     "stencils are exact on polynomials of degree n+1), k-resolved summed = unresolved, CumDOS monotone / 0 below / num_wann "
                     "above; every selected state is executed on the real calculators and compared with the exact rational; random larger "
                     "real calls are validated by TLC.",
                note="energies are integers times 1/8 and Fermi levels multiples of 1/16 or 1/32, values integers, cell volume and constant factor "
                     "powers of two: all sums are exact in floating point, only the division by dEF^n rounds; comparison relative 1e-9 "
                     "(observed <= 3e-16). Named exclusion NoTie: no level of the extended Fermi grid coincides with the mean energy of a band "
                     "group (the bin index is a floating ceil of an integer-valued quotient). select_bands with fder=0 is refused by the code "
                     "(NotImplementedError) and not exercised; hole_like only flips the sign (no documented semantics) and is not exercised; "
                     "<= 4 bands when a band selection is used (weights are kept as integers/12).",
                ref="DESIGN.md 3.5, 7.2"),
}

U = 0.125
CELL_VOLUME = 2.0
FACTOR = -4.0
RTOL = 1e-9
SELUNIT = 12
WORKERS = int(os.environ.get("VERIF_TLC_WORKERS", "16"))
INV = ["StepwiseIsScan", "EqualsDeclarative", "SurfaceIsDifferenceOfSea", "KResolvedSumsToUnresolved", "CumDosShape", "NonAdditiveSame", "Stencils"]
REC_CFG = ftable.REC_CFG


def tlaset(xs):
    return "{" + ", ".join(str(x) for x in xs) + "}"


def cfg_of(constants, invariants):
    return "SPECIFICATION Spec\nCONSTANTS\n" + "".join(f"  {k} = {v}\n" for k, v in constants.items()) + \
           "".join(f"INVARIANT {i}\n" for i in invariants) + "CHECK_DEADLOCK FALSE\n"


class DuckDataK:
    """what StaticCalculator.__call__ (non-tetra) and frml.Identity touch; band grouping is the real Data_K code"""
    force_internal_terms_only = False

    def __init__(self, Ek):
        self.E_K = np.array(Ek, dtype=float) * U
        self.nk = self.E_K.shape[0]
        self.num_wann = self.E_K.shape[1]
        self.cell_volume = CELL_VOLUME

    def get_bands_in_range_groups_ik(self, *a, **kw):
        from wannierberri.data_K.data_K import Data_K
        return Data_K.get_bands_in_range_groups_ik(self, *a, **kw)

    def get_bands_in_range_groups(self, *a, **kw):
        from wannierberri.data_K.data_K import Data_K
        return Data_K.get_bands_in_range_groups(self, *a, **kw)


class BandFormula:
    """trace over a set of bands = sum of the integer band values"""
    ndim = 0
    additive = True

    def __init__(self, data_K, vals=None):
        from wannierberri.symmetry.point_symmetry import transform_ident
        self.vals = vals
        self.transformTR = transform_ident
        self.transformInv = transform_ident

    def trace(self, ik, inn, out):
        return np.float64(sum(self.vals[ik][b] for b in inn))


class BandFormulaNonAdditive(BandFormula):
    """only traces over the lowest n bands are meaningful (the code takes differences of them)"""
    additive = False

    def trace(self, ik, inn, out):
        inn = list(inn)
        if inn != list(range(len(inn))):
            raise MachineryError(f"non-additive formula asked for the trace over {inn}")
        return np.float64(sum(self.vals[ik][b] for b in inn))


_calc_classes = {}


def synth_calculator(additive, fder):
    """a StaticCalculator subclass built like the real ones (class sets Formula and fder, then StaticCalculator.__init__)"""
    from wannierberri.calculators.static import StaticCalculator
    key = (additive, fder)
    if key not in _calc_classes:
        class Synth(StaticCalculator):
            def __init__(self, **kwargs):
                self.Formula = BandFormula if additive else BandFormulaNonAdditive
                self.fder = fder
                super().__init__(constant_factor=FACTOR, **kwargs)
        _calc_classes[key] = Synth
    return _calc_classes[key]


def levels(grid, ext=0):
    Q, a, d, n = grid["Q"], grid["a"], grid["d"], grid["n"]
    return np.array([(a + (i - ext) * d) / Q for i in range(n + 2 * ext)], dtype=float) * U


def run_synth(E, V, th, kr, grid, fder, sel, kres, additive, ext=0):
    dk = DuckDataK(E)
    calc = synth_calculator(additive, fder)(Efermi=levels(grid, ext), degen_thresh=th * U, degen_Kramers=kr, k_resolved=kres,
                                            select_bands=None if sel is None else np.array(sorted(sel), dtype=int),
                                            kwargs_formula=dict(vals=V))
    with quiet():
        res = calc(dk)
    data = np.array(res.data, dtype=float)
    data = data if kres else data[None, :]
    return data * (CELL_VOLUME / FACTOR) * U ** fder          # exact rescaling: value unit / (integer energy unit)^fder


def run_real_dos(E, th, kr, grid, fder, sel, kres):
    """the real CumDOS (fder 0), DOS (fder 1) calculators, and StaticCalculator(Formula=Identity, fder=2|3)"""
    from wannierberri.calculators.static import CumDOS, DOS, StaticCalculator
    from wannierberri.formula.covariant import Identity
    dk = DuckDataK(E)
    kw = dict(Efermi=levels(grid), degen_thresh=th * U, degen_Kramers=kr, k_resolved=kres,
              select_bands=None if sel is None else np.array(sorted(sel), dtype=int))
    with quiet():
        if fder == 0:
            res = CumDOS(**kw)(dk)
            name = "CumDOS"
        elif fder == 1:
            res = DOS(**kw)(dk)
            name = "DOS"
        else:
            res = StaticCalculator(Formula=Identity, fder=fder, **kw)(dk) * dk.cell_volume
            name = f"StaticCalculator(Identity,fder={fder})"
    data = np.array(res.data, dtype=float)
    data = data if kres else data[None, :]
    return name, data * U ** fder


def stencil(x, fder, d_over_q):
    """the n-th central difference of the rows of x (extended grid), step h = d/Q (integer energy units)"""
    h = d_over_q
    if fder == 0:
        return x
    if fder == 1:
        return (x[:, 2:] - x[:, :-2]) / (2 * h)
    if fder == 2:
        return (x[:, 2:] - 2 * x[:, 1:-1] + x[:, :-2]) / h ** 2
    d2 = (x[:, 2:] - 2 * x[:, 1:-1] + x[:, :-2]) / h ** 2
    return (d2[:, 2:] - d2[:, :-2]) / (2 * h)


def close(got, exp):
    got = np.asarray(got, dtype=float)
    exp = np.asarray(exp, dtype=float)
    return got.shape == exp.shape and bool(np.all(np.abs(got - exp) <= RTOL * np.maximum(1.0, np.abs(exp))))


EXTRA = {0: 0, 1: 1, 2: 1, 3: 2}


def replay_state(rep, s, cls):
    E = [list(x) for x in s["E"]]
    nk, nb = len(E), len(E[0])
    vm = s["vmode"]
    V = [[1 if vm == "ones" else 5 ** (k * nb + b) for b in range(nb)] for k in range(nk)]
    th, kr, grid, fder, kres = s["th"], s["kr"], s["grid"], s["fder"], s["kres"]
    sel = sorted(s["sel"]["bands"]) if s["sel"]["on"] else None
    exp = np.array([[Fraction(x[0], x[1]) for x in row] for row in s["res"]], dtype=object)
    expf = exp.astype(float)
    inputs = dict(E=E, unit=U, values=V, th=th, kramers=kr, grid=grid, fder=fder, k_resolved=kres, select_bands=sel)
    key = ("scan", tuple(map(tuple, E)), vm, th, kr, tuple(sorted(grid.items())), fder, kres, tuple(sel) if sel else None)
    nontrivial = bool(np.any(expf != 0))
    for additive in (True, False):
        got = run_synth(E, V, th, kr, grid, fder, sel, kres, additive)
        rep.case(key + (additive,), nontrivial=nontrivial)
        if not close(got, expf):
            rep.violation(f"StaticCalculator:fder{fder}:" + ("additive" if additive else "nonadditive") + (":k_resolved" if kres else "") + (":select_bands" if sel else ""),
                          dict(inputs, expected=[[str(x) for x in row] for row in exp], got=got.tolist(),
                               note="values in (value unit)/(energy unit = 1/8)^fder, after removing constant factor and cell volume"))
    cls["fder%d" % fder] += 1
    cls["kres"] += kres
    cls["select"] += sel is not None
    cls["kramers"] += kr
    for b in s["taken"]:
        cls["branch_" + b] += 1
    got = run_synth(E, V, th, kr, grid, fder, sel, kres, True)
    # relation between two real calculations: fder=n vs central difference of fder=0 on the extended grid
    if fder > 0 and sel is None:
        sea = run_synth(E, V, th, kr, grid, 0, None, kres, True, ext=EXTRA[fder])
        fd = stencil(sea, fder, grid["d"] / grid["Q"])
        rep.case(key + ("fd",), nontrivial=nontrivial)
        if not close(got, fd):
            rep.violation(f"StaticCalculator:fder{fder}:vs_difference_of_sea", dict(inputs, sea_on_extended_grid=sea.tolist(), difference=fd.tolist(), got=got.tolist()))
        cls["fd_relation"] += 1
    if kres:
        un = run_synth(E, V, th, kr, grid, fder, sel, False, True)
        rep.case(key + ("ksum",), nontrivial=nontrivial)
        if not close(got.sum(axis=0)[None, :] / nk, un):
            rep.violation(f"StaticCalculator:fder{fder}:k_resolved_sum", dict(inputs, k_resolved=got.tolist(), unresolved=un.tolist()))
    if vm == "ones":
        name, gd = run_real_dos(E, th, kr, grid, fder, sel, kres)
        rep.case(key + ("real",), nontrivial=nontrivial)
        cls["real_" + ("CumDOS" if fder == 0 else "DOS" if fder == 1 else "Identity")] += 1
        if not close(gd, expf):
            rep.violation(f"{name}" + (":k_resolved" if kres else ""), dict(inputs, expected=[[str(x) for x in row] for row in exp], got=gd.tolist()))
        if fder == 0 and not kres:
            lv = [Fraction(grid["a"] + i * grid["d"], grid["Q"]) for i in range(grid["n"])]
            lo = min(min(e) for e in E)
            hi = max(max(e) for e in E)
            for i, x in enumerate(lv):
                if x < lo and gd[0, i] != 0.0:
                    rep.violation("CumDOS:below_all_bands", dict(inputs, level=i, got=float(gd[0, i])))
                if x > hi and gd[0, i] != float(nb):
                    rep.violation("CumDOS:above_all_bands", dict(inputs, level=i, got=float(gd[0, i]), num_wann=nb))
            if np.any(np.diff(gd[0]) < 0):
                rep.violation("CumDOS:monotone", dict(inputs, got=gd.tolist()))
    return inputs, exp


def part_model(rep, thorough, rng):
    if thorough:
        runs = [("c13_nk1", dict(NK=1, NBS="{1, 2, 3, 4}", EMAX=4, THS="{0, 2}", QS="{2, 4}", AS1=tlaset([0, 11]), ASHIFT=5,
                                 DS="{1, 3}", NS="{3, 6}", SELS="{{}, {0}, {1, 2}, {0, 3}}", WrongBinning="FALSE"), 5000),
                ("c13_nk1b", dict(NK=1, NBS="{1, 2, 3, 4}", EMAX=3, THS="{1}", QS="{2}", AS1=tlaset([0, 5, 11]), ASHIFT=4,
                                  DS="{2}", NS="{4, 5}", SELS="{{}, {1}, {2, 3}}", WrongBinning="FALSE"), 2000),
                ("c13_nk2", dict(NK=2, NBS="{1, 2, 3}", EMAX=2, THS="{0, 1}", QS="{2}", AS1=tlaset([0, 7]), ASHIFT=4,
                                 DS="{1, 3}", NS="{4}", SELS="{{}, {1}, {0, 2}}", WrongBinning="FALSE"), 4000)]
    else:
        runs = [("c13_nk1", dict(NK=1, NBS="{1, 2, 3, 4}", EMAX=3, THS="{0, 1}", QS="{2}", AS1=tlaset([0, 9]), ASHIFT=3,
                                 DS="{1, 3}", NS="{3, 6}", SELS="{{}, {0}, {1, 2}}", WrongBinning="FALSE"), 700),
                ("c13_nk2", dict(NK=2, NBS="{2}", EMAX=2, THS="{0, 1}", QS="{4}", AS1=tlaset([0, 5, 9]), ASHIFT=3,
                                 DS="{2}", NS="{4}", SELS="{{}, {1}}", WrongBinning="FALSE"), 500)]
    cls = {k: 0 for k in ["fder0", "fder1", "fder2", "fder3", "kres", "select", "kramers", "branch_below", "branch_bin", "branch_above", "branch_seagroup",
                          "fd_relation", "real_CumDOS", "real_DOS", "real_Identity"]}
    # sensitivity: binning with floor instead of ceil must be rejected by TLC
    sens = dict(NK=1, NBS="{1, 2}", EMAX=2, THS="{0}", QS="{2}", AS1="{0, 2}", ASHIFT=3, DS="{2}", NS="{3}", SELS="{{}}", WrongBinning="TRUE")
    jobs = {name: ("MC_FermiScan.tla", cfg_of(consts, INV), True) for name, consts, _ in runs}
    jobs["c13_wrongbin"] = ("MC_FermiScan.tla", cfg_of(sens, ["EqualsDeclarative"]), False)
    res = tlc_jobs(jobs, WORKERS)
    st0 = res["c13_wrongbin"]
    if not st0.get("violation"):
        raise MachineryError("sensitivity self-test failed: WrongBinning=TRUE must violate EqualsDeclarative")
    rep.part("c13_wrongbin", sensitivity_violation=st0["violation"][1])
    for name, consts, nreplay in runs:
        st = res[name]
        ftable.spec_violation(rep, st, name)
        tlc.check_not_vacuous(st, ["Accumulate", "Differences"], name)
        rep.add_tlc(name, st)
        done = [s for s in ftable.dump_states(st) if s["pc"] == "done"]
        if not done:
            raise MachineryError(f"no finished state in the dump of {name}")
        # deterministic selection: stratified by (fder, kres, select, vmode), seeded
        done.sort(key=lambda s: repr((s["E"], s["vmode"], s["th"], s["kr"], sorted(s["grid"].items()), s["fder"], s["sel"]["on"],
                                       sorted(s["sel"]["bands"]), s["kres"])))
        rng.shuffle(done)
        strata = {}
        for s in done:
            strata.setdefault((s["fder"], s["kres"], s["sel"]["on"], s["vmode"], s["kr"]), []).append(s)
        chosen = []
        while len(chosen) < min(nreplay, len(done)):
            for k in sorted(strata):
                if strata[k]:
                    chosen.append(strata[k].pop())
        for i, s in enumerate(chosen):
            inputs, exp = replay_state(rep, s, cls)
            if i < 2:
                rep.sample(dict(fn="StaticCalculator.__call__", **inputs, exact=[[str(x) for x in row] for row in exp]))
        rep.part(name + "_replay", finished_states=len(done), replayed=len(chosen))
    for k, v in cls.items():
        if v == 0:
            raise MachineryError(f"vacuous replay class {k}")
    rep.part("c13_replay_classes", **cls)


def integral(x, what):
    r = np.rint(x)
    if np.any(np.abs(x - r) > 1e-6 * np.maximum(1.0, np.abs(r))):
        return None
    return [[int(v) for v in row] for row in r]


def part_records(rep, thorough, rng):
    recs = []
    nrec = 1500 if thorough else 240
    stats = dict(kramers=0, select=0, fder0=0, fder3=0, nonadditive=0)
    tries = 0
    while len(recs) < nrec:
        tries += 1
        if tries > 50 * nrec:
            raise MachineryError("record generator cannot find admissible inputs")
        nk = rng.randint(1, 3)
        nb = rng.randint(1, 4)
        th = rng.choice([0, 1, 2, 3])
        kr = nb % 2 == 0 and rng.random() < 0.3
        E = []
        for _ in range(nk):
            if kr:
                half = sorted(rng.randint(0, 40) for _ in range(nb // 2))
                Ek = sorted(x + dx for x in half for dx in (0, rng.randint(0, th)))
                if any(Ek[2 * j + 1] - Ek[2 * j] > th for j in range(nb // 2)):
                    Ek = [x for x in half for _ in (0, 1)]
            else:
                Ek = sorted(rng.choice([0, 5, 5, 9, 17, 30]) + rng.randint(0, 4) for _ in range(nb))
            E.append(Ek)
        V = [[rng.randint(-20, 20) for _ in range(nb)] for _ in range(nk)]
        fder = rng.randint(0, 3)
        Q = rng.choice([1, 2, 4, 8])
        grid = dict(Q=Q, a=rng.randint(-6 * Q, 40 * Q), d=rng.randint(1, 3 * Q), n=rng.randint(1, 12))
        if grid["n"] == 1:
            continue       # a single level makes the code guess dEF = 0.001: not a uniform grid of the model
        sel = None
        if fder > 0 and rng.random() < 0.3:
            sel = sorted(rng.sample(range(nb), rng.randint(1, nb)))
        additive = rng.random() < 0.6
        # named exclusion NoTie (checked again by TLC: clause admissible)
        ex = EXTRA[fder]
        lv = [Fraction(grid["a"] + (i - ex) * grid["d"], Q) for i in range(grid["n"] + 2 * ex)]
        from wannierberri.grid.tetrahedron import get_borders
        tie = False
        for Ek in E:
            for a, b in get_borders(np.array(Ek, dtype=float), th, degen_Kramers=kr):
                if Fraction(sum(Ek[a:b]), b - a) in lv:
                    tie = True
        if tie:
            continue
        outs = {}
        bad = False
        for kres in (True, False):
            got = run_synth(E, V, th, kr, grid, fder, sel, kres, additive)
            cn = {0: 1, 1: 2, 2: 1, 3: 2}[fder]
            N = got * SELUNIT * cn * (grid["d"] / Q) ** fder * (1 if kres else nk)
            Ni = integral(N, "numerators")
            if Ni is None:
                rep.violation(f"StaticCalculator:fder{fder}:nonintegral", dict(E=E, values=V, th=th, kramers=kr, grid=grid, fder=fder, select_bands=sel,
                                                                              k_resolved=kres, got=got.tolist(), numerators=N.tolist()))
                bad = True
            outs[kres] = Ni
        if bad:
            continue
        recs.append(dict(E=E, V=V, th=th, kr=kr, grid=grid, fder=fder, selon=sel is not None, sel=sel or [], additive=additive,
                         outK=outs[True], outU=outs[False][0]))
        stats["kramers"] += kr
        stats["select"] += sel is not None
        stats["fder0"] += fder == 0
        stats["fder3"] += fder == 3
        stats["nonadditive"] += not additive
        rep.case(("rec", len(recs), tuple(map(tuple, E)), fder, tuple(sorted(grid.items()))))
    for k, v in stats.items():
        if v == 0:
            raise MachineryError(f"vacuous record class {k}")
    stv, bad = validate_parallel("FermiScanRec.tla", REC_CFG, recs, "c13", 8)
    rep.add_tlc("c13_records", stv)
    rep.add_traces(len(recs))
    rep.part("c13_records", **stats)
    for i, clauses in bad.items():
        r = recs[i]
        if "admissible" in clauses:
            raise MachineryError(f"the harness recorded an inadmissible input: {r}")
        rep.violation(f"StaticCalculator:fder{r['fder']}:recorded" + (":select_bands" if r["selon"] else ""),
                      dict(record=r, failing_clauses=clauses, unit=U, note="out* = result * 12 * c_n * dEF^n * (nk if unresolved) in integer units"))
    rep.sample(recs[0])
    cand = [r for r in recs if any(any(row) for row in r["outK"])][:1]
    if not cand:
        raise MachineryError("no non-zero record for the binding self-test")
    b = copy.deepcopy(cand)
    row = next(j for j, rw in enumerate(b[0]["outK"]) if any(rw))
    col = next(j for j, x in enumerate(b[0]["outK"][row]) if x)
    b[0]["outK"][row][col] += SELUNIT
    _, b2 = ftable.validate_records("FermiScanRec.tla", REC_CFG, b, "c13_selftest")
    if 0 not in b2:
        raise MachineryError("binding self-test failed: corrupted StaticCalculator record accepted")
    rep.part("binding_selftest", corrupted_record_rejected=b2[0])


def part_numeric(rep, thorough):
    """numeric_only: real wb.run on a tiny tight-binding model (Haldane); StaticCalculator(Formula, fder=n) vs central differences of
    StaticCalculator(Formula, fder=0) on the extended grid, for real formulas. Reported, never decides the check."""
    import shutil
    wd = os.path.join("/verif/.work", "c13_num")
    try:
        import wannierberri as wb
        import wannierberri.models
        from wannierberri.calculators.static import StaticCalculator
        from wannierberri.formula import covariant as frml
        os.makedirs(wd, exist_ok=True)
        h, n, e0 = 0.125, 12, -2.51171875
        ef = np.arange(n) * h + e0
        worst = {}
        with quiet():
            system = wb.system.System_R.from_pythtb(wb.models.Haldane_ptb(delta=0.2, hop1=-1.0, hop2=0.15), berry=True)
            grid = wb.Grid(system, NK=[6, 6, 1], NKFFT=[3, 3, 1])
            for fname, F in (("Identity", frml.Identity), ("Omega", frml.Omega)):
                for fder in (1, 2, 3):
                    ex = EXTRA[fder]
                    efx = np.arange(-ex, n + ex) * h + e0
                    calcs = {"s": StaticCalculator(Efermi=efx, Formula=F, fder=0, degen_thresh=1e-6),
                             "d": StaticCalculator(Efermi=ef, Formula=F, fder=fder, degen_thresh=1e-6)}
                    res = wb.run(system, grid=grid, calculators=calcs, adpt_num_iter=0, use_irred_kpt=False, symmetrize=False,
                                 fout_name=os.path.join(wd, "x"), dump_results=False, parallel=False)
                    sea = np.moveaxis(np.asarray(res.results["s"].data), 0, -1)
                    fd = stencil(sea.reshape(-1, sea.shape[-1]), fder, h).reshape(sea.shape[:-1] + (n,))
                    d = np.moveaxis(np.asarray(res.results["d"].data), 0, -1)
                    scale = float(np.max(np.abs(d)))
                    worst[f"{fname}_fder{fder}"] = dict(max_abs=scale, deviation=float(np.max(np.abs(d - fd))))
        rep.part("numeric_only", real_run_fder_vs_central_difference_of_fder0=worst,
                 agree=bool(all(v["deviation"] <= 1e-9 * max(1.0, v["max_abs"]) for v in worst.values())),
                 nonzero=bool(all(v["max_abs"] > 1e-3 for v in worst.values())))
    except Exception as ex:      # numeric-only, optional: never decides the check
        rep.part("numeric_only", skipped=f"{type(ex).__name__}: {str(ex)[:200]}")
    finally:
        shutil.rmtree(wd, ignore_errors=True)


def check(pid, tier):
    rep = Report(pid, tier, "model_checking")
    thorough = tier == "thorough"
    rng = random.Random(seed() * 7919 + 13)
    rep.rule("TLC enumerates every band structure / Fermi grid / threshold / fder / k_resolved / select_bands inside the constants (MC_FermiScan); a case "
             "= one finished TLC state (stratified seeded selection) replayed on the real StaticCalculator (additive, non-additive, real CumDOS/DOS), "
             "plus the relations between real results, plus seeded random recorded calls validated by TLC; distinct by input tuple")
    rep.assume("energies, Fermi levels, values, cell volume and factor are exactly representable; no Fermi level of the extended grid equals a group mean energy (NoTie)")
    import time
    t = [time.time()]

    def lap(name):
        t.append(time.time())
        rep.part("wall_s_by_part", **{name: round(t[-1] - t[-2], 1)})
    part_model(rep, thorough, rng)
    lap("tlc_models_and_replay")
    part_records(rep, thorough, rng)
    lap("records")
    part_numeric(rep, thorough)
    lap("numeric_only")
    return rep.finish()
