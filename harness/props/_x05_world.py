"""X05 helpers: recording ray double, drivers for parallel.py / utils/cluster.py / run() and the projections of what they do
onto the values of spec/ExecEnv.tla.  No real ray cluster is ever started: `sys.modules['ray']` is the double (or None =
"ray is not installed") while the code under test runs."""
import copy
import os
import re
import shutil
import sys
import types
import warnings
import glob as _glob

import numpy as np

from ..common import quiet, MachineryError

PKG_TOKEN = "<wannierberri>"
OTHER_VALUES = {"pip": ["numpy", "scipy"], "env_vars": {"OMP_NUM_THREADS": "1"}, "working_dir": "/somewhere"}


class PrivateGone(Exception):
    """a name the driver needs (module attribute, keyword) does not exist any more"""


# ------------------------------------------------------------------------------------------------ ray double
class _Ref:
    def __init__(self, thunk):
        self.thunk, self.done, self.value = thunk, False, None

    def compute(self):
        if not self.done:
            self.value = self.thunk()
            self.done, self.thunk = True, None
        return self.value


class _Put:
    def __init__(self, v):
        self.v = v


class FakeRay(types.ModuleType):
    """records what reaches the ray module.  init on a live session raises like ray does ("Maybe you called ray.init twice
    by accident?"), after the call has been logged."""

    def __init__(self):
        super().__init__("ray")
        self.up = False
        self.cpu = 0.0
        self.log = []          # state-changing calls: ("init", kwargs) / ("shutdown", {})
        self.nput = 0
        self.put_values = []
        self.ndecor = 0
        self.ntasks = 0
        self.nget = 0
        self.nwait = 0
        self.nquery = 0
        self.in_task = False
        self.ObjectRef = _Ref

    def is_initialized(self, *a, **kw):
        self.nquery += 1
        return self.up

    def init(self, *a, **kw):
        self.log.append(("init", dict(kw)))
        if a:
            raise TypeError("the ray double takes keyword arguments only")
        if self.up:
            raise RuntimeError("Maybe you called ray.init twice by accident? (recording double)")
        self.up = True
        n = kw.get("num_cpus")
        self.cpu = float(n) if n is not None else 16.0

    def shutdown(self, *a, **kw):
        self.log.append(("shutdown", {}))
        self.up = False

    def cluster_resources(self, *a, **kw):
        self.nquery += 1
        return {"CPU": self.cpu} if self.up else {}

    available_resources = cluster_resources

    def put(self, v, *a, **kw):
        self.nput += 1
        self.put_values.append(v)
        return _Put(v)

    def _res(self, x):
        if isinstance(x, _Put):
            return x.v
        if isinstance(x, _Ref):
            return x.compute()
        return x

    def remote(self, *dargs, **dkw):
        fr = self

        def wrap(f):
            fr.ndecor += 1

            class Remote:
                def remote(self_, *a, **kw):
                    fr.ntasks += 1
                    a2 = [fr._res(x) for x in a]
                    kw2 = {k: fr._res(v) for k, v in kw.items()}

                    def thunk():
                        fr.in_task = True
                        try:
                            return f(*a2, **kw2)
                        finally:
                            fr.in_task = False
                    return _Ref(thunk)

                def options(self_, *a, **kw):
                    return self_
            return Remote()
        if len(dargs) == 1 and callable(dargs[0]) and not dkw:
            return wrap(dargs[0])
        return wrap

    def wait(self, refs, num_returns=1, timeout=None, **kw):
        self.nwait += 1
        refs = list(refs)
        n = max(0, min(int(num_returns), len(refs)))
        for r in refs[:n]:
            r.compute()
        return refs[:n], refs[n:]

    def get(self, x, *a, **kw):
        self.nget += 1
        if isinstance(x, (list, tuple)):
            return [self._res(r) for r in x]
        return self._res(x)


class ray_world:
    """installs the double (installed=True) or None (ray cannot be imported) as sys.modules['ray'] and sets / unsets the
    environment variables a batch script exports"""

    def __init__(self, installed, ip_head=(), redis=""):
        self.installed, self.ip_head, self.redis = installed, tuple(ip_head), redis
        self.fake = FakeRay() if installed else None

    def __enter__(self):
        self.saved_mod = sys.modules.get("ray", "absent")
        sys.modules["ray"] = self.fake
        self.saved_env = {k: os.environ.get(k) for k in ("ip_head", "redis_password")}
        for k in ("ip_head", "redis_password"):
            os.environ.pop(k, None)
        if self.ip_head:
            os.environ["ip_head"] = ":".join(self.ip_head)
        if self.redis:
            os.environ["redis_password"] = self.redis
        return self

    def __exit__(self, *a):
        if self.saved_mod == "absent":
            sys.modules.pop("ray", None)
        else:
            sys.modules["ray"] = self.saved_mod
        for k, v in self.saved_env.items():
            if v is None:
                os.environ.pop(k, None)
            else:
                os.environ[k] = v
        return False

    @property
    def up(self):
        return bool(self.fake is not None and self.fake.up)


# ------------------------------------------------------------------------------------------------ value mapping
_PKG_DIR = None


def pkg_dir():
    global _PKG_DIR
    if _PKG_DIR is None:
        import wannierberri
        _PKG_DIR = os.path.dirname(os.path.abspath(wannierberri.__file__))
    return _PKG_DIR


def env_to_py(e):
    """spec runtime environment -> Python argument (None or dict)"""
    if not e["given"]:
        return None
    d = {}
    if e["pymGiven"]:
        d["py_modules"] = [pkg_dir() if m == PKG_TOKEN else m for m in e["pym"]]
    for k in sorted(e["other"]):
        d[k] = copy.deepcopy(OTHER_VALUES[k])
    return d


def env_of_py(d):
    """Python runtime_env (None / dict) -> spec value; a key whose value is not the one handed in is renamed key!changed"""
    if d is None:
        return dict(given=False, pymGiven=False, pym=[], other=[])
    if not isinstance(d, dict):
        return dict(given=True, pymGiven=False, pym=[], other=[f"!{type(d).__name__}"])
    pym = d.get("py_modules")
    other = []
    for k, v in d.items():
        if k == "py_modules":
            continue
        other.append(str(k) if (k in OTHER_VALUES and v == OTHER_VALUES[k]) else f"{k}!changed")
    ok = isinstance(pym, (list, tuple))
    return dict(given=True, pymGiven="py_modules" in d,
                pym=[PKG_TOKEN if os.path.abspath(str(m)) == pkg_dir() else str(m) for m in pym] if ok else ([] if pym is None else [f"!{type(pym).__name__}"]),
                other=sorted(other))


def norm_env(e):
    if not e["given"] or (not e["pymGiven"] and not e["other"]):
        return dict(given=False, pymGiven=False, pym=[], other=[])
    return e


def val_to_py(v):
    if v == "None":
        return None
    if re.fullmatch(r"-?\d+", v):
        return int(v)
    return v


def kw_of_py(kw):
    return sorted([str(k), str(v)] for k, v in kw.items() if k != "runtime_env")


def call_of_py(c):
    fn, kw = c
    return dict(fn=fn, kw=kw_of_py(kw), env=norm_env(env_of_py(kw.get("runtime_env"))))


# ------------------------------------------------------------------------------------------------ spec values from dumps
def env_from_tla(e):
    return dict(given=bool(e["given"]), pymGiven=bool(e["pymGiven"]), pym=list(e["pym"]), other=sorted(e["other"]))


def d_from_tla(d):
    return dict(act=d["act"], kw=sorted([list(p) for p in d["kw"]]), env=env_from_tla(d["env"]), flags=sorted(d["flags"]), num=d["num"], par=d["par"])


def res_from_tla(r):
    return dict(status=r["status"], ret=r["ret"], warned=bool(r["warned"]),
                calls=[dict(fn=c["fn"], kw=sorted([list(p) for p in c["kw"]]), env=env_from_tla(c["env"])) for c in r["calls"]],
                puts=int(r["puts"]), tasks=int(r["tasks"]), serial=int(r["serial"]))


# ------------------------------------------------------------------------------------------------ tiny run() world
class FakeDataK:
    def __init__(self, system, dK=None, grid=None, Kpoint=None, **kw):
        self.Kpoint = Kpoint
        self.system = system


class Calc:
    comment = "x05 counting calculator"

    def __init__(self, world, allow_path=True, allow_grid=True):
        self.world, self.allow_path, self.allow_grid = world, allow_path, allow_grid

    def __call__(self, data):
        from wannierberri.result import EnergyResult
        from wannierberri.symmetry.point_symmetry import transform_ident
        w = self.world
        K = data.Kpoint
        key = tuple(np.round(np.asarray(K.K, dtype=float).ravel(), 9).tolist()) + (int(getattr(K, "refinement_level", 0) or 0),)
        fake = sys.modules.get("ray")
        (w.task_evals if (fake is not None and getattr(fake, "in_task", False)) else w.serial_evals).append(key)
        p = 1.0 + 0.37 * (hash(key) % 97) / 97.0
        return EnergyResult([np.arange(2.)], np.array([p, 2 * p]), transformTR=transform_ident, transformInv=transform_ident, rank=0, save_mode="bin")


class RunWorld:
    """one exact 1-band chain with inversion; grids with n K-points along the periodic direction (n even: n/2+1 irreducible),
    a path of three points in one batch"""

    def __init__(self):
        import wannierberri as wb
        from wannierberri import run_grid as RG
        self.wb, self.RG = wb, RG
        with quiet():
            self.system = wb.system.System_R.from_sparse(real_lattice=np.eye(3), wannier_centers_red=np.zeros((1, 3)),
                                                         matrices={'Ham': {(0, 0, 0): {(0, 0): 1.0}, (1, 0, 0): {(0, 0): 0.5}, (-1, 0, 0): {(0, 0): 0.5}}})
            self.system.periodic = np.array([True, False, False])
            self.system.set_pointgroup(["Inversion"])
        self.grids = {}
        self.serial_evals, self.task_evals = [], []
        self.saved = []
        self.symcalls = 0
        self.marks = []         # (number of evaluations, number of symmetrize calls) at every savedata call
        self.pmarks = []        # ... after every process() call

    def grid(self, kind, n=4):
        key = (kind, n)
        if key not in self.grids:
            with quiet():
                if kind == "path":
                    self.grids[key] = self.wb.Path(self.system, k_list=[[j / (2.0 * n), 0, 0] for j in range(3)])
                else:
                    self.grids[key] = self.wb.Grid(system=self.system, NKdiv=(n, 1, 1), NKFFT=(1, 1, 1))
        return self.grids[key]

    def calculators(self, calcs):
        if calcs == "both":
            return {"c": Calc(self)}
        if calcs == "gridonly":
            return {"c": Calc(self, allow_path=False)}
        if calcs == "pathonly":
            return {"c": Calc(self, allow_grid=False)}
        return {"c1": Calc(self, allow_path=False), "c2": Calc(self, allow_grid=False)}

    def run(self, grid, calcs, **kw):
        """-> (exception or None).  savedata and pointgroup.symmetrize are observed, not executed / executed respectively"""
        from wannierberri.result import ResultDict
        self.serial_evals, self.task_evals, self.saved, self.symcalls, self.marks = [], [], [], 0, []
        if not hasattr(ResultDict, "savedata"):
            raise PrivateGone("ResultDict.savedata")
        pg = self.system.pointgroup
        if not hasattr(pg, "symmetrize"):
            raise PrivateGone("PointGroup.symmetrize")
        world = self
        orig_save = ResultDict.savedata
        orig_sym = type(pg).symmetrize

        def savedata(self_, *a, **k):
            names = ("prefix", "suffix", "i_iter")
            d = dict(zip(names, a))
            d.update(k)
            world.saved.append((d.get("prefix"), d.get("suffix"), d.get("i_iter")))
            world.marks.append((len(world.serial_evals) + len(world.task_evals), world.symcalls))

        def symmetrize(self_, result, *a, **k):
            world.symcalls += 1
            return orig_sym(self_, result, *a, **k)
        ResultDict.savedata = savedata
        type(pg).symmetrize = symmetrize
        self.pmarks = []
        orig_process = getattr(self.RG, "process", None)
        if callable(orig_process):
            def process(*a, **k):
                try:
                    return orig_process(*a, **k)
                finally:
                    world.pmarks.append((len(world.serial_evals) + len(world.task_evals), world.symcalls))
            self.RG.process = process
        try:
            with quiet(), warnings.catch_warnings(record=True) as wl:
                warnings.simplefilter("always")
                try:
                    self.RG.run(self.system, grid, calcs, data_k_class=FakeDataK, **kw)
                    ex = None
                except Exception as e:      # any exception of the package is an answer
                    ex = e
            self.warnings = [str(x.message)[:80] for x in wl]
        finally:
            ResultDict.savedata = orig_save
            type(pg).symmetrize = orig_sym
            if callable(orig_process):
                self.RG.process = orig_process
        return ex


def mesh_to_py(mesh, mesh_int):
    if len(mesh) == 0:
        return None
    return int(mesh[0]) if mesh_int else tuple(int(x) for x in mesh)


# ------------------------------------------------------------------------------------------------ cluster.py driver
class _Clock:
    def __init__(self, real):
        self._real = real

    def strftime(self, fmt, *a):
        return "STAMP"

    def __getattr__(self, name):
        return getattr(self._real, name)


class _Subprocess:
    def __init__(self, real, sink):
        self._real, self._sink = real, sink

    def Popen(self, args, *a, **kw):
        self._sink.append([str(x) for x in args] if isinstance(args, (list, tuple)) else str(args).split())

        class P:
            returncode = 0

            def wait(self_, *a, **k):
                return 0

            def communicate(self_, *a, **k):
                return (b"", b"")

            def poll(self_):
                return 0
        return P()

    def _rec(self, args, *a, **kw):
        self.Popen(args)
        return types.SimpleNamespace(returncode=0, stdout=b"", stderr=b"")

    run = call = check_call = check_output = _rec

    def __getattr__(self, name):
        return getattr(self._real, name)


STAMP_RE = re.compile(r"_\d{4}-\d{6}")
PLACEHOLDER_RE = re.compile(r"\{\{[A-Za-z_]+\}\}")
DEFAULTS = dict(nodes="1", node="", cpus="None", gpus="0", partition="chpc", loadenv=[], spill="", sleeph=["30.0", 3000], sleepw=["5.0", 500])
SPELL = {"nodes": ["--num-nodes", "-n"], "node": ["--node", "-w"], "partition": ["--partition", "-p"]}


def build_argv(a, rng, sleep_text):
    """argument list for main(): every option of `a` that differs from its default, default-valued ones at random, in random order,
    long / short spelling and --opt=value / --opt value at random.  sleep_text maps hundredths -> the text typed by the user"""
    items = []

    def opt(name, value, spell=None):
        s = rng.choice(spell or [name])
        if s.startswith("--") and rng.random() < 0.5 and not str(value).startswith("-"):
            items.append([f"{s}={value}"])
        else:
            items.append([s, str(value)])
    miss = set(a["missing"])
    if "--batch-system" not in miss:
        opt("--batch-system", a["bs"])
    if "--exp-name" not in miss:
        opt("--exp-name", a["exp"])
    if "--command" not in miss:
        opt("--command", " ".join(a["command"]))
    for key, name in (("nodes", "--num-nodes"), ("node", "--node"), ("partition", "--partition"), ("gpus", "--num-gpus"), ("spill", "--spilling-directory")):
        if a[key] != DEFAULTS[key] or rng.random() < 0.3:
            if a[key] == "" and key in ("node", "spill"):
                items.append([f"{rng.choice(SPELL.get(key, [name]))}", ""] if key == "node" else [f"{name}="])
            else:
                opt(name, a[key], SPELL.get(key))
    if a["cpus"] != "None":
        opt("--num-cpus-per-node", a["cpus"])
    elif rng.random() < 0.2:
        items.append(["--num-cpus-per-node"])           # nargs='?': the bare option means None
    if list(a["loadenv"]) or rng.random() < 0.3:
        opt("--load-env", " ".join(a["loadenv"]))
    for key, name in (("sleeph", "--sleep-head"), ("sleepw", "--sleep-worker")):
        if list(a[key]) != DEFAULTS[key] or rng.random() < 0.3:
            opt(name, sleep_text(a[key][1]))
    if a["submit"]:
        if rng.random() < 0.3:
            items.append(["--no-submit"])
            rng.shuffle(items)
            items.append(["--submit"])               # the last one wins
            return [x for it in items for x in it]
        items.append(["--submit"])
    elif rng.random() < 0.4:
        items.append(["--no-submit"])
    rng.shuffle(items)
    if items and items[-1] == ["--num-cpus-per-node"]:
        pass
    # a bare --num-cpus-per-node must not swallow a following positional-looking value: options always follow, fine
    return [x for it in items for x in it]


def lex_json(s):
    out, i, word = [], 0, ""
    while i < len(s):
        c = s[i]
        two = s[i:i + 2]
        if two == '\\"':
            tok, step = "BQ", 2
        elif c == '"':
            tok, step = "Q", 1
        elif c in "{}:,":
            tok, step = c, 1
        else:
            word += c
            i += 1
            continue
        if word:
            out.append(word)
            word = ""
        out.append(tok)
        i += step
    if word:
        out.append(word)
    return out


def logical_lines(text):
    out, cur = [], None
    for l in text.split("\n"):
        if cur is not None:
            l = cur + " " + l.strip()
            cur = None
        if l.rstrip().endswith("\\") and not l.strip().startswith("#"):
            cur = l.rstrip()[:-1]
            continue
        out.append(l)
    if cur is not None:
        out.append(cur)
    return out


def essential(text, a):
    """script text -> (token table of the essential lines, sleeps [[line, hundredths]], lexed spilling argument, words with
    placeholders left outside comments).  See ExecEnv.tla (SlurmTemplate) for what an essential line is."""
    table, sleeps, spill, unreplaced = [], [], [], []
    loadenv, command = list(a["loadenv"]), list(a["command"])
    for l in logical_lines(text):
        s = l.strip()
        if not s:
            continue
        words = s.split()
        if words[0] in ("#SBATCH", "#PBS"):
            if words[0] == "#PBS" and len(words) > 2 and words[1] == "-l" and words[2].startswith("nodes="):
                words = words[:2] + [x for x in words[2].split(":") if x] + words[3:]
            unreplaced += PLACEHOLDER_RE.findall(s)
            table.append(words)
            continue
        if s.startswith("#!"):
            table.append([s])
            continue
        if s.startswith("#"):
            continue
        # inline comment
        for j, x in enumerate(words):
            if j > 0 and x.startswith("#"):
                words = words[:j]
                break
        unreplaced += PLACEHOLDER_RE.findall(" ".join(words))
        if words == command or words == loadenv:
            table.append(words)
            continue
        w0 = words[0]
        bare = [x.strip('"') for x in words]
        if "start" in bare and ("ray" in bare or "$ray_command" in bare):
            ws = []
            for x in words:
                tail = []
                if x.endswith("&") and not x.endswith("&&") and x != "&":
                    x, tail = x[:-1], ["&"]
                if x.startswith("--system-config="):
                    arg = x[len("--system-config="):]
                    if len(arg) >= 2 and arg[0] == "'" and arg[-1] == "'":
                        arg = arg[1:-1]
                    if "--head" in bare:
                        spill = lex_json(arg)
                    else:
                        unreplaced.append("--system-config on a worker")
                else:
                    x = x.strip('"')
                if x:
                    ws.append(x)
                ws += tail
            table.append(ws)
            continue
        if w0 == "export":
            table.append(words)
        elif w0 == "sleep":
            table.append(words)
            try:
                v = float(words[1]) * 100
                sleeps.append([len(table), int(round(v)) if abs(v - round(v)) < 1e-6 else -3])
            except (IndexError, ValueError):
                sleeps.append([len(table), -3])
        elif w0 in ("for", "done", "if", "else", "fi"):
            table.append([w0])
        else:
            m = re.match(r"^(redis_password|ip_head|port)=", w0)
            if m:
                table.append(["assign", m.group(1)])
            # everything else (echo, host discovery) is not part of the table
    return table, sleeps, spill, sorted(set(unreplaced))


class ClusterDriver:
    def __init__(self, wd):
        import importlib
        try:
            self.CL = importlib.import_module("wannierberri.utils.cluster")
        except ImportError as ex:
            raise PrivateGone(f"wannierberri.utils.cluster ({ex})")
        if not hasattr(self.CL, "main"):
            raise PrivateGone("wannierberri.utils.cluster.main")
        self.wd = wd
        self.n = 0

    def main(self, argv, a):
        """-> R (see ExecEnv.tla ClusterMain) + exception text"""
        import time as _time
        import subprocess as _sub
        self.n += 1
        d = os.path.join(self.wd, f"cl{self.n}")
        os.makedirs(d, exist_ok=True)
        popen = []
        CL = self.CL
        saved = {k: getattr(CL, k) for k in ("time", "subprocess") if hasattr(CL, k)}
        if "time" in saved:
            CL.time = _Clock(_time)
        if "subprocess" in saved:
            CL.subprocess = _Subprocess(_sub, popen)
        real_popen = _sub.Popen
        _sub.Popen = _Subprocess(_sub, popen).Popen        # whatever way the module reaches Popen: nothing is ever submitted
        cwd = os.getcwd()
        os.chdir(d)
        status, text, exc = "ok", None, ""
        try:
            with quiet():
                old_err = sys.stderr
                sys.stderr = open(os.devnull, "w")
                try:
                    text = CL.main(list(argv))
                except SystemExit as ex:
                    status = "usage" if ex.code not in (0, None) else "ok"
                    exc = f"SystemExit({ex.code})"
                except Exception as ex:
                    status, exc = "refused", f"{type(ex).__name__}: {str(ex)[:120]}"
                finally:
                    sys.stderr.close()
                    sys.stderr = old_err
        finally:
            os.chdir(cwd)
            _sub.Popen = real_popen
            for k, v in saved.items():
                setattr(CL, k, v)
        files = sorted(os.listdir(d))
        R = dict(status=status, table=[], sleeps=[], spill=[], unreplaced=[], popen=[[STAMP_RE.sub("_STAMP", x) for x in p] for p in popen],
                 fname="", same=True, nfiles=len(files))
        if status == "ok" and len(files) == 1:
            with open(os.path.join(d, files[0])) as f:
                content = f.read()
            R["fname"] = STAMP_RE.sub("_STAMP", files[0])
            R["same"] = isinstance(text, str) and text == content
            t, sl, sp, un = essential(STAMP_RE.sub("_STAMP", content), a)
            R.update(table=t, sleeps=sl, spill=sp, unreplaced=un)
        shutil.rmtree(d, ignore_errors=True)
        return R, exc
