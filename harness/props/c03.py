"""C03: integrals depend only on the k-point set, not on its factorisation N = NKdiv x NKFFT (nor on the FFT library).

spec  : KSymBase.tla (grids, magnetic point groups, get_K_list, kpoints_all), FactorKernel.tla (clauses of C03, determineNK /
        autoNK), MC_FactorKernel.tla (symmetry reduction as the loop of Grid.get_K_list, every group x factorisation inside the
        constants), MC_DetermineNK.tla (decision table), FactorKernelRec.tla (record validation)
bind  : spec -> code: every finished TLC state is replayed on the real Grid / get_K_list / Data_K.kpoints_all (exact integer
        comparison of K-points, weights and k-sets up to order and choice of representatives), states of the decision table are
        replayed on the real determineNK (accepted / refused, values up to the rounding rule); real run() with a one-hot
        calculator reading data_K.kpoints_all returns the coefficient map predicted by the spec for every factorisation.
        code -> spec: K-lists/k-sets of larger random grids, the integrated one-hot coefficient maps of run() and determineNK
        calls are validated clause by clause by TLC.
real calculators (deciding, float): static (also tetrahedron), dynamic and tabulating calculators on random R-space models with
        AA (external terms on), a k.p system, a SystemSOC and a spinful model with all matrices, for all / sampled factorisations
        and both FFT libraries, compared with the first factorisation with a tolerance >= 1e4 x the deviation of the unchanged tree.
"""
import os
import copy
import random
import shutil
import warnings
import itertools
import numpy as np

from .. import tlc, ftable
from ..common import Report, MachineryError, seed, quiet, workdir, WORK
from . import _ksym as KS

PROPS = {
    "C03": dict(level="model_checking",
                technique="TLC exhaustive on FactorKernel.tla (k-point multiset and symmetrised measure for every group x factorisation; "
                          "get_K_list as its loop; determineNK/autoNK decision table) + replay of every finished FactorKernel state on the "
                          "real Grid/get_K_list/Data_K.kpoints_all and of decision-table states (quick: a seeded sample of 1200, thorough: up "
                          "to 30000) on the real determineNK + real run() with a one-hot calculator against the spec's coefficient map + "
                          "TLC validation of recorded K-lists, k-sets, run() coefficient maps and determineNK calls + float comparison of "
                          "real calculators across factorisations",
                text="For every catalogue group (quick: 7, thorough: 25) and every pair (NKdiv, NKFFT) inside the constants TLC checks that "
                     "the k-sets of the K-list cover the dense grid exactly once (no symmetry) resp. that the symmetrised weighted measure is "
                     "the uniform measure of the dense grid (with symmetry reduction) - the k-point SET is the same for every factorisation. "
                     "Each finished state is executed on the real Grid, get_K_list and Data_K.kpoints_all and compared exactly (up to order "
                     "and choice of orbit representatives); run() with a synthetic calculator that is an exact function of "
                     "data_K.kpoints_all returns the predicted coefficient of every dense k-point for every factorisation, with and without "
                     "symmetry. That the integrands are evaluated AT those k-points (the K-shift phase of the Fourier transform, the "
                     "tetrahedron corners, the FFT library) is outside the model: it is decided by float comparisons of real static "
                     "(incl. tetra=True), dynamic and tabulating calculators across factorisations and fftw/numpy on random models "
                     "(R-space with AA, k.p, SOC, spinful with all matrices), tolerance 1e-8 relative to the natural scale of each quantity "
                     "(>= 1e4 x the deviation observed on the unchanged tree), inputs kept away from Fermi-bin edges and the degeneracy "
                     "threshold (EnergiesSafe).",
                note="lattices: cubic-type (19 groups incl. magnetic) and hexagonal (6 groups); exact comparison is on integers "
                     "(K*NKdiv mod NKdiv, factor*prod(NKdiv), kpoints_all*N mod N); float results of run() with the one-hot calculator are "
                     "compared with 1e-9 after scaling to integers. Not compared: warning texts, exception classes, the rounding rule of "
                     "NK/NKFFT, which orbit representative is kept, whether a non-symmetric grid is refused (reported as information). "
                     "tetra=True calculators are compared across factorisations without symmetry only: with symmetry reduction the tetrahedron "
                     "method differs from the full grid (C07, known finding run:tetra:irreducible_vs_full), so they are left out of the "
                     "C4v-symmetric irreducible world",
                ref="DESIGN.md 3.2, 5 (C03)"),
}

WORKERS = int(os.environ.get("VERIF_TLC_WORKERS", "4"))
FK_INVS = ["LoopIsFunctional", "InvDenseSymmetric", "InvKSets", "InvMultiset", "InvWeightSum", "InvOrbitReps", "InvUniform",
           "InvOrbit", "InvScanMass"]
NK_INVS = ["ExactUnlessAdjusted", "AdjustedIffMismatch", "PairReturnedAsIs", "NonPeriodicOne", "Positive", "ResultSymmetric",
           "TranscriptionIsValid"]
TOL = 1e-8


def tla_set(xs):
    return "{" + ", ".join(('"%s"' % x) if isinstance(x, str) else str(x) for x in xs) + "}"


def fk_cfg(groups, divs, ffts, zdivs, zffts, maxtot, kp=True, ab=True, invs=None):
    return ("SPECIFICATION Spec\nCONSTANTS\n"
            f"  GROUPS = {tla_set(groups)}\n  DIVS = {tla_set(divs)}\n  FFTS = {tla_set(ffts)}\n"
            f"  ZDIVS = {tla_set(zdivs)}\n  ZFFTS = {tla_set(zffts)}\n  MAXTOT = {maxtot}\n"
            f"  KpDivides = {'TRUE' if kp else 'FALSE'}\n  AbsorbAdds = {'TRUE' if ab else 'FALSE'}\n"
            + "".join(f"INVARIANT {i}\n" for i in (invs or FK_INVS)) + "CHECK_DEADLOCK FALSE\n")


def run_model(rep, module, cfg, name, dump=True, timeout=1500, workroot=None, workers=None):
    st = tlc.run_tlc(module, cfg, name, workers=workers or WORKERS, dump=dump, coverage=False, timeout=timeout, workroot=workroot)
    if st.get("timeout"):
        raise MachineryError(f"TLC timed out on {name}")
    if st.get("error") and not st.get("violation"):
        raise MachineryError(f"TLC error on {name}: {st['error'][:600]} (see {st['meta']}/tlc.out)")
    if st["distinct"] == 0 and not st.get("violation"):
        raise MachineryError(f"TLC produced no states for {name}")
    return st


def cleanup(tag, keep_tlc=False):
    """remove every scratch directory of this run (tag is unique per property and process)"""
    import glob
    pats = [os.path.join(WORK, tag + "_*"), os.path.join(WORK, "records", tag + "*"), os.path.join(WORK, "tlc", "rec_" + tag + "*")]
    if not keep_tlc:
        pats.append(os.path.join(WORK, tag))
    for pat in pats:
        for d in glob.glob(pat):
            shutil.rmtree(d, ignore_errors=True)


def cpu_seconds():
    """CPU time of this process plus its finished children (TLC); the box is shared, wall time says little"""
    t = os.times()
    return round(t.user + t.system + t.children_user + t.children_system, 1)


def cpu_split():
    t = os.times()
    return dict(python=round(t.user + t.system, 1), tlc_and_other_children=round(t.children_user + t.children_system, 1))


def vec(t):
    return tuple(int(x) for x in t)


def valid_klist(klist, div, G, sym):
    """python mirror of ValidFull / ValidReduction (order and choice of representatives are immaterial)"""
    pts = set(itertools.product(range(div[0]), range(div[1]), range(div[2])))
    if len({x for x, _ in klist}) != len(klist):
        return False
    if not sym:
        return {x for x, _ in klist} == pts and all(w == 1 for _, w in klist)
    stars = [frozenset(KS.act_k(g, x, div) for g in G) for x, _ in klist]
    return (len(set(stars)) == len(stars) and set().union(*stars) == pts and sum(len(st) for st in stars) == len(pts)
            and all(w == len(st) for (_, w), st in zip(klist, stars)))


def valid_ksets(klist, ksets, div, fft):
    N = tuple(a * b for a, b in zip(div, fft))
    if len(ksets) != len(klist):
        return False
    for (x, _), ks in zip(klist, ksets):
        exp = {tuple((m[i] * div[i] + x[i]) % N[i] for i in range(3)) for m in itertools.product(range(fft[0]), range(fft[1]), range(fft[2]))}
        if len(ks) != len(exp) or set(ks) != exp:
            return False
    return True


# ------------------------------------------------------------------------------------------------------------------
# part A: K-list / k-sets of every factorisation


def part_factor_kernel(rep, thorough, rng, tag):
    if thorough:
        groups = sorted(list(KS.CART) + list(KS.HEX))
        cfgs = [("fk_planar", fk_cfg(groups, [1, 2, 3, 4, 6], [1, 2, 3, 4], [1], [1], 144)),
                ("fk_3d", fk_cfg(groups, [1, 2, 3, 4], [1, 2], [1, 2, 3, 4], [1, 2], 64))]
        boxes = [([1, 2, 3, 4, 6], [1], 144), ([1, 2, 3, 4], [1, 2, 3, 4], 64)]
    else:
        groups = ["C2v", "C4v", "mFe", "mC4", "O", "H6v", "H3T"]
        # InvOrbit is equivalent to InvUniform (sum over the group = |G|/|O| x sum over the orbit): left to the thorough tier
        cfgs = [("fk", fk_cfg(groups, [1, 2, 3, 4], [1, 2, 3], [1, 2], [1, 2], 36, invs=[i for i in FK_INVS if i != "InvOrbit"]))]
        boxes = [([1, 2, 3, 4], [1, 2], 36)]
    spec_groups = {}
    done = {}      # (grp, div, fft, sym) -> state
    for name, cfg in cfgs:
        st = run_model(rep, "MC_FactorKernel.tla", cfg, name, workroot=os.path.join(WORK, tag))
        ftable.spec_violation(rep, st, "c03_" + name)
        rep.add_tlc("c03_" + name, st)
        for s in KS.iter_dump(st["dump_path"], want='pc = "done"', keep_first_of=("grp", spec_groups)):
            done[(s["grp"], vec(s["div"]), vec(s["fft"]), bool(s["sym"]))] = s
    if not done:
        raise MachineryError("no finished state in the MC_FactorKernel dump")
    # the catalogue of the spec is the catalogue of the harness (binding of the group elements)
    real_groups = {}
    for g in sorted(spec_groups):
        real_groups[g] = KS.project_group(KS.make_system(g).pointgroup)
        if real_groups[g] != spec_groups[g]:
            raise MachineryError(f"catalogue mismatch for group {g}: spec has {len(spec_groups[g])} elements, "
                                 f"PointGroup has {len(real_groups[g])}; symmetric difference "
                                 f"{sorted(real_groups[g] ^ spec_groups[g])[:3]}")
    rep.part("groups", elements={g: len(v) for g, v in spec_groups.items()})
    n_reduced = n_full = n_fft_small = n_other_order = n_ksets = 0
    for key in sorted(done):
        grp, div, fft, sym = key
        s = done[key]
        system = KS.make_system(grp)
        exp_klist = [(vec(x), int(w)) for x, w in s["klist"]]
        exp_ksets = [[vec(p) for p in ks] for ks in s["ksets"]]
        nontriv = (int(np.prod(fft)) > 1 and int(np.prod(div)) > 1) or (sym and len(exp_klist) < int(np.prod(div)))
        rep.case(("fk",) + key, nontrivial=nontriv)
        if sym and len(exp_klist) < int(np.prod(div)):
            n_reduced += 1
        if not sym:
            n_full += 1
        rec = KS.nkfft_recommended(system)
        if rec is not None and any(f < r for f, r in zip(fft, rec)):
            n_fft_small += 1
        info = dict(group=grp, generators=[str(g) for g in KS.generators_of(grp)], NKdiv=div, NKFFT=fft, use_symmetry=sym,
                    unit="K*NKdiv mod NKdiv, factor*prod(NKdiv); kpoints_all*NKdiv*NKFFT mod N")
        try:
            klist, ksets, _ = KS.real_klist(system, div, fft, sym)
        except KS.NonIntegral as ex:
            rep.violation("grid:nonintegral", dict(info, what=str(ex)))
            continue
        except KS.FactorisationChanged as ex:
            rep.violation("Grid:factorisation_changed", dict(info, what=str(ex)))
            continue
        except MachineryError:
            raise
        except Exception as ex:         # the specification says this grid is symmetric: Grid / get_K_list have to work
            KS.report_exception(rep, ex, "Grid.get_K_list:symmetric_grid", info)
            continue
        if klist != exp_klist or (ksets is not None and ksets != exp_ksets):
            # not what the specification's transcription of the loops produces.  Order and the choice of the orbit
            # representative do not matter for C03: a violation only if the K-list is not a valid (reduced) grid
            if not valid_klist(klist, div, spec_groups[grp], sym):
                rep.violation("get_K_list:" + ("irreducible" if sym else "full"), dict(info, expected=exp_klist, got=klist))
            elif ksets is not None and not valid_ksets(klist, ksets, div, fft):
                j = next((j for j in range(min(len(ksets), len(klist))) if not valid_ksets(klist[j:j + 1], ksets[j:j + 1], div, fft)), None)
                rep.violation("Data_K.kpoints_all", dict(info, K=None if j is None else klist[j][0], got=ksets if j is None else ksets[j],
                                                         expected_as_set="coset (m*NKdiv + K) mod N for every K of the K-list"))
            else:
                n_other_order += 1
        n_ksets += ksets is not None
        if len(rep.cov["samples"]) < 2 and sym and len(exp_klist) < int(np.prod(div)) and int(np.prod(fft)) > 1:
            rep.sample(dict(group=grp, NKdiv=div, NKFFT=fft, use_symmetry=sym, klist=exp_klist, kset_of_first=exp_ksets[0]))
    if n_reduced == 0 or n_full == 0:
        raise MachineryError(f"vacuous: reduced={n_reduced} full={n_full}")
    rep.part("fk_replay", finished_states=len(done), reduced=n_reduced, full=n_full, fft_below_recommended=n_fft_small,
             with_ksets_through_Data_K=n_ksets, valid_but_other_order_or_representative=n_other_order)
    # grids which the spec excluded as non-symmetric: information only (that Grid refuses them is the check's assumption, not the
    # property).  (group, v, fft = 1) is a model state exactly when SymmetricGrid(v) holds and prod(v) <= MAXTOT
    present = {(g, d, f) for (g, d, f, _) in done}
    absent = []
    import wannierberri as wb
    for (xy, zs, maxtot) in boxes:
        for g in groups:
            for v in itertools.product(xy, xy, zs):
                if int(np.prod(v)) <= maxtot and (g, v, (1, 1, 1)) not in present:
                    if KS.symmetric_grid(v, spec_groups[g]):
                        raise MachineryError(f"harness mirror of SymmetricGrid disagrees with the spec for {g} {v}")
                    absent.append((g, v))
    absent = sorted(set(absent))
    rng.shuffle(absent)
    nref = nacc = 0
    ntry = 400 if thorough else 40
    for g, v in absent[:ntry]:
        system = KS.make_system(g)
        for kw in (dict(NKdiv=list(v), NKFFT=1), dict(NKdiv=1, NKFFT=list(v))):
            try:
                with quiet():
                    wb.Grid(system=system, **kw)
                nacc += 1
            except Exception:
                nref += 1
    rep.part("nonsymmetric_grids", tried=2 * min(len(absent), ntry), refused=nref, accepted=nacc,
             note="information: the property is stated for grids that are symmetric under the point group")
    return done, spec_groups


def part_sensitivity(rep, tag, thorough):
    variants = (("fk_wrongshift", False, True, {"InvMultiset", "InvUniform", "InvKSets", "InvOrbit"}),
                ("fk_noabsorb", True, False, {"InvScanMass", "InvWeightSum", "InvOrbitReps", "InvUniform", "InvOrbit", "LoopIsFunctional"}))
    for name, kp, ab, allowed in (variants if thorough else variants[:1]):
        st = tlc.run_tlc("MC_FactorKernel.tla", fk_cfg(["C1", "C4v"], [1, 2], [1, 2], [1], [1], 16, kp, ab), name, workers=min(4, WORKERS),
                         coverage=False, timeout=600, workroot=os.path.join(WORK, tag))
        v = st.get("violation")
        if not v or v[1] not in allowed:
            raise MachineryError(f"sensitivity self-test failed: {name} should violate one of {sorted(allowed)}, TLC said {v} {st.get('error')}")
        rep.part("c03_" + name, sensitivity_violation=v[1])


# ------------------------------------------------------------------------------------------------------------------
# part C: determineNK decision table


def call_determineNK(fn, pg, periodic, NKdiv, NKFFT, NK, rec, scalarise=True):
    """-> (kind 'ok' | 'refused', div, fft, number of warnings, exception or None).  ANY exception counts as a refusal; warnings
    are only counted (their texts and the channel are not part of C03)"""
    def arg(v):
        if v is None:
            return None
        if scalarise and len(set(v)) == 1:
            return int(v[0])
        return [int(x) for x in v]
    err = None
    with warnings.catch_warnings(record=True) as wl:
        warnings.simplefilter("always")
        try:
            with quiet():
                d, f = fn(np.array(periodic), arg(NKdiv), arg(NKFFT), arg(NK), np.array(rec), pg)
            kind = "ok"
            d, f = vec(d), vec(f)
        except MachineryError:
            raise
        except Exception as ex:
            kind, d, f, err = "refused", None, None, ex
    return kind, d, f, len(wl), err


def opt(v):
    return None if len(v) == 0 else vec(v)


def explicit_value_ok(per, NKdiv, NKFFT, NK, d, f):
    """python mirror of FactorKernel!ExplicitValueOK"""
    mask = lambda v: tuple(v[i] if per[i] else 1 for i in range(3))
    if NKdiv is not None and NKFFT is not None:
        return d == mask(NKdiv) and f == mask(NKFFT)
    if f != mask(NKFFT):
        return False
    for i in range(3):
        if per[i]:
            if d[i] < 1:
                return False
            if NK[i] % NKFFT[i] == 0:
                if d[i] * f[i] != NK[i]:
                    return False
            elif not abs(d[i] * f[i] - NK[i]) < f[i]:
                return False
    return True


def post_ok(pg, per, d, f):
    compat = all(per[i] == per[j] for (A, _, _) in KS.project_group(pg) for i in range(3) for j in range(3) if A[i][j] != 0)
    if any(x < 1 for x in d + f) or any((not per[i]) and (d[i] != 1 or f[i] != 1) for i in range(3)):
        return False
    G = KS.project_group(pg)
    return (not compat) or (KS.symmetric_grid(d, G) and KS.symmetric_grid(f, G))


def part_determine_nk(rep, thorough, rng, tag, fn):
    if thorough:
        consts = '  GROUPS = {"C1", "C4", "O", "H6"}\n  SCALARS = {1, 2, 3, 4, 5}\n  VECTORS <- VecsB\n  RECS <- RecsB\n  PERIODICS <- PerAll\n'
    else:
        consts = '  GROUPS = {"C1", "C4", "H6"}\n  SCALARS = {2, 3}\n  VECTORS <- VecsQ2\n  RECS <- RecsQ\n  PERIODICS <- PerQ\n'
    cfg = "SPECIFICATION Spec\nCONSTANTS\n" + consts + "".join(f"INVARIANT {i}\n" for i in NK_INVS) + "CHECK_DEADLOCK FALSE\n"
    st = run_model(rep, "MC_DetermineNK.tla", cfg, "nk", workroot=os.path.join(WORK, tag))
    ftable.spec_violation(rep, st, "c03_nk")
    rep.add_tlc("c03_nk", st)
    if fn is None:
        return
    states = list(KS.iter_dump(st["dump_path"]))
    if len(states) != st["distinct"]:
        raise MachineryError(f"determineNK dump has {len(states)} states, TLC reported {st['distinct']}")
    # the dump order of a multi-worker TLC run is not deterministic: sort by the full input before drawing
    states.sort(key=lambda s: (s["grp"], repr(s["periodic"]), repr(s["NKdiv"]), repr(s["NKFFT"]), repr(s["NK"]), repr(s["rec"])))
    limit = 30000 if thorough else 1200
    autos = [s for s in states if s["res"]["kind"] == "auto"]
    others = [s for s in states if s["res"]["kind"] != "auto"]
    rng.shuffle(autos)
    rng.shuffle(others)
    chosen = autos[:limit // 3] + others[:limit - min(len(autos), limit // 3)]
    kinds = {}
    n_same = n_accepts_invalid = n_silent = n_other_rounding = 0
    for s in chosen:
        grp = s["grp"]
        pg = KS.make_system(grp).pointgroup
        per = tuple(bool(x) for x in s["periodic"])
        args = dict(NKdiv=opt(s["NKdiv"]), NKFFT=opt(s["NKFFT"]), NK=opt(s["NK"]))
        rec = vec(s["rec"])
        r = s["res"]
        spec_ok = r["kind"] in ("ok", "auto")
        kinds[r["kind"]] = kinds.get(r["kind"], 0) + 1
        rep.case(("nk", grp, per, tuple(sorted(args.items())), rec), nontrivial=spec_ok)
        kind, d, f, nwarn, err = call_determineNK(fn, pg, per, args["NKdiv"], args["NKFFT"], args["NK"], rec)
        info = dict(group=grp, periodic=per, args=args, NKFFT_recommended=rec)
        if not spec_ok:
            n_accepts_invalid += kind == "ok"       # information only
            continue
        if kind != "ok":
            if KS.lib_fault(err) is None and not isinstance(err, AssertionError):
                raise err
            rep.violation("determineNK:refuses_valid_input", dict(info, error=f"{type(err).__name__}: {str(err)[:200]}",
                                                                  spec_result=[vec(r["div"]), vec(r["fft"])]))
            continue
        if not post_ok(pg, per, d, f):
            rep.violation("determineNK:postcondition", dict(info, got=[d, f], spec_choice=[vec(r["div"]), vec(r["fft"])],
                                                            what="entries >= 1, 1 along non-periodic directions, both grids symmetric"))
            continue
        if r["kind"] == "ok" and not explicit_value_ok(per, args["NKdiv"], args["NKFFT"], args["NK"], d, f):
            rep.violation("determineNK:value", dict(info, got=[d, f], spec_choice=[vec(r["div"]), vec(r["fft"])],
                                                    what="pair not returned as given / NKFFT changed / NKdiv not a nearest integer of NK/NKFFT"))
            continue
        if (d, f) == (vec(r["div"]), vec(r["fft"])):
            n_same += 1
        elif r["kind"] == "ok":
            n_other_rounding += 1
        if args["NK"] is not None and not (args["NKdiv"] is not None and args["NKFFT"] is not None) and nwarn == 0 \
                and tuple(x * y for x, y in zip(d, f)) != tuple(n if p else 1 for n, p in zip(args["NK"], per)):
            n_silent += 1
    for k in ("ok", "auto"):
        if kinds.get(k, 0) == 0:
            raise MachineryError(f"vacuous determineNK table: no replayed state of kind {k}")
    if kinds.get("assert", 0) + kinds.get("value_error", 0) == 0:
        raise MachineryError("vacuous determineNK table: no state the specification refuses")
    rep.part("determineNK_replay", replayed=len(chosen), of=len(states), spec_kinds=kinds, same_value_as_transcription=n_same,
             valid_but_other_rounding=n_other_rounding, information=dict(accepted_although_spec_refuses=n_accepts_invalid,
                                                                         grid_differs_from_NK_without_any_warning=n_silent))
    rep.sample(dict(fn="determineNK", group=chosen[0]["grp"], NK=opt(chosen[0]["NK"]), NKFFT=opt(chosen[0]["NKFFT"]), NKdiv=opt(chosen[0]["NKdiv"]),
                    result=dict(kind=chosen[0]["res"]["kind"])))


# ------------------------------------------------------------------------------------------------------------------
# part E: run() with calculators that are exact functions of data_K.kpoints_all


def orbits_of(N, G):
    pts = list(itertools.product(range(N[0]), range(N[1]), range(N[2])))
    seen = {}
    orbits = []
    for p in pts:
        if p in seen:
            continue
        o = sorted({KS.act_k(g, p, N) for g in G})
        for q in o:
            seen[q] = len(orbits)
        orbits.append(o)
    return orbits, seen


def part_end_to_end(rep, done, spec_groups, thorough, rng, tag):
    from wannierberri.symmetry.point_symmetry import transform_ident
    import wannierberri as wb
    byN = {}
    for (grp, div, fft, sym) in done:
        N = tuple(a * b for a, b in zip(div, fft))
        byN.setdefault((grp, N), set()).add((div, fft))
    cands = sorted(k for k, v in byN.items() if len(v) >= 3 and int(np.prod(k[1])) >= 8)
    rng.shuffle(cands)
    pick = []
    for k in cands:          # at most two grids per group, prefer many factorisations
        if sum(1 for g, _ in pick if g == k[0]) < (2 if thorough else 1):
            pick.append(k)
    pick = pick[:(60 if thorough else 7)]
    recs = []
    nruns = n_other = 0
    worst = 0.0
    for grp, N in pick:
        system = KS.make_system(grp)
        G = spec_groups[grp]
        Ntot = int(np.prod(N))
        orbits, orbit_of = orbits_of(N, G)
        oh = np.eye(Ntot)
        orbtab = np.zeros((len(orbits), Ntot))
        for p, o in orbit_of.items():
            orbtab[o, KS.flat_index(p, N)] = 1.0
        ref_orb = None
        for div, fft in sorted(byN[(grp, N)]):
            for sym in (True, False):
                s = done[(grp, div, fft, sym)]
                calcs = {"oh": KS.FieldIntegrator(N, oh, 0, transform_ident, transform_ident),
                         "orb": KS.FieldIntegrator(N, orbtab, 0, transform_ident, transform_ident)}
                info = dict(group=grp, N=N, NKdiv=div, NKFFT=fft, use_irred_kpt=sym)
                try:
                    with quiet():
                        grid = wb.Grid(system=system, NKdiv=list(div), NKFFT=list(fft))
                    res = KS.run_wb(system, grid, calcs, sym, tag + "_run")
                except KS.NonIntegral as ex:
                    rep.violation("run:kpoints_all_nonintegral", dict(info, what=str(ex)))
                    continue
                except MachineryError:
                    raise
                except Exception as ex:
                    KS.report_exception(rep, ex, "run:onehot", info)
                    continue
                nruns += 1
                rep.case(("run", grp, N, div, fft, sym))
                expect = np.zeros(Ntot)
                for (x, w), ks in zip(s["klist"], s["ksets"]):
                    for p in ks:
                        expect[KS.flat_index(vec(p), N)] += int(w)
                got = res.results["oh"].data * Ntot
                worst = max(worst, float(np.abs(got - np.rint(got)).max()))
                if np.abs(got - expect).max() > 1e-9:
                    # other representatives / order would be fine: demanded is a non-negative integer measure whose group average is uniform
                    gi = np.rint(got)
                    okm = np.abs(got - gi).max() <= 1e-9 and gi.min() >= 0 and (sym or np.all(gi == 1))
                    if okm:
                        for p in itertools.product(range(N[0]), range(N[1]), range(N[2])):
                            if abs(sum(gi[KS.flat_index(KS.act_k(g, p, N), N)] for g in G) - len(G)) > 0:
                                okm = False
                                break
                    if not okm:
                        rep.violation("run:onehot_coefficients:" + ("irreducible" if sym else "full"),
                                      dict(info, spec_measure=expect.tolist(), got=got.tolist(), unit="1/Ntot",
                                           what="integrated coefficients of the dense k-points are not a measure with uniform group average"))
                        continue
                    n_other += 1
                gorb = res.results["orb"].data * Ntot
                eorb = np.array([len(o) for o in orbits], dtype=float)
                if np.abs(gorb - eorb).max() > 1e-9:
                    rep.violation("run:orbit_weights:" + ("irreducible" if sym else "full"),
                                  dict(info, expected=eorb.tolist(), got=gorb.tolist(), unit="1/Ntot"))
                    continue
                if ref_orb is None:
                    ref_orb = gorb
                elif np.abs(gorb - ref_orb).max() > 1e-9:
                    rep.violation("run:factorisation_dependence", dict(info, maxdiff=float(np.abs(gorb - ref_orb).max()), unit="1/Ntot"))
                recs.append(dict(fn="run", grp=grp, div=list(div), fft=list(fft), sym=sym,
                                 coef=[int(v) for v in np.rint(got)], orb=[int(v) for v in np.rint(gorb)],
                                 orbits=[[list(p) for p in o] for o in orbits]))
    if nruns == 0 and not rep.violations:
        raise MachineryError("no end-to-end run was selected")
    rep.part("run_onehot", grids=[dict(group=g, N=n, factorisations=len(byN[(g, n)])) for g, n in pick], runs=nruns, tolerance=1e-9,
             worst_deviation_from_integer=worst, valid_but_different_from_spec_measure=n_other)
    return recs


# ------------------------------------------------------------------------------------------------------------------
# part D: records of larger random grids


def random_klist_records(rep, n, rng):
    names = sorted(list(KS.CART) + list(KS.HEX))
    recs = []
    tries = 0
    while len(recs) < n and tries < 50 * n:
        tries += 1
        grp = rng.choice(names)
        system = KS.make_system(grp)
        G = KS.project_group(system.pointgroup)
        div = tuple(rng.choice([1, 2, 3, 4, 5, 6]) for _ in range(3))
        fft = tuple(rng.choice([1, 1, 2, 3, 4]) for _ in range(3))
        if rng.random() < 0.5:
            div, fft = div[:2] + (1,), fft[:2] + (1,)
        r = rng.random()
        if r < 0.4:          # coupled directions have to agree for most groups
            div, fft = (div[0], div[0], div[2]), (fft[0], fft[0], fft[2])
        elif r < 0.6:
            div, fft = (div[0],) * 3, (fft[0],) * 3
        if not (KS.symmetric_grid(div, G) and KS.symmetric_grid(fft, G)):
            continue
        Ntot = int(np.prod(div) * np.prod(fft))
        if Ntot * len(G) > 3000 or Ntot > 300 or Ntot < 4:
            continue
        sym = rng.random() < 0.7
        info = dict(group=grp, NKdiv=div, NKFFT=fft, use_symmetry=sym)
        try:
            klist, ksets, _ = KS.real_klist(system, div, fft, sym)
        except KS.NonIntegral as ex:
            rep.violation("grid:nonintegral", dict(info, what=str(ex)))
            continue
        except KS.FactorisationChanged as ex:
            rep.violation("Grid:factorisation_changed", dict(info, what=str(ex)))
            continue
        except MachineryError:
            raise
        except Exception as ex:
            KS.report_exception(rep, ex, "Grid.get_K_list:symmetric_grid", info)
            continue
        if ksets is None:          # Data_K adapter not available: the k-sets are what the formula says (checked through run() elsewhere)
            return recs
        rep.case(("rec", grp, div, fft, sym))
        recs.append(dict(fn="klist", grp=grp, div=list(div), fft=list(fft), sym=sym,
                         group=[dict(A=[list(r) for r in A], inv=i, tr=t) for (A, i, t) in sorted(G)],
                         klist=[list(x) + [w] for x, w in klist], ksets=[[list(p) for p in ks] for ks in ksets]))
    return recs


def random_nk_records(rep, n, rng, fn):
    recs = []
    if fn is None:
        return recs
    for _ in range(n):
        grp = rng.choice(["C1", "C4", "C4v", "O", "H6", "mFe"])
        pg = KS.make_system(grp).pointgroup
        per = rng.choice([(True, True, True), (True, True, False)])

        def rv():
            r = rng.random()
            if r < 0.35:
                return None
            a = rng.randint(1, 12)
            if r < 0.7:
                return (a, a, a)
            return (a, a, rng.randint(1, 8))
        a = dict(NKdiv=rv(), NKFFT=rv(), NK=rv())
        rec = rng.choice([(1, 1, 1), (2, 2, 2), (3, 3, 1), (2, 2, 3)])
        kind, d, f, nwarn, err = call_determineNK(fn, pg, per, a["NKdiv"], a["NKFFT"], a["NK"], rec, scalarise=rng.random() < 0.5)
        if err is not None and KS.lib_fault(err) is None and not isinstance(err, AssertionError):
            raise err
        rep.case(("nkrec", grp, per, tuple(sorted(a.items())), rec))
        recs.append(dict(fn="nk", grp=grp, periodic=list(per), NKdiv=list(a["NKdiv"] or []), NKFFT=list(a["NKFFT"] or []),
                         NK=list(a["NK"] or []), rec=list(rec), kind=kind, div=list(d or []), fft=list(f or []), nwarn=nwarn))
    return recs


def part_records(rep, recs, thorough, tag):
    # binding self-test: corrupted copies travel in the same batch (last chunk) and must be rejected
    corrupted = []
    want = []
    kl = next((r for r in recs if r["fn"] == "klist" and r["sym"] and any(k[3] > 1 for k in r["klist"])), None)
    if kl is not None:
        c = copy.deepcopy(kl)
        j = next(j for j, k in enumerate(c["klist"]) if k[3] > 1)
        c["klist"][j][3] -= 1
        corrupted.append(c)
        want.append({"klist_valid", "weight_sum", "uniform_cover"})
        c = copy.deepcopy(kl)
        if len(c["ksets"]) > 1:
            c["ksets"][0][0], c["ksets"][-1][-1] = c["ksets"][-1][-1], c["ksets"][0][0]
            corrupted.append(c)
            want.append({"ksets_valid"})
    rr = next((r for r in recs if r["fn"] == "run" and r["sym"] and len(set(r["coef"])) > 1), None)
    if rr is not None:
        c = copy.deepcopy(rr)
        c["coef"][0] += 1
        corrupted.append(c)
        want.append({"total_weight", "symmetrised_uniform", "orbit_measure"})
    nk = next((r for r in recs if r["fn"] == "nk" and r["kind"] == "ok" and r["NKdiv"] and r["NKFFT"]), None)
    if nk is not None:
        c = copy.deepcopy(nk)
        c["div"][0] += 1
        corrupted.append(c)
        want.append({"value", "post"})
    if len(corrupted) < 2:
        raise MachineryError("binding self-test: not enough records to corrupt")
    stv, bad = ftable.validate_records("FactorKernelRec.tla", ftable.REC_CFG, recs + corrupted, tag, timeout=1500, chunk=400)
    stv = dict(stv, distinct=stv["distinct"] - len(corrupted), generated=stv["generated"] - 2 * len(corrupted))
    rep.add_tlc("c03_records", stv)
    rep.add_traces(len(recs))
    b2 = {i - len(recs): bad.pop(i) for i in sorted(bad) if i >= len(recs)}
    for i, w in enumerate(want):
        if i not in b2 or not (set(b2[i]) & w):
            raise MachineryError(f"binding self-test failed: corrupted record {i} ({corrupted[i]['fn']}) accepted (failing clauses {b2.get(i)})")
    rep.part("binding_selftest", corrupted_records_rejected={str(i): b2[i] for i in b2})
    for i, clauses in sorted(bad.items()):
        r = recs[i]
        small = {k: v for k, v in r.items() if k not in ("group", "ksets", "orbits")}
        if "harness_group_is_catalogue" in clauses:
            raise MachineryError(f"catalogue mismatch: the recorded PointGroup of {r['grp']} is not the specification's group")
        site = {"klist": "Grid.get_K_list/Data_K.kpoints_all", "run": "run:onehot", "nk": "determineNK"}[r["fn"]]
        rep.violation(f"{site}:recorded", dict(record=small, failing_clauses=clauses))
    rep.sample({k: v for k, v in recs[0].items() if k not in ("group", "ksets", "orbits")})


# ------------------------------------------------------------------------------------------------------------------
# part F (float, deciding): real calculators, all factorisations, both FFT libraries


def factorisations(N):
    per = [[(d, n // d) for d in range(1, n + 1) if n % d == 0] for n in N]
    return [(tuple(x[0] for x in c), tuple(x[1] for x in c)) for c in itertools.product(*per)]


def covering_sample(facts, n, rng):
    """at most n factorisations: NKFFT = N, NKdiv = N, then greedily those that show a new (direction, NKFFT_i) together with a
    non-trivial K-shift (NKdiv_i > 1), then a seeded random fill"""
    if len(facts) <= n:
        return list(facts)
    chosen = [facts[0], facts[-1]]
    rest = [f for f in facts[1:-1]]
    rng.shuffle(rest)
    covered = set()
    while len(chosen) < n and rest:
        gain = lambda f: len({(i, f[1][i]) for i in range(3) if f[0][i] > 1 and f[1][i] > 1} - covered)
        best = max(rest, key=gain)
        if gain(best) == 0:
            break
        covered |= {(i, best[1][i]) for i in range(3) if best[0][i] > 1 and best[1][i] > 1}
        chosen.append(best)
        rest.remove(best)
    chosen += rest[:max(0, n - len(chosen))]
    return chosen


def real_calculators(Ef, omega, tab=True, external=False, tetra=True):
    from wannierberri import calculators as calc
    kf = {} if external else {"external_terms": False}
    sm = dict(save_mode="")
    c = {"cumdos": calc.static.CumDOS(Efermi=Ef, **sm),
         "dos": calc.static.DOS(Efermi=Ef, **sm),
         "ahc": calc.static.AHC(Efermi=Ef, kwargs_formula=kf, **sm),
         "ohmic_sea": calc.static.Ohmic_FermiSea(Efermi=Ef, **sm),
         "ohmic_surf": calc.static.Ohmic_FermiSurf(Efermi=Ef, **sm),
         "bdipole": calc.static.BerryDipole_FermiSea(Efermi=Ef, kwargs_formula=kf, **sm),
         "opt": calc.dynamic.OpticalConductivity(Efermi=Ef[1::3], omega=omega, kBT=0.05, smr_fixed_width=0.2, kwargs_formula=kf, **sm),
         "jdos": calc.dynamic.JDOS(Efermi=Ef[1::3], omega=omega, kBT=0.05, smr_fixed_width=0.2, **sm)}
    if tetra:      # the corners of the tetrahedron method come from Kpoint.dK_fullBZ = dK / NKFFT: a factorisation-dependent path
        c["dos_tetra"] = calc.static.DOS(Efermi=Ef, tetra=True, **sm)
        c["cumdos_tetra"] = calc.static.CumDOS(Efermi=Ef, tetra=True, **sm)
        c["ahc_tetra"] = calc.static.AHC(Efermi=Ef, tetra=True, kwargs_formula=kf, **sm)
    if tab:
        c["tab"] = calc.TabulatorAll({"Energy": calc.tabulate.Energy(), "vel": calc.tabulate.Velocity(),
                                      "berry": calc.tabulate.BerryCurvature(kwargs_formula=kf),
                                      "mass": calc.tabulate.InvMass()}, mode="grid", save_mode="")
    return c


def kp_calculators(Ef, omega, tab=True):
    from wannierberri import calculators as calc
    sm = dict(save_mode="")
    c = {"cumdos": calc.static.CumDOS(Efermi=Ef, **sm), "dos_tetra": calc.static.DOS(Efermi=Ef, tetra=True, **sm),
         "ohmic_sea": calc.static.Ohmic_FermiSea(Efermi=Ef, **sm), "ahc": calc.static.AHC(Efermi=Ef, **sm)}
    if tab:
        c["tab"] = calc.TabulatorAll({"Energy": calc.tabulate.Energy(), "vel": calc.tabulate.Velocity(), "berry": calc.tabulate.BerryCurvature()},
                                     mode="grid", save_mode="")
    return c


def soc_calculators(Ef, omega, tab=True):
    from wannierberri import calculators as calc
    sm = dict(save_mode="")
    c = {"cumdos": calc.static.CumDOS(Efermi=Ef, **sm), "dos_tetra": calc.static.DOS(Efermi=Ef, tetra=True, **sm),
         "ahc": calc.static.AHC(Efermi=Ef, **sm), "spin": calc.static.Spin(Efermi=Ef, **sm)}
    if tab:
        c["tab"] = calc.TabulatorAll({"Energy": calc.tabulate.Energy(), "berry": calc.tabulate.BerryCurvature(), "spin": calc.tabulate.Spin()},
                                     mode="grid", save_mode="")
    return c


def spin_calculators(Ef, omega, tab=True):
    """the spin / orbital-moment / external-term families (need SS, BB, CC, ... : a spinful kmodels system)"""
    from wannierberri import calculators as calc
    sm = dict(save_mode="")
    dyn = dict(Efermi=Ef[1::3], omega=omega, kBT=0.05, smr_fixed_width=0.2, save_mode="")
    c = {"spin": calc.static.Spin(Efermi=Ef, **sm), "morb": calc.static.Morb(Efermi=Ef, **sm), "ahc": calc.static.AHC(Efermi=Ef, **sm),
         "shc_static": calc.static.SHC(Efermi=Ef, **sm), "gme_spin": calc.static.GME_spin_FermiSurf(Efermi=Ef, **sm),
         "gme_orb": calc.static.GME_orb_FermiSurf(Efermi=Ef, **sm), "nlahc": calc.static.NLAHC_FermiSea(Efermi=Ef, **sm),
         "nldrude": calc.static.NLDrude_FermiSea(Efermi=Ef, **sm), "ahc_zeeman_spin": calc.static.AHC_Zeeman_spin(Efermi=Ef, **sm),
         "shc": calc.dynamic.SHC(**dyn), "shift": calc.dynamic.ShiftCurrent(sc_eta=0.1, **dyn), "opt": calc.dynamic.OpticalConductivity(**dyn)}
    if tab:
        c["tab"] = calc.TabulatorAll({"Energy": calc.tabulate.Energy(), "spin": calc.tabulate.Spin(), "morb": calc.tabulate.OrbitalMoment(),
                                      "spinberry": calc.tabulate.SpinBerry(), "derberry": calc.tabulate.DerBerryCurvature()},
                                     mode="grid", save_mode="")
    return c


def energies_safe(E, Ef, thresh=1e-4, margin=1e-6):
    """named exclusion (EnergiesSafe): band energies at grid points keep `margin` from every Fermi bin edge (floating ceil; the
    edges are Ef[0] + n*dE for all integer n, which covers the extra bins of the code) and no band gap is within `margin` of the
    degeneracy threshold"""
    E = np.asarray(E).reshape(-1, np.asarray(E).shape[-1])
    dE = Ef[1] - Ef[0]
    x = (E - Ef[0]) / dE
    if np.abs(x - np.rint(x)).min() * dE < margin:
        return False
    gaps = np.diff(np.sort(E, axis=1), axis=1)
    if gaps.size and np.abs(gaps - thresh).min() < margin:
        return False
    return True


def compare_resultdicts(ref, res, tol, scales=None):
    """-> (list of (key, maxdiff, scale) exceeding tol*scale, worst relative deviation).  Integrated quantities are compared on
    the scale max(|value|, largest single-k contribution) (scales[key], see _ksym.term_scales), tabulated ones on max(1, |value|)"""
    from wannierberri.result.tabresult import TABresult
    bad = []
    worst = 0.0
    for k, v in ref.results.items():
        w = res.results[k]
        if isinstance(v, TABresult):
            dk = np.asarray(v.kpoints) - np.asarray(w.kpoints) if np.shape(v.kpoints) == np.shape(w.kpoints) else None
            if dk is None or np.abs(dk - np.rint(dk)).max() > 1e-9:          # k-points are defined modulo 1
                bad.append((k + ".kpoints", float("inf"), 1.0))
                continue
            for q in v.results:
                a, b = v.get_data(quantity=q), w.get_data(quantity=q)
                sc = max(1.0, float(np.abs(a).max()))
                d = float(np.abs(a - b).max()) if a.shape == b.shape else float("inf")
                worst = max(worst, d / sc)
                if not d <= tol * sc:
                    bad.append((f"{k}.{q}", d, sc))
        else:
            a, b = v.data, w.data
            sc = max(float(np.abs(a).max()), (scales or {}).get(k, 0.0), 1e-300)
            d = float(np.abs(a - b).max()) if a.shape == b.shape else float("inf")
            worst = max(worst, d / sc)
            if not d <= tol * sc:
                bad.append((k, d, sc))
    return bad, worst


def numeric_worlds(thorough):
    """(label, builder(numpy RandomState) -> system | None, calculators(Ef, omega, tab), grids, fft libraries, max factorisations)"""
    from . import kmodels as km

    def r_aa(r):
        return KS.random_system_R(r, nw=2 + r.randint(2), with_AA=True)

    def r_aa_planar(r):
        s = KS.random_system_R(r, nw=2 + r.randint(2), with_AA=True, Rs=[(0, 0, 0), (1, 0, 0), (0, 1, 0), (1, 1, 0), (1, -1, 0)])
        s.periodic = np.array([True, True, False])
        return s

    def kp(r):
        return KS.random_system_kp(r, nw=2)

    def soc(r):
        return KS.random_system_soc(r, nw=2)

    def spinful(r):
        m = km.build(int(r.randint(1 << 30)), nw=2, keys=km.ALLKEYS, spinful=True)
        return m.system(periodic=(True, True, False))
    def c4v(r):
        rr = random.Random(int(r.randint(1 << 30)))
        ham = KS.symmetric_hamiltonian("C4v", rr, nw=2, planar=True)
        return KS.make_system("C4v", nw=2, ham=ham, periodic=(True, True, False))
    ext = lambda Ef, om, tab=True: real_calculators(Ef, om, tab=tab, external=True)
    # without the tetrahedron calculators: the 12 tetrahedra of TetraWeightsParal cut every face along one fixed diagonal, which a
    # 4-fold rotation or a mirror maps to the other one - with symmetry reduction the tetrahedron results are not those of the
    # full grid (C07's business: known finding run:tetra:irreducible_vs_full; property of the symmetry reduction, not of the factorisation)
    internal = lambda Ef, om, tab=True: real_calculators(Ef, om, tab=tab, external=False, tetra=False)
    both = ("fftw", "numpy")
    # 6 = 2 x 3: the only way to have an odd FFT length together with a non-zero K-shift
    w = [("R+AA planar", r_aa_planar, ext, [(6, 4, 1)] + ([(4, 4, 1), (6, 6, 1), (8, 4, 1)] if thorough else []), both, 9 if thorough else 5),
         ("R+AA", r_aa, ext, [(3, 4, 2)] + ([(4, 2, 2), (6, 2, 2), (5, 3, 1)] if thorough else []), both, 12 if thorough else 5),
         ("k.p", kp, kp_calculators, [(3, 4, 2)] + ([(4, 4, 1)] if thorough else []), ("fftw",), 6 if thorough else 4),
         ("SOC", soc, soc_calculators, [(3, 4, 2)] + ([(4, 4, 1)] if thorough else []), both, 6 if thorough else 3),
         ("spinful all matrices", spinful, spin_calculators, [(4, 3, 1)] + ([(6, 4, 1)] if thorough else []), both, 6 if thorough else 3),
         # factorisation x symmetry: every factorisation into two C4v-symmetric grids, irreducible K-points + symmetrisation,
         # against the full unsymmetrised run of the first factorisation
         ("C4v-symmetric, irreducible", c4v, internal, [(4, 4, 1)] + ([(6, 6, 1)] if thorough else []), ("fftw",), 4)]
    return w


def part_numeric(rep, thorough, rng, tag):
    import wannierberri as wb
    Ef0 = np.linspace(-2.0, 2.0, 9)
    omega = np.linspace(0.0, 3.0, 4)
    nsys = 2 if thorough else 1
    ncmp = 0
    worst = 0.0
    skipped = 0
    per_world = {}
    for label, build, mkcalcs, Ns, libs, maxfac in numeric_worlds(thorough):
        nw_cmp = 0
        for N in Ns:
            done_sys = 0
            attempts = 0
            while done_sys < nsys and attempts < 10:
                attempts += 1
                r = np.random.RandomState(rng.randrange(1 << 30))
                system = build(r)
                if system is None:          # built through private names that are gone
                    break
                facts = factorisations(N)
                irred = "irreducible" in label
                if irred:
                    Gs = KS.project_group(system.pointgroup)
                    facts = [f for f in facts if KS.symmetric_grid(f[0], Gs) and KS.symmetric_grid(f[1], Gs)]
                facts = covering_sample(facts, maxfac, rng)
                info0 = dict(world=label, N=N, system_seed=seed(), attempt=attempts)
                try:
                    # Fermi levels around the spectrum of this system
                    with quiet():
                        g0 = wb.Grid(system=system, NKdiv=list(facts[0][0]), NKFFT=list(facts[0][1]))
                    E0 = KS.run_wb(system, g0, {"tab": mkcalcs(Ef0, omega)["tab"]}, False, tag + "_num").results["tab"].get_data(quantity="Energy")
                    lo, hi = float(np.min(E0)), float(np.max(E0))
                    Ef = np.linspace(lo + 0.15 * (hi - lo), hi - 0.15 * (hi - lo), 9)
                    if not energies_safe(E0, Ef):
                        skipped += 1
                        continue
                    scales = KS.term_scales(system, N, mkcalcs(Ef, omega, tab=False), tag + "_num")
                except MachineryError:
                    raise
                except Exception as ex:
                    KS.report_exception(rep, ex, f"run:{label}", info0)
                    break
                ref = None
                for div, fft in facts:
                    for lib in libs:
                        info = dict(info0, NKdiv=div, NKFFT=fft, fftlib=lib, use_irred_kpt=bool(irred and ref is not None))
                        try:
                            with quiet():
                                grid = wb.Grid(system=system, NKdiv=list(div), NKFFT=list(fft))
                            res = KS.run_wb(system, grid, mkcalcs(Ef, omega), irred and ref is not None, tag + "_num", parameters_K=dict(fftlib=lib))
                        except MachineryError:
                            raise
                        except Exception as ex:
                            KS.report_exception(rep, ex, f"run:{label}", info)
                            continue
                        if ref is None:
                            ref = (res, div, fft, lib)
                            continue
                        rep.case(("num", label, N, done_sys, div, fft, lib))
                        ncmp += 1
                        nw_cmp += 1
                        bad, w = compare_resultdicts(ref[0], res, TOL, scales)
                        worst = max(worst, w)
                        for k, d, sc in bad:
                            rep.violation(f"numeric:factorisation:{k}", dict(info, reference=dict(NKdiv=ref[1], NKFFT=ref[2], fftlib=ref[3]),
                                                                             maxdiff=d, magnitude=sc, tolerance=TOL))
                done_sys += 1
        per_world[label] = nw_cmp
    KS.flush_private(rep)
    missing = [k for k, v in per_world.items() if v == 0 and not (k == "SOC" and "SystemSOC" in KS._PRIVATE)]
    if missing and not rep.violations:
        raise MachineryError(f"real-calculator part made no comparison for {missing} (excluded by EnergiesSafe: {skipped})")
    rep.part("real_calculators", deciding=True,
             what="CumDOS, DOS, AHC, Ohmic (sea/surface), BerryDipole, OpticalConductivity, JDOS, tetrahedron DOS/CumDOS/AHC, TabulatorAll(Energy, "
                  "Velocity, BerryCurvature, InvMass) with external terms on random R-space models with AA; a k.p system; a SystemSOC; Spin, Morb, "
                  "SHC (static, dynamic), GME, NLAHC, NLDrude, AHC_Zeeman_spin, ShiftCurrent, tabulated Spin/OrbitalMoment/SpinBerry/DerBerry on a "
                  "spinful model with all matrices: every (quick: sampled) factorisation and fftlib in {fftw, numpy} against the first; a C4v-symmetric "
                  "model: irreducible + symmetrised runs of every symmetric factorisation against the full run of the first",
             comparisons=per_world, total=ncmp, worst_relative_deviation=worst, tolerance=TOL,
             tolerance_over_worst=(TOL / worst if worst > 0 else None), systems_excluded_by_EnergiesSafe=skipped)


def check(pid, tier):
    rep = Report(pid, tier, "model_checking")
    thorough = tier == "thorough"
    rng = random.Random(seed() * 7919 + 3)
    os.environ.setdefault("JAVA_TOOL_OPTIONS", "-Xss64m")      # TLC worker threads evaluate deep (non-tail) recursions of the sort/fold operators
    tag = KS.scratch("c03")
    workdir(tag + "_run")
    workdir(tag + "_num")
    rep.rule("a case = one finished TLC state (group, NKdiv, NKFFT, use_symmetry) replayed on the real Grid/get_K_list/Data_K.kpoints_all, "
             "one state of the determineNK table replayed on the real function, one real run() with the one-hot calculator, one recorded "
             "random grid / determineNK call validated by TLC, or one real-calculator run compared with the reference "
             "factorisation; distinct by input tuple")
    rep.assume("Grid() is given NKdiv and NKFFT that are symmetric under the point group; lattices are cubic-type or hexagonal")
    rep.assume("real-calculator part: band energies at the grid points keep 1e-6 from the Fermi bin edges and gaps keep 1e-6 from degen_thresh (EnergiesSafe)")
    try:
        t0 = cpu_seconds()
        done, spec_groups = part_factor_kernel(rep, thorough, rng, tag)
        part_sensitivity(rep, tag, thorough)
        fn, why = KS.determineNK_adapter()
        if fn is None:
            KS.skipped_private(rep, "determineNK", why)
        part_determine_nk(rep, thorough, rng, tag, fn)
        recs = part_end_to_end(rep, done, spec_groups, thorough, rng, tag)
        if not thorough and len(recs) > 16:          # quick: a seeded sample of the run() records is validated by TLC
            recs = rng.sample(recs, 16)
        recs = random_klist_records(rep, 250 if thorough else 10, rng) + recs + random_nk_records(rep, 1500 if thorough else 40, rng, fn)
        if recs:
            part_records(rep, recs, thorough, tag)
        elif not rep.violations:
            raise MachineryError("no record could be produced")
        t1 = cpu_seconds()
        part_numeric(rep, thorough, rng, tag)
        KS.flush_private(rep)
        rep.part("numeric_only", parts=["real_calculators"], note="float comparisons (deciding, but not part of the model_checking level claim)")
        rep.part("cpu_seconds", exact_parts=round(t1 - t0, 1), real_calculators=round(cpu_seconds() - t1, 1), **cpu_split())
    except Exception:
        if rep.violations:          # never lose what was already found
            KS.flush_private(rep)
            rep.finish()
        cleanup(tag, keep_tlc=True)
        raise
    rc = rep.finish()
    cleanup(tag, keep_tlc=bool(rep.violations))
    return rc
