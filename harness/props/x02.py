"""X02 (extension): orbital / spin ordering, spin matrices, sparse round trips and the index maps of the R-vector list.

spec  : SysOrder.tla (systems with an ORDERED R-list, shift lists and tensors indexed by position; operators named like the
        code: RvIR / RvIR0 / RvIndexR / RvReverseR / RvConjXXR / RvExcludeZeros / RvReorder / RvDoubleSpin / MergeRvectors,
        SpinBlock2Interlace / SpinInterlace2Block / Reorder / DoubleSpin / SetSpinPairs / SetSpinInterlaced /
        SetSpinEigenstates / GetSparse / FromSparse; laws LabelsLaw, PauliAlgebra, LawSparse, ExcludeLaws, ReverseRValid,
        MergeValid, MergeComposes), MC_SysOrder.tla (a store with one system: every sequence of <= MAXLEN actions from
        every catalogue system; `hist` carries the spectra and the failed laws of every step), MC_SysOrderMaps.tla (function
        tables over R-lists), SysOrderRec.tla (record validation)
bind  : spec -> code: every behaviour of MC_SysOrder is executed on a real System_R (built with the R-list in the
        specification's order, every second one with the on-site terms set through set_R_mat(diag=True)); after every step
        the real object is projected and compared with the specification's state as a function R -> matrix (+ centres,
        shifts), and the characteristic polynomial of H(k) from the package's own R_to_k is compared with the one TLC
        computed; every state of MC_SysOrderMaps is executed on real Rvectors objects / merge_Rvectors.
        code -> spec: seeded random calls of the real methods are recorded and validated clause by clause by TLC.
rules : orders of lists (R-list of from_sparse / merge_Rvectors, order of the pairs of reverseR), exception classes, which
        zero R-blocks are stored and what a refused call leaves behind are information; violations come from exact
        comparisons of representation-free values, from TLC clauses, from the spectrum (relative 1e-8, observed 1e-15) and
        from the package raising on a specification-chosen input.
"""
import copy
import os
import random
import zlib
import concurrent.futures as cf

import numpy as np

from .. import tlc, ftable
from ..common import Report, MachineryError, seed
from . import _x02_world as W

PROPS = {
    "X02": dict(level="model_checking",
                technique="TLC exhaustive on SysOrder.tla (MC_SysOrder: store of one exact system, all action sequences up to the bound over a "
                          "catalogue of 8 systems; MC_SysOrderMaps: function tables of the R-list index maps and merge_Rvectors) + replay of "
                          "every behaviour / table row on the real System_R, Rvectors, merge_Rvectors (exact projection, spectrum of H(k) from "
                          "the package's own R_to_k) + TLC validation of recorded random calls (SysOrderRec) + 5 must-fail spec variants",
                text="Actions spin_block2interlace / spin_interlace2block (forward, backward), reorder, double_spin, set_spin_pairs (interlaced via "
                     "set_spin_interlaced, block pairs, one reversed pair), set_spin_eigenstates (3 axes, reset), get_sparse -> from_sparse (4 "
                     "threshold sets), Rvectors.exclude_zeros (2 tolerances), conj_XX_R of every matrix; laws per step (TLC): the orbital/spin "
                     "labels of block and interlaced ordering, inverse and backward = inverse, spectrum of H(k) invariant (doubled for "
                     "double_spin, conjugated for conj), shifts of the Rvectors object = centres, Pauli algebra on the paired functions and "
                     "S_z = +-1 (also after later re-orderings), pairing block-ordered functions commutes with interlacing, S.n = diag(spins), "
                     "from_sparse(get_sparse(s)) = s above the threshold with Hermitian partners kept and idempotent, exclude_zeros loses "
                     "nothing above the tolerance and leaves no zero block, conj twice = identity on the R-vectors with partner and "
                     "Hermitian <=> fixed point; tables: iR / iR0 / index_R name the position, reverseR pairs are valid, listed once and an "
                     "involution (counting law with the unpartnered positions), merge maps point at the same vector, are injective and "
                     "compose. Every behaviour and table row is executed on the real code; seeded random records of all methods are "
                     "validated by TLC.",
                note="exact part: Gaussian-integer matrices, centres in quarters, R within +-1, k in quarters; thresholds sqrt(T2/2) with T2 odd "
                     "(NoTie); information only: order of the R-list after from_sparse / merge_Rvectors, order of reverseR pairs, warnings, "
                     "exception classes, ties at the threshold, odd num_wann in spin_block2interlace, empty pair list, a sparse form in "
                     "which nothing survives, lists with a repeated R-vector; not modelled: symmetrize, remap_XX_from_grid_to_list_R "
                     "(C01), npz / file round trips (C18)",
                ref="DESIGN.md 10.9"),
}

SW = dict(B2IBackward='"inverse"', ReorderShifts="TRUE", SparseNorm='"max"', PauliY='"std"', MergeMapInto='"merged"')
ALL_ACTS = ["b2i", "i2b", "reorder", "double_spin", "spin_pairs", "spin_eigen", "sparse", "exclude_zeros", "conj"]
ALL_SYS = ["s1", "s2", "s3", "b2", "b4", "b6", "z2", "n2"]
SM_INVS = ["LawsHold", "Shapes", "ShiftsFollowCentres", "SpinConsistent", "IndexMaps", "RealSpectrum"]
MAP_INVS = ["InModel", "IndexLaws", "ReverseLaws", "DupRefused", "MergeLaws", "MergeComposesLaw"]
SITE = dict(b2i="spin_block2interlace", i2b="spin_interlace2block", reorder="reorder", double_spin="double_spin", spin_pairs="set_spin_pairs",
            spin_eigen="set_spin_eigenstates", sparse="get_sparse_from_sparse", exclude_zeros="Rvectors.exclude_zeros", conj="Rvectors.conj_XX_R")
POOLSEQ = [(0, 0, 0), (1, 0, 0), (-1, 0, 0), (0, 1, 0), (1, 1, 0), (0, -1, 0)]
SPEC_TOL = 1e-8         # relative, on the coefficients of the characteristic polynomial (observed 1e-15)


def sset(names):
    return "{" + ", ".join(f'"{n}"' for n in names) + "}"


def cfg(consts, invs, sw=None, spec="Spec"):
    c = dict(SW)
    c.update(sw or {})
    c.update(consts)
    return (f"SPECIFICATION {spec}\nCONSTANTS\n" + "".join(f"  {k} = {v}\n" for k, v in c.items())
            + "".join(f"INVARIANT {i}\n" for i in invs) + "CHECK_DEADLOCK FALSE\n")


def stable(obj, m):
    return zlib.crc32(repr(obj).encode()) % m


def cpu():
    """CPU seconds of this process (the JVMs are children: reported separately)"""
    t = os.times()
    return t.user + t.system


def cpu_children():
    t = os.times()
    return t.children_user + t.children_system


def hkey(hist):
    return tuple((e["op"], e["arg"]) for e in hist)


def run_model(module, text, name, workers=4, dump=True, timeout=3000):
    st = tlc.run_tlc(module, text, name, workers=workers, dump=dump, coverage=False, timeout=timeout)
    if st.get("timeout"):
        raise MachineryError(f"TLC timed out on {name}")
    if st.get("error") and not st.get("violation"):
        raise MachineryError(f"TLC error on {name}: {st['error'][:600]}")
    return st


# --------------------------------------------------------------------------- spec -> code: behaviours of the store
class StoreReplay:
    def __init__(self, rep, g):
        self.rep, self.g = rep, g
        self.ops = {}
        self.systems = {}
        self.info = {}
        self.maxdev = 0.0
        self.steps = 0

    def note(self, k):
        self.info[k] = self.info.get(k, 0) + 1

    def behaviour(self, states, key):
        s0 = states[key[:1]]
        sid = key[0][1]
        variant = stable(key, 6)
        lattice = W.LATTICES[variant % 3]
        diag = variant >= 3
        init = W.canon_sys(s0["sys"])
        detail = dict(system=sid, lattice=lattice.tolist(), onsite_terms_by_set_R_mat_diag=diag, actions=[list(k) for k in key[1:]])
        ok, x, _ = self.g.call("build", detail, W.build, init, lattice, diag)
        if not ok:
            return False
        self.systems[sid] = self.systems.get(sid, 0) + 1
        if not self.compare(x, s0, "build", detail, 0):
            return False
        for n in range(1, len(key)):
            op, arg = key[n]
            st = states[key[:n + 1]]
            site = SITE[op] if not (op == "spin_pairs" and arg == "interlaced") else "set_spin_interlaced"
            d = dict(detail, step=n, action=[op, arg])
            ok, x, _ = self.g.call(site, d, W.apply_op, x, op, arg)
            if not ok:
                return False
            self.ops[op] = self.ops.get(op, 0) + 1
            self.steps += 1
            if not self.compare(x, st, site, d, n):
                return False
        return True

    def compare(self, x, st, site, detail, n):
        exp = W.canon_sys(st["sys"])
        try:
            got = W.project(x)
        except W.NotExact as ex:
            self.g.violation(f"{site}:not_exact", dict(detail, problem=str(ex)))
            return False
        hard, info = W.differences(got, exp)
        for i_ in info:
            self.note(f"{site}:{i_}_differs_from_model")
        if hard:
            self.g.violation(f"{site}:{hard[0]}", dict(detail, differing=hard, expected={k: exp[k] for k in ("nw", "cen", "sl", "sr")},
                                                      got={k: got[k] for k in ("nw", "cen", "sl", "sr")},
                                                      expected_matrices={k: sorted(W.as_function(exp, k).items())[:12] for k in exp["mats"]},
                                                      got_matrices={k: sorted(W.as_function(got, k).items())[:12] for k in got["mats"]}))
            return False
        # spectrum of H(k) from the package's own R -> k transform against the characteristic polynomials TLC computed
        cp = st["hist"][n]["cp"]
        ok, num, _ = self.g.call("Rvectors.R_to_k", detail, W.charpolys, x)
        if not ok:
            return False
        for ik, (cs, es) in enumerate(zip(num, cp)):
            scale = max(1.0, max(abs(complex(e[0], e[1])) for e in es))
            dev = max(abs(c - complex(e[0], e[1])) for c, e in zip(cs, es)) / scale
            self.maxdev = max(self.maxdev, dev)
            if dev > SPEC_TOL:
                self.g.violation(f"{site}:spectrum", dict(detail, k_quarters=W.KS[ik], expected_charpoly=[list(e) for e in es],
                                                          got=[[c.real, c.imag] for c in cs], relative_deviation=dev, tolerance=SPEC_TOL))
                return False
        return True


# --------------------------------------------------------------------------- spec -> code: function tables
def fresh_rvec(rlist, nshift=2):
    _, Rvectors, _ = W.classes()
    sh = np.array([[0.25 * (a + 1), 0.5 * a, 0.0] for a in range(nshift)])
    return Rvectors(lattice=np.eye(3), iRvec=np.array(rlist, dtype=int).reshape(-1, 3), shifts_left_red=sh)


def res_of(r):
    return (r["err"], r["val"] if r["err"] == "" else None)


class MapsReplay:
    def __init__(self, rep, g):
        self.rep, self.g = rep, g
        self.count = {}
        self.info = {}

    def note(self, k):
        self.info[k] = self.info.get(k, 0) + 1

    def cls(self, k):
        self.count[k] = self.count.get(k, 0) + 1

    def one(self, s):
        kind = s["kind"]
        if kind == "idx":
            self.idx(s)
        else:
            self.merge(s)

    def idx(self, s):
        l1 = W.lst(s["l1"])
        out = s["out"]
        nodup = len({tuple(R) for R in l1}) == len(l1)
        d = dict(iRvec=l1)
        self.cls("idx:" + ("nodup" if nodup else "dup"))
        rv = fresh_rvec(l1)
        # iR / iR0 / index_R
        for n, R in enumerate(POOLSEQ):
            exp = res_of(out["ir"][n])
            try:
                got = ("", int(rv.iR(list(R))))
            except W.ENVIRONMENT_ERRORS:
                raise
            except Exception as ex:
                got = (type(ex).__name__, None)
            if nodup and ((got[0] == "") != (exp[0] == "") or (got[0] == "" and got[1] != exp[1])):
                self.g.violation("Rvectors.iR:position", dict(d, R=list(R), expected=exp, got=got))
            elif got != exp:
                self.note("iR:differs_from_model" if got[0] == "" or exp[0] == "" else "iR:exception_class")
        exp0 = res_of(out["ir0"])
        try:
            got0 = ("", int(rv.iR0))
        except W.ENVIRONMENT_ERRORS:
            raise
        except Exception as ex:
            got0 = (type(ex).__name__, None)
        self.cls("iR0:" + ("present" if exp0[0] == "" else "absent"))
        if nodup and ((got0[0] == "") != (exp0[0] == "") or (got0[0] == "" and got0[1] != exp0[1])):
            self.g.violation("Rvectors.iR0:position", dict(d, expected=exp0, got=got0))
        ok, idx, _ = self.g.call("Rvectors.index_R", d, lambda: {tuple(int(c) for c in k): int(v) for k, v in rv.index_R.items()})
        if ok:
            expi = {tuple(k): v for k, v in dict(out["index"]).items()}
            if idx != expi:
                if nodup:
                    self.g.violation("Rvectors.index_R:position", dict(d, expected=sorted(expi.items()), got=sorted(idx.items())))
                else:
                    self.note("index_R:differs_from_model_on_repeated_vector")
        # reverseR read directly from a fresh object (nothing else has been called on it)
        fresh = fresh_rvec(l1)
        exp_err = out["rev"]["err"]
        expp = set(zip(out["rev"]["lstR"], out["rev"]["lstmR"]))
        nf = len(out["notfound"])
        self.cls("reverseR:" + ("all_partnered" if nf == 0 else "some_unpartnered") if nodup else "reverseR:dup")
        direct = self.g.call("Rvectors.reverseR", dict(d, how="Rvectors(lattice, iRvec=iRvec).reverseR", positions_without_partner=sorted(out["notfound"])),
                             lambda: fresh.reverseR) if (nodup and exp_err == "") else (False, None, [])
        fresh2 = fresh_rvec(l1)
        X = np.zeros((len(l1), 1, 1), dtype=complex)
        try:
            import warnings as _w
            with _w.catch_warnings(record=True) as ws:
                _w.simplefilter("always")
                fresh2.conj_XX_R(X)
                pair = fresh2.reverseR
            got_err = ""
        except W.ENVIRONMENT_ERRORS:
            raise
        except Exception as ex:
            got_err, pair, ws = type(ex).__name__, None, []
        if nodup:
            if got_err:
                self.g.violation(f"raises:Rvectors.conj_XX_R:{got_err}", dict(d, what="conj_XX_R refuses a duplicate-free R-list"))
                return
            gp = set(zip([int(v) for v in pair[0]], [int(v) for v in pair[1]]))
            if gp != expp:
                self.g.violation("Rvectors.reverseR:pairs", dict(d, expected=sorted(expp), got=sorted(gp)))
            elif [int(v) for v in pair[0]] != list(out["rev"]["lstR"]):
                self.note("reverseR:order_differs_from_model")
            if direct[0]:
                dp = set(zip([int(v) for v in direct[1][0]], [int(v) for v in direct[1][1]]))
                if dp != expp:
                    self.g.violation("Rvectors.reverseR:pairs", dict(d, how="read directly", expected=sorted(expp), got=sorted(dp)))
            if len(ws) != nf:
                self.note("conj_XX_R:number_of_warnings_differs_from_unpartnered_positions")
        else:
            if (got_err != "") != (exp_err != ""):
                self.note("reverseR:repeated_vector_status_differs_from_model")
        # Rvectors.reorder / double_spin on the shift lists (3 functions)
        if nodup and stable(l1, 4) == 0:
            self.shifts(l1)

    def shifts(self, l1):
        sh = [[a + 1, 2 * a, 0] for a in range(3)]

        def mk():
            _, Rvectors, _ = W.classes()
            return Rvectors(lattice=np.eye(3), iRvec=np.array(l1, dtype=int).reshape(-1, 3), shifts_left_red=np.array(sh, dtype=float) / 4)

        def shifts_of(r):
            return W.quarters(r.shifts_left_red, "shifts_left_red"), W.quarters(r.shifts_right_red, "shifts_right_red")
        order = [2, 0, 1]
        cases = [("no_order", (), {}, (sh, sh)), ("left", (order,), {}, ([sh[i] for i in order],) * 2),
                 ("right", (), dict(order_right=order), ([sh[i] for i in order],) * 2),
                 ("both", (order, [1, 2, 0]), {}, ([sh[i] for i in order], [sh[i] for i in [1, 2, 0]]))]
        for name, a, kw, exp in cases:
            self.cls("reorder:" + name)
            r = mk()
            d = dict(iRvec=l1, shifts_quarters=sh, call=f"Rvectors.reorder({', '.join([str(x) for x in a] + [f'{k}={v}' for k, v in kw.items()])})")
            try:
                import io
                import contextlib
                with contextlib.redirect_stdout(io.StringIO()):
                    r.reorder(*a, **kw)
                got = shifts_of(r)
            except W.ENVIRONMENT_ERRORS:
                raise
            except Exception as ex:
                got = f"{type(ex).__name__}: {ex}"[:200]
            if got != (list(exp[0]), list(exp[1])):
                self.g.violation(f"Rvectors.reorder:{name}", dict(d, expected_shifts=dict(left=exp[0], right=exp[1]), got=got,
                                                                  note="the shifts (one per Wannier function) are re-ordered; without an order nothing is to be done"))
        self.cls("double_spin:shifts")
        r = mk()
        ok, _, _ = self.g.call("Rvectors.double_spin", dict(iRvec=l1), r.double_spin)
        if ok:
            exp = [sh[a // 2] for a in range(6)]
            got = shifts_of(r)
            if got != (exp, exp):
                self.g.violation("Rvectors.double_spin:shifts", dict(iRvec=l1, expected=exp, got=got))

    def real_merge(self, lists, d):
        _, Rvectors, merge_Rvectors = W.classes()
        rvs = [fresh_rvec(li) for li in lists]
        ok, res, _ = self.g.call("merge_Rvectors", d, merge_Rvectors, rvs)
        if not ok:
            return None
        m, maps = res
        return [[int(c) for c in R] for R in np.asarray(m.iRvec).reshape(-1, 3)], [[int(v) for v in np.asarray(mp).reshape(-1)] for mp in maps]

    def merge(self, s):
        lists = [W.lst(s["l1"]), W.lst(s["l2"])] + ([W.lst(s["l3"])] if s["kind"] == "merge3" else [])
        d = dict(lists=lists)
        self.cls(s["kind"] + ":" + ("with_empty" if any(len(li) == 0 for li in lists) else "overlapping" if set(map(tuple, lists[0])) & set(map(tuple, lists[1])) else "disjoint"))
        r = self.real_merge(lists, d)
        if r is None:
            return
        merged, maps = r
        why = merge_valid(lists, merged, maps)
        if why:
            self.g.violation(f"merge_Rvectors:{why}", dict(d, merged=merged, maps=maps))
            return
        if merged != W.lst(s["out"]["rv"]):
            self.note("merge_Rvectors:order_of_merged_list_differs_from_model")
        if s["kind"] == "merge3" and len(lists[0]) + len(lists[1]) > 0:
            # two steps on the real code: (l1 + l2) + l3 sends every position to the same vector as the one-step merge
            r12 = self.real_merge(lists[:2], d)
            if r12 is None:
                return
            r12_3 = self.real_merge([r12[0], lists[2]], d)
            if r12_3 is None:
                return
            for i_ in (0, 1):
                for j, R in enumerate(lists[i_]):
                    if r12_3[0][r12_3[1][0][r12[1][i_][j]]] != merged[maps[i_][j]]:
                        self.g.violation("merge_Rvectors:composition", dict(d, list_index=i_, position=j))
                        return
            if set(map(tuple, r12_3[0])) != set(map(tuple, merged)):
                self.g.violation("merge_Rvectors:composition", dict(d, what="two-step and one-step merge hold different vectors"))


def merge_valid(lists, merged, maps):
    """MergeValid / MapsInjective of SysOrder.tla -> '' or the name of the failing clause"""
    if len({tuple(R) for R in merged}) != len(merged):
        return "merged_list_repeats_a_vector"
    if {tuple(R) for R in merged} != {tuple(R) for li in lists for R in li}:
        return "merged_list_is_not_the_union"
    if len(maps) != len(lists):
        return "number_of_maps"
    for li, mp in zip(lists, maps):
        if len(mp) != len(li) or any(not 0 <= v < len(merged) or merged[v] != R for v, R in zip(mp, li)):
            return "map_points_at_another_vector"
        if len(set(mp)) != len(mp):
            return "map_not_injective"
    return ""


# --------------------------------------------------------------------------- code -> spec: recorded calls
class Recorder:
    def __init__(self, rep, g, rng):
        self.rep, self.g, self.rng = rep, g, rng
        self.recs, self.meta = [], []

    def add(self, rec, meta):
        self.recs.append(rec)
        self.meta.append(meta)
        self.rep.case(("rec", rec["kind"], len(self.recs)))

    def lattice(self):
        return W.LATTICES[self.rng.randrange(3)]

    def order(self):
        rng = self.rng
        op = rng.choice(["b2i", "b2i", "i2b", "reorder"])
        b = W.random_system(rng, nw=rng.choice([2, 4, 6]) if op != "reorder" else rng.choice([2, 3, 4, 5]))
        bw = rng.random() < 0.5
        perm = list(range(b["nw"]))
        rng.shuffle(perm)
        with_ss = b["nw"] % 2 == 0 and rng.random() < 0.4
        lat = self.lattice()
        d = dict(kind="order", op=op, backward=bw, perm=perm, system=b, lattice=lat.tolist(), spin_pairs_set_first=with_ss)

        def run():
            x = W.build(b, lat, diag_path=rng.random() < 0.5)
            if with_ss:
                x.set_spin_pairs(W.pairs_of(rng.choice(["interlaced", "block"]), b["nw"]))
            before = W.project(x)
            if op == "b2i":
                x.spin_block2interlace(backward=bw)
            elif op == "i2b":
                x.spin_interlace2block(backward=bw)
            else:
                x.reorder(perm)
            after = W.project(x)
            if op == "b2i":
                x.spin_interlace2block(backward=bw)
            elif op == "i2b":
                x.spin_block2interlace(backward=bw)
            else:
                x.reorder([int(v) for v in np.argsort(perm)])
            return before, after, W.project(x)
        ok, r, _ = self.g.call(SITE[op], d, run)
        if ok:
            self.add(dict(kind="order", op=op, bw=bw, perm=perm if op == "reorder" else [], before=r[0], after=r[1], back=r[2]),
                     dict(site=SITE[op], **{k: d[k] for k in ("op", "backward", "perm", "lattice")}, nw=b["nw"], rv=b["rv"]))

    def pairs(self):
        rng = self.rng
        method = rng.choice(["pairs", "pairs", "interlaced", "double"])
        b = W.random_system(rng, nw=rng.choice([1, 2, 3]) if method == "double" else rng.choice([2, 4, 6]))
        nw = b["nw"]
        if method == "pairs":
            idx = list(range(nw))
            rng.shuffle(idx)
            npairs = rng.randint(1, nw // 2)
            pairs = [(idx[2 * n], idx[2 * n + 1]) for n in range(npairs)]
        elif method == "interlaced":
            pairs = W.pairs_of("interlaced", nw)
        else:
            pairs = W.pairs_of("interlaced", 2 * nw)
        lat = self.lattice()
        site = dict(pairs="set_spin_pairs", interlaced="set_spin_interlaced", double="double_spin")[method]
        d = dict(kind="pairs", method=method, pairs=pairs, system=b, lattice=lat.tolist())

        def run():
            x = W.build(b, lat, diag_path=rng.random() < 0.5)
            before = W.project(x)
            if method == "pairs":
                x.set_spin_pairs(pairs)
            elif method == "interlaced":
                x.set_spin_interlaced()
            else:
                x.double_spin()
            return before, W.project(x)
        ok, r, _ = self.g.call(site, d, run)
        if ok:
            self.add(dict(kind="pairs", method=method, pairs=[list(p) for p in pairs], before=r[0], after=r[1]),
                     dict(site=site, method=method, pairs=pairs, nw=nw, rv=b["rv"], lattice=d["lattice"]))

    def eigen(self):
        rng = self.rng
        b = W.random_system(rng)
        nw = b["nw"]
        axis, norm = rng.choice([((0, 0, 1), 1), ((3, 4, 0), 5), ((0, -5, 12), 13), ((2, -1, 2), 3), ((-1, 2, 2), 3), ((6, 0, -8), 10), ((0, 2, 0), 2)])
        spins = [rng.choice([1, -1]) for _ in range(nw)]
        had_ss, reset = rng.random() < 0.5, rng.random() < 0.6
        lat = self.lattice()
        d = dict(kind="eigen", spins=spins, axis=list(axis), reset=reset, SS_set_before=had_ss, system=b, lattice=lat.tolist())
        x = W.build(b, lat, diag_path=rng.random() < 0.5)
        if had_ss:
            ok, _, _ = self.g.call("set_spin_eigenstates", d, x.set_spin_eigenstates, [1] * nw)
            if not ok:
                return
        kw = dict(reset=True) if reset else {}
        if had_ss and not reset:
            err = self.g.refusal(x.set_spin_eigenstates, spins, axis=axis, **kw)
            ss, rest = [], True
        else:
            ok, _, _ = self.g.call("set_spin_eigenstates", d, x.set_spin_eigenstates, spins, axis=axis, **kw)
            if not ok:
                return
            err = ""
            S = np.asarray(x.get_R_mat("SS"))
            r0 = int(x.rvec.iR0)
            try:
                ss = W.tensor_json(S[r0:r0 + 1] * norm, 3, "SS * |axis|")[0]
            except W.NotExact as ex:
                self.g.violation("set_spin_eigenstates:not_exact", dict(d, problem=str(ex)))
                return
            rest = bool(np.all(np.delete(S, r0, axis=0) == 0))
        self.add(dict(kind="eigen", spins=spins, axis=list(axis), norm=norm, reset=reset, had_ss=had_ss, err=err, ss=ss, rest_zero=rest),
                 dict(site="set_spin_eigenstates", **{k: d[k] for k in ("spins", "axis", "reset", "SS_set_before")}, nw=nw))

    def sparse(self):
        rng = self.rng
        b = W.random_system(rng, nw=rng.choice([1, 2, 2, 3, 4]))
        with_ss = b["nw"] % 2 == 0 and rng.random() < 0.5
        mv = [["Ham", rng.choice([1, 1, 3, 5, 9, 13, 19])]] + ([["SS", rng.choice([1, 1, 3])]] if with_ss else [])
        lat = self.lattice()
        d = dict(kind="sparse", min_values_T2=mv, note="min_value = sqrt(T2/2)", system=b, lattice=lat.tolist(), spin_pairs_set_first=with_ss)

        def run():
            System_R = W.classes()[0]
            x = W.build(b, lat, diag_path=rng.random() < 0.5)
            if with_ss:
                x.set_spin_pairs(W.pairs_of(rng.choice(["interlaced", "block", "partial"]), b["nw"]))
            before = W.project(x)
            dic = x.get_sparse(min_values={k: W.minval(t) for k, t in mv})
            sp = []
            for k, _t in mv:
                ents = []
                for R, dd in dic["matrices"][k].items():
                    for (a_, b_), v in dd.items():
                        ents.append([[int(c) for c in R], int(a_), int(b_), [W.gint(z, "element of the sparse form") for z in np.atleast_1d(v)]])
                sp.append([k, ents])
            y = System_R.from_sparse(**dic)
            return before, sp, W.project(y)
        ok, r, _ = self.g.call("get_sparse_from_sparse", d, run)
        if ok:
            self.add(dict(kind="sparse", mv=mv, before=r[0], sparse=r[1], after=r[2]),
                     dict(site="get_sparse_from_sparse", min_values_T2=mv, nw=b["nw"], rv=b["rv"], lattice=d["lattice"], with_SS=with_ss,
                          survivors=sum(len(e[1]) for e in r[1])))

    def revr(self):
        rng = self.rng
        rv = W.random_rlist(rng)
        nw = rng.choice([1, 2])
        X = W.random_tensor(rng, len(rv), nw)
        ignore = rng.random() < 0.4
        d = dict(kind="revr", iRvec=rv, ignore_mR_not_found=ignore)

        def run():
            import warnings
            r = fresh_rvec(rv, nshift=nw)
            A = W.tensor_array(X, 1)
            with warnings.catch_warnings(record=True) as ws:
                warnings.simplefilter("always")
                c1 = r.conj_XX_R(A, ignore_mR_not_found=ignore)
                nwarn = len(ws)
            lr, lm = r.reverseR
            c2 = r.conj_XX_R(np.array(c1))
            return [int(v) for v in lr], [int(v) for v in lm], W.tensor_json(c1, 1, "conj_XX_R"), W.tensor_json(c2, 1, "conj_XX_R twice"), nwarn
        ok, r, _ = self.g.call("Rvectors.conj_XX_R", d, run)
        if ok:
            self.add(dict(kind="revr", rv=rv, nw=nw, x=X, ignore=ignore, err="", lstR=r[0], lstmR=r[1], conj=r[2], conj2=r[3], nwarn=r[4]),
                     dict(site="Rvectors.conj_XX_R", iRvec=rv, ignore_mR_not_found=ignore))

    def merge(self):
        rng = self.rng
        lists = [W.random_rlist(rng, nmax=6) for _ in range(rng.choice([2, 2, 3]))]
        if rng.random() < 0.3:
            lists[1] = list(lists[0][::-1])
        d = dict(kind="merge", lists=lists)
        mr = MapsReplay(self.rep, self.g)
        r = mr.real_merge(lists, d)
        if r is not None:
            self.add(dict(kind="merge", lists=lists, err="", merged=r[0], maps=r[1]), dict(site="merge_Rvectors", lists=lists))

    def exz(self):
        rng = self.rng
        rv = W.random_rlist(rng, nmax=6)
        nw = rng.choice([1, 2, 3])
        keys = ["Ham"] + (["SS"] if rng.random() < 0.4 else [])
        mats = {}
        for k in keys:
            T = W.random_tensor(rng, len(rv), nw, nc=W.NCOMP[k], density=0.3)
            for r_ in range(len(rv)):
                roll = rng.random()
                if roll < 0.35:          # a zero block
                    T[r_] = [[[[0, 0] for _ in range(W.NCOMP[k])] for _ in range(nw)] for _ in range(nw)]
                elif roll < 0.55:        # a block with one small element
                    T[r_] = [[[[0, 0] for _ in range(W.NCOMP[k])] for _ in range(nw)] for _ in range(nw)]
                    T[r_][rng.randrange(nw)][rng.randrange(nw)][rng.randrange(W.NCOMP[k])] = rng.choice([[1, 0], [0, -1], [1, 1]])
            mats[k] = T
        T2 = rng.choice([0, 0, 1, 3, 7])
        d = dict(kind="exz", iRvec=rv, tolerance_T2=T2, note="tolerance = 1e-8 for T2 = 0, else sqrt(T2/2)", keys=keys)

        def run():
            r = fresh_rvec(rv, nshift=nw)
            XX, rn = r.exclude_zeros({k: W.tensor_array(mats[k], W.NCOMP[k]) for k in keys}, tolerance=W.tolerance(T2))
            return ([[int(c) for c in R] for R in np.asarray(rn.iRvec).reshape(-1, 3)],
                    {k: W.tensor_json(XX[k], W.NCOMP[k], k) for k in keys})
        ok, r, _ = self.g.call("Rvectors.exclude_zeros", d, run)
        if ok:
            self.add(dict(kind="exz", rv=rv, mats=mats, T2=T2, err="", nrv=r[0], nmats=r[1]),
                     dict(site="Rvectors.exclude_zeros", iRvec=rv, tolerance_T2=T2, keys=keys, kept=len(r[0])))

    def idx(self):
        rng = self.rng
        rv = W.random_rlist(rng, nmax=7)
        box = [[a, b, c] for a in (-1, 0, 1) for b in (-1, 0, 1) for c in (-1, 0, 1)]
        queries = [list(R) for R in rv] + rng.sample([R for R in box if R not in rv], 2) + [[2, 0, 0]]
        r = fresh_rvec(rv)
        answers = []
        for q in queries:
            arg = rng.choice([q, tuple(q), np.array(q), np.array(q, dtype=float)])
            try:
                answers.append(dict(err="", val=int(r.iR(arg))))
            except W.ENVIRONMENT_ERRORS:
                raise
            except Exception as ex:
                answers.append(dict(err=type(ex).__name__, val=-1))
        try:
            ir0 = dict(err="", val=int(r.iR0))
        except W.ENVIRONMENT_ERRORS:
            raise
        except Exception as ex:
            ir0 = dict(err=type(ex).__name__, val=-1)
        ok, index, _ = self.g.call("Rvectors.index_R", dict(iRvec=rv), lambda: [[[int(c) for c in k], int(v)] for k, v in r.index_R.items()])
        if ok:
            self.add(dict(kind="idx", rv=rv, queries=queries, answers=answers, ir0=ir0, index=index), dict(site="Rvectors.iR", iRvec=rv))

    def nocen(self):
        rng = self.rng
        nw = rng.randint(1, 4)
        ents = {}
        for _ in range(rng.randint(1, 4)):
            R = tuple(rng.choice([(0, 0, 0), (1, 0, 0), (-1, 0, 0), (0, 1, 0)]))
            ents.setdefault(R, {})[(rng.randrange(nw), rng.randrange(nw))] = complex(rng.randint(-3, 3), rng.randint(-3, 3))
        maxidx = max(max(ab) for dd in ents.values() for ab in dd)
        given = rng.choice([0, maxidx + 1, maxidx + 2])
        kw = dict(num_wann=given) if given else {}
        d = dict(kind="nocen", call=f"System_R.from_sparse(real_lattice=np.eye(3), matrices={{'Ham': {ents}}}" + (f", num_wann={given})" if given else ")"))
        System_R = W.classes()[0]
        ok, y, _ = self.g.call("from_sparse", d, System_R.from_sparse, real_lattice=np.eye(3), matrices={"Ham": ents}, **kw)
        if ok:
            self.add(dict(kind="nocen", given=given, maxidx=maxidx, err="", nw=int(y.num_wann), cen_zero=bool(np.all(np.asarray(y.wannier_centers_cart) == 0))),
                     dict(site="from_sparse", call=d["call"]))
        else:
            self.add(dict(kind="nocen", given=given, maxidx=maxidx, err="raised", nw=0, cen_zero=False), dict(site="from_sparse", call=d["call"], raised=True))


KINDS = ["order", "pairs", "eigen", "sparse", "revr", "merge", "exz", "idx", "nocen"]


def corrupt(rec):
    """-> (corrupted copy, the clause that must fail) or None"""
    r = copy.deepcopy(rec)
    k = r["kind"]
    if k == "order" and r["after"]["nw"] >= 2 and r["after"]["cen"][0] != r["after"]["cen"][-1]:
        r["after"]["cen"][0], r["after"]["cen"][-1] = r["after"]["cen"][-1], r["after"]["cen"][0]
        return r, "shifts_follow"
    if k == "pairs":
        T = r["after"]["mats"]["SS"]
        r0 = r["after"]["rv"].index([0, 0, 0])
        i_, j_ = r["pairs"][0]
        T[r0][i_][j_][1] = [-T[r0][i_][j_][1][0], -T[r0][i_][j_][1][1]]      # sigma_y of one pair with the wrong sign
        return r, "pauli"
    if k == "eigen" and r["err"] == "" and r["ss"]:
        r["ss"][0][0][2][0] += 1
        return r, "along_axis"
    if k == "sparse" and any(e[1] for e in r["sparse"]):
        e = [e for e in r["sparse"] if e[1]][0]
        e[1].pop()
        return r, "dict_complete"
    if k == "revr" and len(r["lstR"]) >= 2 and r["lstmR"][0] != r["lstmR"][1]:
        r["lstmR"][0], r["lstmR"][1] = r["lstmR"][1], r["lstmR"][0]
        return r, "valid"
    if k == "merge" and len(r["merged"]) >= 2 and r["maps"][0]:
        r["maps"][0][0] = (r["maps"][0][0] + 1) % len(r["merged"])
        return r, "valid"
    if k == "exz" and len(r["nrv"]) >= 1:
        r["nrv"] = r["nrv"][:-1]
        for kk in r["nmats"]:
            r["nmats"][kk] = r["nmats"][kk][:-1]
        return r, "nothing_lost"
    if k == "idx" and len(r["rv"]) >= 2:
        r["answers"][0]["val"] = (r["answers"][0]["val"] + 1) % len(r["rv"])
        return r, "ir"
    if k == "nocen" and r["err"] == "":
        r["nw"] += 1
        return r, "num_wann"
    return None


# --------------------------------------------------------------------------- information (unspecified behaviour, never a violation)
def observations(g, rng):
    System_R, Rvectors, _ = W.classes()
    obs = {}
    lat = np.eye(3)
    b = W.random_system(random.Random(5), nw=3)
    x = W.build(b, lat)
    obs["spin_block2interlace_odd_num_wann"] = g.refusal(x.spin_block2interlace) or "accepted (mapping broadcast, functions repeated)"
    b = W.random_system(random.Random(6), nw=2)
    x = W.build(b, lat)
    g.refusal(x.set_spin_pairs, [])
    obs["set_spin_pairs_empty_list_sets_SS"] = bool(x.has_R_mat("SS"))
    # a tie at the threshold: an element with |x| exactly min_value
    x = W.build(dict(nw=1, rv=[[0, 0, 0]], cen=[[0, 0, 0]], sl=[[0, 0, 0]], sr=[[0, 0, 0]], mats={"Ham": [[[[[2, 0]]]]]}), lat)
    try:
        import io
        import contextlib
        with contextlib.redirect_stdout(io.StringIO()):
            obs["get_sparse_tie_min_value_equals_element_kept"] = bool(x.get_sparse({"Ham": 2.0})["matrices"]["Ham"])
            d = x.get_sparse({"Ham": 100.0})
        obs["get_sparse_nothing_survives"] = repr(d["matrices"])
        import warnings
        with warnings.catch_warnings(), contextlib.redirect_stdout(io.StringIO()):
            warnings.simplefilter("ignore")
            y = System_R.from_sparse(**d)
        obs["from_sparse_of_empty_matrix_has_Ham"] = bool(y.has_R_mat("Ham"))
        with contextlib.redirect_stdout(io.StringIO()):
            y = System_R.from_sparse(real_lattice=lat, wannier_centers_red=np.zeros((1, 3)), matrices={"Ham": {(0, 0, 0): {(0, 0): 1.0}}},
                                     periodic=(True, True, False), spinor=True, name="named")
        obs["from_sparse_keeps_keyword_parameters"] = dict(periodic=[bool(v) for v in y.periodic], spinor=y.spinor, name=y.name)
    except W.ENVIRONMENT_ERRORS:
        raise
    except Exception as ex:
        obs["sparse_observation_failed"] = f"{type(ex).__name__}: {ex}"[:200]
    # a refused double_spin (SS set): what is left behind
    b = W.random_system(random.Random(7), nw=2)
    x = W.build(b, lat)
    g.refusal(x.set_spin_interlaced)
    before = int(x.num_wann)
    obs["double_spin_with_SS_refused_by"] = g.refusal(x.double_spin)
    obs["num_wann_after_refused_double_spin"] = f"{before} -> {int(x.num_wann)}"
    # Rvectors without per-function shifts
    r = Rvectors(lattice=lat, iRvec=[[0, 0, 0], [1, 0, 0]])
    obs["Rvectors_reorder_without_shifts"] = g.refusal(r.reorder, [1, 0]) or "accepted"
    # the flag ignore_mR_not_found is read when reverseR is first evaluated only
    import warnings
    r = Rvectors(lattice=lat, iRvec=[[0, 0, 0], [1, 0, 0]])
    with warnings.catch_warnings(record=True) as ws:
        warnings.simplefilter("always")
        r.conj_XX_R(np.zeros((2, 1, 1)), ignore_mR_not_found=True)
        r.conj_XX_R(np.zeros((2, 1, 1)), ignore_mR_not_found=False)
    obs["warnings_of_second_conj_XX_R_after_an_ignoring_first"] = len(ws)
    r = Rvectors(lattice=lat, iRvec=[[1, 0, 0], [-1, 0, 0]])
    obs["iR0_without_zero_vector"] = g.refusal(lambda: r.iR0)
    return obs


# --------------------------------------------------------------------------- the check
def check(pid, tier):
    rep = Report(pid, tier, "model_checking")
    try:
        return _check(rep, pid, tier)
    except Exception as ex:
        if rep.violations:
            print(f"[{pid}] the check stopped early ({type(ex).__name__}: {str(ex)[:300]}); reporting the violations collected so far")
            try:
                rep.part("aborted", note="the run stopped early; the violations collected so far are reported")
                return rep.finish()
            except Exception:
                pass
        raise


def _check(rep, pid, tier):
    thorough = tier == "thorough"
    rng = random.Random(seed() * 7919 + 202)
    sc = W.Scratch(pid, tier)
    g = W.Guard(rep)
    timing = {}
    t_last = [cpu()]

    def lap(name):
        now = cpu()
        timing[name] = round(now - t_last[0], 1)
        t_last[0] = now

    rep.rule("TLC enumerates every sequence of at most MAXLEN actions (spin_block2interlace, spin_interlace2block, reorder, double_spin, "
             "set_spin_pairs / set_spin_interlaced, set_spin_eigenstates, get_sparse -> from_sparse, exclude_zeros, conj_XX_R) from every "
             "catalogue system and every R-list / pair / triple of lists inside the constants; a case = one maximal behaviour executed step by "
             "step on a real System_R (compared after every step), one table row executed on real Rvectors / merge_Rvectors, or one seeded "
             "random recorded call validated by TLC; distinct by input")
    rep.assume("matrices are Gaussian integers, centres multiples of 1/4, R-vectors within +-1, k-points multiples of 1/4 (every Fourier phase a power of i)")
    rep.assume("thresholds of get_sparse / exclude_zeros are sqrt(T2/2) with T2 odd (or the default 1e-8), so no element sits on a threshold (NoTie)")
    rep.assume("R-lists have no repeated vector (NoDup); lists with a repeated vector are executed for information only")

    maxlen = 3 if thorough else 2
    sm_systems = ALL_SYS
    sm_acts = ALL_ACTS if not thorough else [a for a in ALL_ACTS if a != "reorder"]
    sm_cfg = cfg(dict(SYSTEMS=sset(sm_systems), MAXLEN=maxlen, ACTS=sset(sm_acts)), SM_INVS)
    maps_consts = dict(MAXL=5 if thorough else 4, MAXM=3, NPOOL=5, NPOOLM=5 if thorough else 4, NPOOL3=4 if thorough else 3)
    maps_cfg = cfg(maps_consts, MAP_INVS)
    variants = [
        ("b2i_backward_same", "MC_SysOrder.tla", dict(B2IBackward='"same"'), dict(SYSTEMS=sset(["b6"]), MAXLEN=1, ACTS=sset(["b2i", "i2b"])), SM_INVS, {"LawsHold"}),
        ("reorder_keeps_shifts", "MC_SysOrder.tla", dict(ReorderShifts="FALSE"), dict(SYSTEMS=sset(["b4"]), MAXLEN=1, ACTS=sset(["b2i"])), SM_INVS,
         {"LawsHold", "ShiftsFollowCentres"}),
        ("sparse_first_component", "MC_SysOrder.tla", dict(SparseNorm='"first"'), dict(SYSTEMS=sset(["b2"]), MAXLEN=2, ACTS=sset(["spin_pairs", "sparse"])),
         SM_INVS, {"LawsHold"}),
        ("pauli_y_flipped", "MC_SysOrder.tla", dict(PauliY='"flipped"'), dict(SYSTEMS=sset(["b2"]), MAXLEN=1, ACTS=sset(["spin_pairs"])), SM_INVS,
         {"LawsHold", "SpinConsistent"}),
        ("merge_map_into_own_list", "MC_SysOrderMaps.tla", dict(MergeMapInto='"own"'), dict(MAXL=2, MAXM=2, NPOOL=3, NPOOLM=3, NPOOL3=2), MAP_INVS,
         {"MergeLaws", "MergeComposesLaw"}),
    ]
    if not thorough:
        variants = [v for v in variants if v[0] in ("b2i_backward_same", "sparse_first_component", "merge_map_into_own_list")]
    pool = cf.ThreadPoolExecutor(max_workers=3)          # at most 3 TLC runs at a time, 4 workers each
    try:
        f_sm = pool.submit(run_model, "MC_SysOrder.tla", sm_cfg, sc.tlc("store"), 4, True, 6000)
        f_maps = pool.submit(run_model, "MC_SysOrderMaps.tla", maps_cfg, sc.tlc("maps"))

        import wannierberri  # noqa: F401  (while the JVMs start)
        lap("import")
        # ---------------- code -> spec: recorded calls of the real methods (generated while TLC runs)
        rc = Recorder(rep, g, rng)
        nper = 90 if thorough else 22
        for kind in KINDS:
            for _ in range(nper if kind != "nocen" else max(8, nper // 4)):
                getattr(rc, kind)()
        per_kind = {k: sum(1 for r in rc.recs if r["kind"] == k) for k in KINDS}
        recs = rc.recs
        corrupted = []
        for kind in KINDS:
            for i, r in enumerate(recs):
                if r["kind"] == kind:
                    c = corrupt(r)
                    if c is not None:
                        corrupted.append((i, c[0], c[1]))
                        break
        # records through TLC, with corrupted copies (binding self-test) in the same batch
        f_rec = pool.submit(ftable.validate_records, "SysOrderRec.tla", cfg({}, ["Report"], spec="RecSpec"), recs + [c[1] for c in corrupted],
                            sc.rec("rec"), 3000, 300 if thorough else 1000)
        f_var = [(v, pool.submit(run_model, v[1], cfg(v[3], v[4], sw=v[2]), sc.tlc("v_" + v[0]), 2, False)) for v in variants]
        lap("records_real")

        # ---------------- spec -> code: function tables
        stm = f_maps.result()
        ftable.spec_violation(rep, stm, "x02_maps")
        rep.add_tlc("x02_maps", dict(stm, constants=maps_consts))
        mr = MapsReplay(rep, g)
        if not stm.get("violation"):
            rows = sorted((s for s in ftable.dump_states(stm) if s["pc"] == "done"), key=lambda s: repr((s["kind"], s["l1"], s["l2"], s["l3"])))
            if 2 * len(rows) != stm["distinct"]:
                raise MachineryError(f"{len(rows)} finished rows for {stm['distinct']} TLC states of the function tables")
            for s in rows:
                rep.case(("maps", s["kind"], s["l1"], s["l2"], s["l3"]), nontrivial=len(s["l1"]) + len(s["l2"]) + len(s["l3"]) > 1)
                mr.one(s)
            rep.sample(dict(table_row=dict(kind=rows[len(rows) // 2]["kind"], l1=W.lst(rows[len(rows) // 2]["l1"]), l2=W.lst(rows[len(rows) // 2]["l2"]))))
            need = ["idx:nodup", "idx:dup", "iR0:present", "iR0:absent", "reverseR:all_partnered", "reverseR:some_unpartnered", "merge2:disjoint",
                    "merge2:overlapping", "merge2:with_empty", "merge3:overlapping", "reorder:no_order", "reorder:both", "double_spin:shifts"]
            miss = [c for c in need if not mr.count.get(c)]
            if miss and not rep.violations:
                raise MachineryError(f"table classes never executed: {miss} ({mr.count})")
            rep.part("replay_tables", **{k.replace(":", "_"): v for k, v in sorted(mr.count.items())})
            try:
                os.remove(stm["dump_path"])
            except OSError:
                pass
        lap("replay_tables")

        # ---------------- spec -> code: behaviours of the store
        sts = f_sm.result()
        ftable.spec_violation(rep, sts, "x02_store")
        rep.add_tlc("x02_store", dict(sts, constants=dict(SYSTEMS=sm_systems, MAXLEN=maxlen, ACTS=sm_acts)))
        sr = StoreReplay(rep, g)
        if not sts.get("violation"):
            states = {}
            for s in ftable.dump_states(sts):
                states[hkey(s["hist"])] = s
            if len(states) != sts["distinct"]:
                raise MachineryError(f"store dump: {len(states)} behaviours for {sts['distinct']} states")
            bad_laws = [k for k, s in states.items() if any(e["bad"] for e in s["hist"])]
            if bad_laws:
                raise MachineryError(f"TLC accepted a state with failed laws: {bad_laws[:2]}")
            prefixes = {k[:n] for k in states for n in range(1, len(k))}
            leaves = sorted((k for k in states if k not in prefixes), key=repr)
            nleaves = len(leaves)
            cap = 30000 if thorough else 2500
            if nleaves > cap:
                # a seeded sample of the maximal behaviours (sorted first: the dump order of TLC is not deterministic)
                random.Random(seed() + 11).shuffle(leaves)
                leaves = sorted(leaves[:cap], key=repr)
            followed = 0
            for k in leaves:
                rep.case(("store",) + k)
                if sr.behaviour(states, k):
                    followed += 1
            rep.sample(dict(behaviour=[list(e) for e in leaves[len(leaves) // 3]]))
            rep.sample(dict(behaviour=[list(e) for e in leaves[2 * len(leaves) // 3]]))
            miss = [a for a in sm_acts if not sr.ops.get(a)] + [s for s in sm_systems if not sr.systems.get(s)]
            if miss and not rep.violations:
                raise MachineryError(f"actions / systems never executed on the real code: {miss}")
            rep.part("replay_store", behaviours=len(leaves), of_maximal_behaviours=nleaves, agreed_to_the_end=followed, steps=sr.steps,
                     actions=dict(sorted(sr.ops.items())), systems=dict(sorted(sr.systems.items())))
            rep.part("numeric_spectrum", deciding=True, tolerance_relative=SPEC_TOL, max_relative_deviation_observed=sr.maxdev,
                     what="coefficients of det(t - H(k)) at 3 k-points, H(k) from Rvectors.R_to_k (k-list), against the exact polynomials of TLC")
            try:
                os.remove(sts["dump_path"])
            except OSError:
                pass
        lap("replay_store")

        # ---------------- sensitivity self-tests: the wrong variants of the switches must be rejected
        sens = {}
        for v, f in f_var:
            st = f.result()
            if not st.get("violation") or st["violation"][1] not in v[5]:
                raise MachineryError(f"sensitivity self-test failed: variant {v[0]} {v[2]} must violate one of {sorted(v[5])}, TLC says "
                                     f"{st.get('violation')} {(st.get('error') or '')[:300]}")
            sens[v[0]] = dict(switch=v[2], violated=st["violation"][1])
        rep.part("sensitivity", **sens)
        f_rec.result()
        lap("wait_for_tlc")
    finally:
        pool.shutdown(wait=True, cancel_futures=True)

    # ---------------- records: what TLC says
    stv, bad = f_rec.result()
    bad_c = {j: bad.pop(len(recs) + j, []) for j in range(len(corrupted))}
    stv["distinct"] -= len(corrupted)
    stv["generated"] -= 2 * len(corrupted)
    rep.add_tlc("x02_records", stv)
    rep.add_traces(len(recs))
    rinfo, outside = {}, []
    for i, clauses in sorted(bad.items()):
        m = rc.meta[i]
        hard = [c for c in clauses if not c.startswith("info_")]
        for c in clauses:
            if c.startswith("info_"):
                rinfo[f"{recs[i]['kind']}:{c}"] = rinfo.get(f"{recs[i]['kind']}:{c}", 0) + 1
        if "in_model" in hard:
            outside.append((i, hard))
            continue
        if hard:
            if recs[i]["kind"] == "nocen" and m.get("raised"):
                continue                                      # already reported as raises:from_sparse:<Type>
            g.violation(f"{m['site']}:recorded:{hard[0]}", dict(meta=m, failing_clauses=hard, record={k: v for k, v in recs[i].items() if k not in ("x", "conj", "conj2")}))
    if outside and not rep.violations:
        raise MachineryError(f"recorded call outside the model: {outside[:3]} {str(rc.meta[outside[0][0]])[:300]}")
    miss = [k for k in KINDS if not per_kind.get(k)]
    if miss and not rep.violations:
        raise MachineryError(f"no record of kind {miss}")
    rep.part("records", per_kind=per_kind, information_only_clauses=rinfo)
    rep.sample(dict(record=rc.meta[0]))
    if len(corrupted) < len(KINDS) - 1 and not rep.violations:
        raise MachineryError(f"binding self-test: only {len(corrupted)} corruptible records")
    accepted = [recs[i]["kind"] for j, (i, _, clause) in enumerate(corrupted) if clause not in bad_c[j] and not [c for c in bad.get(i, [])]]
    if accepted and not rep.violations:
        raise MachineryError(f"binding self-test failed: corrupted records accepted by TLC for kinds {accepted} ({bad_c})")
    rep.part("binding_selftest", corrupted_records_rejected={recs[i]["kind"]: bad_c[j] for j, (i, _, _) in enumerate(corrupted)})
    lap("records_tlc")

    # ---------------- information
    rep.part("information", information_only=True, replay_store=sr.info, replay_tables=mr.info, observations=observations(g, rng),
             note="counts of differences that are not part of the documented behaviour (orders of lists, exception classes, stored zero blocks) and "
                  "what the code does on inputs the documentation does not cover")
    if g.skipped:
        rep.part("skipped_private", **{k.replace(".", "_"): v for k, v in g.skipped.items()})
    if g.count:
        rep.part("violation_counts", **{k.replace(".", "_").replace(":", "_"): v for k, v in g.count.items()})
    lap("information")
    rep.part("cpu_seconds", **timing, python_total=round(sum(timing.values()), 1), tlc_children=round(cpu_children(), 1))
    if not rep.violations:
        sc.cleanup()
    return rep.finish()
