"""C31: k.p models - numerical and analytic derivatives agree.

spec  : KPStencil.tla   - Derivative3D as the one stencil  D f(k)_a = sum_b w_b b_a f(k + b)  on the stencil that
                          find_shells selects (BShells selection loop, Wannier90 "pair" rule, zero weights dropped), nested for
                          the 2nd and 3rd derivative; exact rationals on the integer grid (h = 1, homogeneity gives every h)
        MC_KPStencil    - per catalogue lattice (integer Cartesian basis): the stencil, then every monomial up to degree 4:
                          D1 = d + (1/6) T : d^3 (exact up to degree 2), D2 exact up to degree 3 (+ error law for 4), D3 exact
        KPStencilRec    - record validation of SystemKP(Ham = integer polynomial).derHam / der2Ham / der3Ham
bind  : spec -> code : find_shells must return the stencil of every TLC "stencil" state; TLC "deriv" states (monomial, point,
                       exact values of D1, D2, D3) are replayed on SystemKP with h = 2^-6
        code -> spec : random integer-coefficient Hermitian polynomial Hamiltonians (1-2 bands, degree <= 3), Cartesian and
                       reduced convention, h = 2^-5..2^-7: derivative values as scaled integers validated by TLC
        numeric      : Hermiticity, spec error bound, default finite_diff_dk, evaluate_k / run() with and without analytic
                       derivatives, dependence of find_shells on the length scale
level : exploration - the specification decides the stencil, its exactness degree and the exact value of every numerical
        derivative of a polynomial; agreement of calculators is floating point
"""
import os
import copy
import shutil
import random
import itertools
from fractions import Fraction

import numpy as np

from .. import tlc, ftable
from ..common import Report, MachineryError, seed, workdir
from .c22 import rationalise, quiet_call

PROPS = {
    "C31": dict(level="exploration",
                technique="TLC exhaustive on KPStencil.tla/MC_KPStencil.tla (finite-difference stencil of find_shells + Derivative3D, nested, on all "
                          "monomials up to degree 4, exact rationals) + replay of TLC states on find_shells / SystemKP + TLC validation "
                          "(KPStencilRec.tla) of recorded numerical derivatives of integer polynomial Hamiltonians; calculators compared numerically",
                text="The specification decides: which stencil find_shells selects on cubic, fcc, bcc, tetragonal, orthorhombic, monoclinic and "
                     "triclinic integer lattices; that Derivative3D differentiates polynomials exactly up to degree 2 with the error "
                     "(h^2/6) T:d^3 f for cubic and quartic ones, and that the nested second / third derivatives are exact up to degree 3 / 4 and "
                     "symmetric. The real find_shells, SystemKP.derHam/der2Ham/der3Ham are replayed on the TLC states (h = 2^-6) and recorded for "
                     "random Hermitian integer polynomials (values as scaled integers, TLC tolerance 1 unit); Hermiticity, the error bound, the "
                     "default finite_diff_dk, evaluate_k/run() with and without analytic derivatives are compared in floating point.",
                note="exploration: calculators agree only to O(h^2); the sharp comparison is against the system whose analytic derHam carries the "
                     "specification's error term, which must agree to rounding",
                ref="DESIGN.md 3.7"),
}

SX = np.array([[0, 1], [1, 0]], dtype=complex)
SY = np.array([[0, -1j], [1j, 0]], dtype=complex)
SZ = np.array([[1, 0], [0, -1]], dtype=complex)
S0 = np.eye(2, dtype=complex)


# ----------------------------------------------------------------------------------------------- polynomial Hamiltonians
class PolyHam:
    """H(z) = sum_t C_t z^e_t with Hermitian integer matrices C_t; z is whatever SystemKP hands to Ham"""

    def __init__(self, terms):
        self.terms = [(np.array(C, dtype=complex), tuple(e)) for C, e in terms]
        self.nb = self.terms[0][0].shape[0]

    def __call__(self, z):
        return sum(C * (z[0] ** e[0] * z[1] ** e[1] * z[2] ** e[2]) for C, e in self.terms)

    def der(self, z, dirs):
        """derivative with respect to the components `dirs` of z (matrix)"""
        out = np.zeros((self.nb, self.nb), dtype=complex)
        for C, e in self.terms:
            e = list(e)
            c = 1.0
            for a in dirs:
                c *= e[a]
                e[a] -= 1
                if e[a] < 0:
                    c = 0.0
                    break
            if c:
                out = out + C * (c * z[0] ** e[0] * z[1] ** e[1] * z[2] ** e[2])
        return out

    def der_cart(self, z, order, J):
        """Cartesian derivatives of the given order; J[a, i] = d z_i / d x_a ; result shape (nb, nb) + (3,) * order"""
        res = np.zeros((self.nb, self.nb) + (3,) * order, dtype=complex)
        zd = {idx: self.der(z, idx) for idx in itertools.product(range(3), repeat=order)}
        for cart in itertools.product(range(3), repeat=order):
            acc = np.zeros((self.nb, self.nb), dtype=complex)
            for idx, v in zd.items():
                f = 1.0
                for a, ii in zip(cart, idx):
                    f *= J[a, ii]
                if f:
                    acc = acc + f * v
            res[(slice(None), slice(None)) + cart] = acc
        return res

    def scalar_polys(self):
        """the real polynomials that make up the matrix: (label, entry, part, [[c, e1, e2, e3], ...])"""
        out = []
        for (i, j) in [(a, b) for a in range(self.nb) for b in range(a, self.nb)]:
            for part in ("re", "im"):
                if i == j and part == "im":
                    continue
                tt = []
                for C, e in self.terms:
                    c = C[i, j].real if part == "re" else C[i, j].imag
                    if c:
                        tt.append([int(round(c))] + list(e))
                out.append((i, j, part, tt))
        return out


def random_hermitian(rng, nb, cmax=3):
    if nb == 1:
        return np.array([[rng.randint(-cmax, cmax)]], dtype=complex)
    c = [rng.randint(-cmax, cmax) for _ in range(4)]
    return c[0] * S0 + c[1] * SX + c[2] * SY + c[3] * SZ


def random_poly(rng, nb, dmax, nterms):
    exps = [e for e in itertools.product(range(dmax + 1), repeat=3) if sum(e) <= dmax]
    top = [e for e in exps if sum(e) == dmax]
    chosen = [rng.choice(top)] + rng.sample(exps, nterms - 1)
    terms = []
    for e in dict.fromkeys(chosen):
        C = random_hermitian(rng, nb)
        while not np.any(C):
            C = random_hermitian(rng, nb)
        terms.append((C, e))
    return PolyHam(terms)


def make_system(ham, A, h, red, scale=1.0, **kw):
    from wannierberri.system.system_kp import SystemKP
    return quiet_call(SystemKP, ham, kmax=None, recip_lattice=np.array(A, dtype=float) * scale, k_vector_cartesian=not red,
                      finite_diff_dk=h, **kw)


def t4_of(cart_stencil):
    """T_abcd = sum w b_a b_b b_c b_d (float) from a list of (b, w)"""
    T = np.zeros((3, 3, 3, 3))
    for b, w in cart_stencil:
        b = np.array(b, dtype=float)
        T += float(w) * np.einsum("a,b,c,d->abcd", b, b, b, b)
    return T


def frac(w):
    return Fraction(w[0], w[1])


MC_INV = ["Admits", "StencilProps", "D1Law", "D1Exact", "D1Grouping", "D2Law", "D2Exact", "D2Symmetric", "D3Exact", "D3Symmetric"]


def mc_cfg(lats, dmax, ksn, d3max, d3cmax, invariants=MC_INV):
    return ("SPECIFICATION Spec\nCONSTANTS\n"
            f"  LATS = {tlc.tla_value(set(lats))}\n  DMAX = {dmax}\n  KSN = {ksn}\n  D3MAX = {d3max}\n  D3CMAX = {d3cmax}\n"
            + "".join(f"INVARIANT {i}\n" for i in invariants) + "CHECK_DEADLOCK FALSE\n")


def run_mc(name, cfg, dump=True, workers=16):
    st = tlc.run_tlc("MC_KPStencil.tla", cfg, name, workers=workers, dump=dump, coverage=False, timeout=3000)
    if st.get("timeout"):
        raise MachineryError(f"TLC timed out on {name}")
    if st.get("error") and not st.get("violation"):
        raise MachineryError(f"TLC error on {name}: {st['error'][:600]}")
    return st


# ----------------------------------------------------------------------------------------------- the check
def check(pid, tier):
    rep = Report(pid, tier, "exploration")
    thorough = tier == "thorough"
    rng = random.Random(seed() * 7919 + 31)
    import importlib
    fdm = importlib.import_module("wannierberri.system.__finite_differences")
    rep.rule("TLC enumerates (lattice, monomial of degree <= 4, grid point); a case = one TLC state replayed on find_shells / SystemKP, one "
             "recorded SystemKP derivative evaluation validated by TLC, or one floating-point comparison of two systems; distinct by inputs")
    rep.assume("exact cases use recip_lattice = integer matrix, finite_diff_dk = 2^-q and k = h * integer vector, so every sampled "
               "point and polynomial value is exactly representable; k-points stay at least 3 stencil steps inside the box [-1/2, 1/2)")

    # ---------------- spec
    if thorough:
        lats, ksn, d3max, d3cmax = ["cubic", "fcc", "bcc", "tetra2", "ortho", "mono", "tri"], 2, 4, 12
    else:
        lats, ksn, d3max, d3cmax = ["cubic", "fcc", "bcc", "ortho", "mono", "tri"], 1, 3, 8
    st = run_mc("c31_stencil", mc_cfg(lats, 4, ksn, d3max, d3cmax))
    ftable.spec_violation(rep, st, "c31_stencil")
    rep.add_tlc("c31_stencil", st)
    stencils = {}
    derivs = []
    for s in ftable.dump_states(st):
        if s["pc"] == "stencil":
            stencils[s["lat"]] = s
        elif s["pc"] == "deriv":
            derivs.append(s)
    if set(stencils) != set(lats):
        raise MachineryError(f"stencil states missing: {set(lats) - set(stencils)}")
    bydeg = {}
    n_d3 = 0
    n_err = 0
    for s in derivs:
        d = sum(s["e"])
        bydeg[d] = bydeg.get(d, 0) + 1
        n_d3 += bool(s["d3"])
        if d == 3 and any(tuple(s["d1"][a]) != (int(_analytic(s["e"], (a,), s["x"])), 1) for a in range(3)):
            n_err += 1
    if set(bydeg) != {0, 1, 2, 3, 4} or not n_d3 or not n_err:
        raise MachineryError(f"vacuous model c31_stencil: degrees {bydeg}, states with third derivative {n_d3}, cubic monomials with error term {n_err}")
    rep.part("c31_stencil", states_by_degree=bydeg, states_with_third_derivative=n_d3, cubic_monomials_with_nonzero_error=n_err,
             stencils={lat: dict(vectors=len(s["C"]), weights=sorted({f"{w[0]}/{w[1]}" for _, w in s["C"]})) for lat, s in stencils.items()})
    # sensitivity: "exact for cubic polynomials" must be refuted by TLC
    st0 = run_mc("c31_wrong", mc_cfg(["cubic", "bcc"], 3, 1, 0, 0, invariants=["D1ExactCubicWRONG"]), dump=False)
    if not st0.get("violation") or st0["violation"][1] != "D1ExactCubicWRONG":
        raise MachineryError("sensitivity self-test failed: D1ExactCubicWRONG should be violated")
    rep.part("c31_wrong", sensitivity_violation=st0["violation"][1])

    # ---------------- spec -> code: find_shells returns the stencil of the specification
    H6 = 2.0 ** -6
    cat = {}
    for lat, s in stencils.items():
        exp = frozenset((tuple(n), tuple(w)) for n, w in s["nsten"])
        A = [list(r) for r in s["basis"]]
        cat[lat] = dict(A=A, nsten=exp, C=[(tuple(b), frac(w)) for b, w in s["C"]], T=t4_of([(b, frac(w)) for b, w in s["C"]]))
        for h in (1.0, H6):
            rep.case(("find_shells", lat, h))
            try:
                wk, bki = quiet_call(fdm.find_shells, np.array(A, dtype=float) * h)
            except Exception as ex:  # noqa
                rep.violation("find_shells:raises", dict(lattice=lat, basis=(np.array(A) * h).tolist(), error=repr(ex)[:200]))
                continue
            got = set()
            okr = True
            for w, n in zip(wk, bki):
                r = rationalise(w * h * h)
                okr = okr and r is not None
                got.add((tuple(int(x) for x in n), r))
            if not okr or frozenset(got) != exp:
                rep.violation("find_shells:stencil", dict(lattice=lat, basis=(np.array(A) * h).tolist(), expected=sorted(exp),
                                                           got=sorted((n, [float(x) for x in wk][0]) for n, _ in got)))
        rep.sample(dict(fn="find_shells", lattice=lat, basis=[list(r) for r in A], stencil=sorted(exp)[:4], n=len(exp)))

    # ---------------- spec -> code: replay of TLC derivative states on SystemKP (h = 2^-6)
    M2 = 1 * S0 + 2 * SX - 1 * SY + 3 * SZ
    sel = derivs if thorough else [s for s in derivs if s["lat"] == "cubic" or rng.random() < 0.25]
    worst = dict(d1=0.0, d2=0.0, d3=0.0, herm=0.0)
    TOL_REPLAY = 1e-6
    nrepl = 0
    for s in sel:
        lat, e, x = s["lat"], tuple(s["e"]), np.array(s["x"], dtype=float)
        A = np.array(cat[lat]["A"], dtype=float)
        nb = 1 + (sum(e) + s["x"][0]) % 2
        ham = PolyHam([((M2 if nb == 2 else np.array([[1]])), e)])
        syst = make_system(ham, A, H6, red=False)
        kred = (H6 * x) @ np.linalg.inv(A)
        d = sum(e)
        nrepl += 1
        rep.case(("replay", lat, e, tuple(s["x"])), nontrivial=d > 0)
        mat = ham.terms[0][0]
        got1 = syst.derHam(kred)
        exp1 = np.array([float(frac(s["d1"][a])) for a in range(3)]) * H6 ** (d - 1)
        dev = np.abs(got1 - mat[:, :, None] * exp1[None, None, :]).max()
        worst["d1"] = max(worst["d1"], dev)
        if dev > TOL_REPLAY * max(1.0, np.abs(exp1).max()):
            rep.violation("SystemKP.derHam:replay", dict(lattice=lat, monomial=e, x=s["x"], h=H6, expected=exp1.tolist(), got=got1[0, 0].real.tolist(), deviation=dev))
        got2 = syst.der2Ham(kred)
        exp2 = np.array([[float(frac(s["d2"][(a + 1, b + 1)])) for b in range(3)] for a in range(3)]) * H6 ** (d - 2)
        dev = np.abs(got2 - mat[:, :, None, None] * exp2[None, None]).max()
        worst["d2"] = max(worst["d2"], dev)
        if dev > TOL_REPLAY * max(1.0, np.abs(exp2).max()):
            rep.violation("SystemKP.der2Ham:replay", dict(lattice=lat, monomial=e, x=s["x"], h=H6, expected=exp2.tolist(), got=got2[0, 0].real.tolist(), deviation=dev))
        herm = [np.abs(got1 - np.conj(np.swapaxes(got1, 0, 1))).max(), np.abs(got2 - np.conj(np.swapaxes(got2, 0, 1))).max()]
        if s["d3"]:
            got3 = syst.der3Ham(kred)
            herm.append(np.abs(got3 - np.conj(np.swapaxes(got3, 0, 1))).max())
            for (a, b, c), v in s["d3"].items():
                ev = float(frac(v)) * H6 ** (d - 3)
                for perm in set(itertools.permutations((a - 1, b - 1, c - 1))):
                    dev = np.abs(got3[(slice(None), slice(None)) + perm] - mat * ev).max()
                    worst["d3"] = max(worst["d3"], dev)
                    if dev > TOL_REPLAY * max(1.0, abs(ev)):
                        rep.violation("SystemKP.der3Ham:replay", dict(lattice=lat, monomial=e, x=s["x"], h=H6, index=perm, expected=ev,
                                                                      got=complex(got3[(0, 0) + perm]).real, deviation=dev))
        worst["herm"] = max(worst["herm"], max(herm))
        if max(herm) > 1e-9:
            rep.violation("SystemKP:hermiticity", dict(lattice=lat, monomial=e, x=s["x"], deviation=max(herm)))
        if nrepl <= 2:
            rep.sample(dict(fn="SystemKP.derHam", lattice=lat, monomial=e, x=s["x"], h=H6, expected=exp1.tolist()))
    rep.part("replay", states=nrepl, worst_deviation=worst, tolerance=TOL_REPLAY,
             note="deviation from the exact value computed by TLC (which includes the h^2 error term)")

    # ---------------- code -> spec: recorded derivatives of random polynomial Hamiltonians, validated by TLC
    nrec = 200 if thorough else 48
    recs, meta = [], []
    worst_rec = dict(d1=0.0, d2=0.0, d3=0.0, herm=0.0, bound_excess=0.0)
    rec_lats = [l for l in cat]
    for ir in range(nrec):
        lat = rec_lats[ir % len(rec_lats)]
        A = np.array(cat[lat]["A"], dtype=float)
        Ainv = np.linalg.inv(A)
        q = rng.choice([5, 6, 7])
        h = 2.0 ** -q
        red = rng.random() < 0.4
        nb = rng.choice([1, 2])
        ham = random_poly(rng, nb, rng.choice([1, 2, 3, 3]), rng.randint(2, 5))
        nu = [rng.randint(-3, 3) for _ in range(3)]
        syst = make_system(ham, A, h, red=red)
        kred = h * np.array(nu, dtype=float)
        z0 = kred if red else kred @ A
        J = Ainv if red else np.eye(3)     # J[a, i] = d z_i / d x_a
        wk = syst.wk * h * h
        nst = np.rint(syst.bk_red / h).astype(int)
        wst = [rationalise(w) for w in wk]
        rep.case(("record", lat, q, red, tuple(nu), ir))
        if any(w is None for w in wst) or np.abs(nst * h - syst.bk_red).max() > 1e-12:
            rep.violation("SystemKP:stencil_not_rational", dict(lattice=lat, h=h, wk=[float(w) for w in syst.wk]))
            continue
        dw = 1
        for w in wst:
            dw = dw * w[1] // np.gcd(dw, w[1])
        deta = int(round(abs(np.linalg.det(A))))
        sc = [int(dw), deta ** 2 if red else 1, deta ** 3 if red else 1]
        g1, g2, g3 = syst.derHam(kred), syst.der2Ham(kred), syst.der3Ham(kred)
        a1, a2, a3 = ham.der_cart(z0, 1, J), ham.der_cart(z0, 2, J), ham.der_cart(z0, 3, J)
        # numeric: Hermiticity; second and third derivative exact; first derivative = analytic + (h^2/6) T : d^3 f
        hm = max(np.abs(g - np.conj(np.swapaxes(g, 0, 1))).max() for g in (g1, g2, g3))
        T = cat[lat]["T"] * h * h
        e1 = np.einsum("abcd,ijbcd->ija", T, a3) / 6.0
        dev1 = np.abs(g1 - a1 - e1).max()
        dev2 = np.abs(g2 - a2).max()
        dev3 = np.abs(g3 - a3).max()
        worst_rec.update(d1=max(worst_rec["d1"], dev1), d2=max(worst_rec["d2"], dev2), d3=max(worst_rec["d3"], dev3), herm=max(worst_rec["herm"], hm))
        info = dict(lattice=lat, recip_lattice=A.tolist(), finite_diff_dk=h, k_vector_cartesian=not red, k_red=kred.tolist(),
                    terms=[(C.tolist(), e) for C, e in ham.terms])
        if hm > 1e-9:
            rep.violation("SystemKP:hermiticity", dict(info, deviation=hm))
        if dev1 > 1e-6:
            rep.violation("SystemKP.derHam:error_term", dict(info, deviation=dev1, what="derHam differs from analytic + (h^2/6) T:d^3 f"))
        bound = np.abs(e1).max() + 1e-6
        if np.abs(g1 - a1).max() > bound:
            rep.violation("SystemKP.derHam:bound", dict(info, deviation=float(np.abs(g1 - a1).max()), bound=float(bound)))
        if dev2 > 1e-6:
            rep.violation("SystemKP.der2Ham:exactness", dict(info, deviation=dev2))
        if dev3 > 1e-5:
            rep.violation("SystemKP.der3Ham:exactness", dict(info, deviation=dev3))
        polys = ham.scalar_polys()
        rng.shuffle(polys)
        polys = [p for p in polys if p[3]][:2]
        v1, v2, v3 = [], [], []
        big = 0
        for (i, j, part, tt) in polys:
            pick = (lambda g: g[i, j].real) if part == "re" else (lambda g: g[i, j].imag)
            f1 = pick(g1) * 2.0 ** (2 * q) * sc[0]
            f2 = pick(g2).reshape(-1) * 2.0 ** q * sc[1]
            f3 = pick(g3).reshape(-1) * sc[2]
            big = max(big, np.abs(f1).max(), np.abs(f2).max(), np.abs(f3).max())
            v1.append([int(round(x)) for x in f1])
            v2.append([int(round(x)) for x in f2])
            v3.append([int(round(x)) for x in f3])
        if big > 2 ** 28 or not polys:
            continue
        recs.append(dict(A=[[int(x) for x in r] for r in A], q=q, red=bool(red), nst=[[int(x) for x in n] for n in nst],
                         wst=[list(w) for w in wst], nu=nu, polys=[p[3] for p in polys], sc=sc, v1=v1, v2=v2, v3=v3, tol=[1, 1, 1]))
        meta.append(info)
    if len(recs) < nrec // 2:
        raise MachineryError(f"only {len(recs)} of {nrec} records usable")
    stv, bad = ftable.validate_records("KPStencilRec.tla", ftable.REC_CFG, recs, "c31", timeout=3000, chunk=200)
    rep.add_tlc("c31_records", stv)
    rep.add_traces(len(recs))
    for i, clauses in sorted(bad.items()):
        for c in clauses:
            rep.violation("SystemKP:record:" + c, dict(meta[i], failing_clauses=clauses, record={k: recs[i][k] for k in ("q", "red", "nu", "polys", "sc", "v1")}))
    rep.part("records", n=len(recs), reduced_convention=sum(r["red"] for r in recs), worst_deviation=worst_rec,
             tolerances=dict(tlc_integer_units=1, float=1e-6),
             note="one TLC unit is 1/(2^(2q) Dw) for derHam (Dw = lcm of the weight denominators), 2^-q for der2Ham, 1 for der3Ham")
    rep.sample({k: recs[0][k] for k in ("A", "q", "red", "nu", "polys", "sc", "v1")})
    # binding self-test
    c1 = copy.deepcopy(recs[0])
    c1["v1"][0][0] += 3
    c2 = copy.deepcopy(recs[0])
    c2["v2"][0][4] += 2
    c3 = copy.deepcopy(recs[0])
    c3["wst"][0] = [c3["wst"][0][0] * 2, c3["wst"][0][1]]
    _, b2 = ftable.validate_records("KPStencilRec.tla", ftable.REC_CFG, [c1, c2, c3, recs[0]], "c31_selftest")
    for j, cl in {0: "d1", 1: "d2", 2: "stencil_props"}.items():
        if cl not in b2.get(j, []):
            raise MachineryError(f"binding self-test failed: corrupted record {j} not rejected by clause {cl}: {b2.get(j)}")
    if 3 in b2:
        raise MachineryError(f"binding self-test failed: uncorrupted record rejected: {b2[3]}")
    rep.part("binding_selftest", corrupted_records_rejected={str(k): v for k, v in b2.items()})

    # ---------------- numeric only: calculators with and without analytic derivatives, conventions, default dk, length scale
    _numeric_parts(rep, rng, cat, thorough, fdm)
    return rep.finish()


def _analytic(e, dirs, x):
    e = list(e)
    c = 1
    for a in dirs:
        c *= e[a]
        e[a] -= 1
        if e[a] < 0:
            return 0
    return c * x[0] ** e[0] * x[1] ** e[1] * x[2] ** e[2]


def _numeric_parts(rep, rng, cat, thorough, fdm):
    import wannierberri as wb
    from wannierberri.system.system_kp import SystemKP
    from wannierberri import calculators as calc

    # --- (1) evaluate_k: Ham only  vs  analytic derivatives + the specification's error term (must agree to rounding)
    #         and vs the purely analytic derivatives (exact for quadratic Hamiltonians, O(h^2) for cubic ones)
    calcs = lambda: dict(energy=calc.tabulate.Energy(), velocity=calc.tabulate.Velocity(), berry=calc.tabulate.BerryCurvature(),
                         invmass=calc.tabulate.InvMass(), derberry=calc.tabulate.DerBerryCurvature(), der3E=calc.tabulate.Der3E())
    worst = dict(pred=0.0, quad=0.0, cubic=0.0)
    ratios = []
    ncmp = 0
    ncases = 6 if thorough else 3
    TOLP = 1e-5
    for ic in range(ncases):
        red = ic % 3 == 2
        kmax = rng.choice([1.0, 0.5, 2.0])
        R = np.eye(3) * 2 * kmax
        J = np.linalg.inv(R) if red else np.eye(3)
        deg = 3 if ic % 2 == 0 else 2
        while True:
            ham = random_poly(rng, 2, deg, 5)
            if deg == 3 and not any(max(e) == 3 for C, e in ham.terms):
                # a pure cube, so that the finite-difference error term (T_aaaa d_aaa H on a cubic lattice) is not zero
                ham = PolyHam([(C, e) for C, e in ham.terms] + [(SX + 2 * SZ, rng.choice([(3, 0, 0), (0, 3, 0), (0, 0, 3)]))])
            if sum(1 for C, e in ham.terms if abs(C[0, 1]) > 0 or abs(C[0, 0] - C[1, 1]) > 0) >= 2:
                break
        q = 9
        h = 2.0 ** -q
        T = t4_of([(tuple(2 * kmax * np.array(n)), Fraction(1, 2) / (2 * kmax) ** 2) for n in
                   [(1, 0, 0), (-1, 0, 0), (0, 1, 0), (0, -1, 0), (0, 0, 1), (0, 0, -1)]]) * h * h
        d1 = lambda z: ham.der_cart(np.array(z, dtype=float), 1, J)
        d2 = lambda z: ham.der_cart(np.array(z, dtype=float), 2, J)
        d3 = lambda z: ham.der_cart(np.array(z, dtype=float), 3, J)
        d1p = lambda z: d1(z) + np.einsum("abcd,ijbcd->ija", T, d3(z)) / 6.0
        mk = lambda **kw: quiet_call(SystemKP, ham, kmax=kmax, k_vector_cartesian=not red, finite_diff_dk=h, **kw)
        s_fd = mk()
        s_pred = mk(derHam=d1p, der2Ham=d2, der3Ham=d3)
        s_ana = mk(derHam=d1, der2Ham=d2, der3Ham=d3)
        s_fd2 = quiet_call(SystemKP, ham, kmax=kmax, k_vector_cartesian=not red, finite_diff_dk=h / 2)
        done = 0
        for _ in range(40):
            if done >= 2:
                break
            k = np.array([rng.randint(-20, 20) / 128.0 for _ in range(3)])
            z = k if red else k @ R
            E = np.linalg.eigvalsh(ham(z))
            if nbgap(E) < 0.3:
                continue
            rr = {}
            for nm, ss in (("fd", s_fd), ("pred", s_pred), ("ana", s_ana), ("fd2", s_fd2)):
                r = quiet_call(wb.evaluate_k, ss, k=k, calculators=calcs())
                rr[nm] = {kk: np.array(v.data) for kk, v in r.items()}
            rep.case(("evaluate_k", ic, tuple(k)))
            ncmp += 1
            done += 1
            for kk in rr["fd"]:
                scale = max(1.0, np.abs(rr["ana"][kk]).max())
                dp = np.abs(rr["fd"][kk] - rr["pred"][kk]).max() / scale
                da = np.abs(rr["fd"][kk] - rr["ana"][kk]).max() / scale
                da2 = np.abs(rr["fd2"][kk] - rr["ana"][kk]).max() / scale
                worst["pred"] = max(worst["pred"], dp)
                info = dict(calculator=kk, kmax=kmax, k_vector_cartesian=not red, finite_diff_dk=h, k_red=k.tolist(),
                            terms=[(C.tolist(), e) for C, e in ham.terms])
                if dp > TOLP:
                    rep.violation("evaluate_k:fd_vs_predicted:" + kk, dict(info, deviation=dp, what="Ham-only system differs from the system with "
                                  "analytic derivatives + the specification's finite-difference error term"))
                if deg <= 2:
                    worst["quad"] = max(worst["quad"], da)
                    if da > TOLP:
                        rep.violation("evaluate_k:fd_vs_analytic_quadratic:" + kk, dict(info, deviation=da))
                else:
                    worst["cubic"] = max(worst["cubic"], da)
                    if da > 1e-6 and da2 > 1e-7:
                        ratios.append(da / da2)
                    if da > 0.5:
                        rep.violation("evaluate_k:fd_vs_analytic_cubic:" + kk, dict(info, deviation=da))
    if ncmp < ncases or worst["cubic"] == 0.0:
        raise MachineryError("no evaluate_k comparison was made (all k-points on degeneracies?)")
    rep.part("numeric_only_evaluate_k", worst_relative_deviation=worst, tolerance_sharp=TOLP, tolerance_cubic=0.5,
             h2_scaling_ratios=dict(n=len(ratios), min=min(ratios) if ratios else None, max=max(ratios) if ratios else None),
             note="calculators: Energy, Velocity, BerryCurvature, InvMass, DerBerryCurvature, Der3E; 'pred' = analytic derivatives + (h^2/6) T:d^3 H")

    # --- (2) run(): integrated quantities on a grid, Ham only vs predicted vs analytic
    ham = PolyHam([(1 * S0, (2, 0, 0)), (2 * S0, (0, 2, 0)), (1 * S0, (0, 0, 2)), (SX, (1, 0, 0)), (SY, (0, 1, 0)), (SZ, (0, 0, 1)),
                   (SZ, (1, 1, 1)), (2 * SZ, (0, 0, 0)), (SX, (0, 2, 1)), (SY, (3, 0, 0)), (SX, (0, 0, 3))])
    kmax, h = 1.0, 2.0 ** -7
    T = t4_of([(tuple(2 * kmax * np.array(n)), Fraction(1, 8)) for n in [(1, 0, 0), (-1, 0, 0), (0, 1, 0), (0, -1, 0), (0, 0, 1), (0, 0, -1)]]) * h * h
    J = np.eye(3)
    d1 = lambda z: ham.der_cart(np.array(z, dtype=float), 1, J)
    d2 = lambda z: ham.der_cart(np.array(z, dtype=float), 2, J)
    d3 = lambda z: ham.der_cart(np.array(z, dtype=float), 3, J)
    d1p = lambda z: d1(z) + np.einsum("abcd,ijbcd->ija", T, d3(z)) / 6.0
    systems = dict(fd=quiet_call(SystemKP, ham, kmax=kmax, finite_diff_dk=h),
                   pred=quiet_call(SystemKP, ham, kmax=kmax, finite_diff_dk=h, derHam=d1p, der2Ham=d2, der3Ham=d3),
                   ana=quiet_call(SystemKP, ham, kmax=kmax, finite_diff_dk=h, derHam=d1, der2Ham=d2, der3Ham=d3))
    Ef = np.array([-1.0, 0.5, 2.0])
    wdir = workdir("c31_run")
    res = {}
    for nm, ss in systems.items():
        grid = quiet_call(wb.Grid, ss, NK=3, NKFFT=1)   # odd: no k-point on the boundary of the box, where the model is discontinuous
        cc = dict(ahc=calc.static.AHC(Efermi=Ef), ohmic=calc.static.Ohmic_FermiSea(Efermi=Ef), dos=calc.static.DOS(Efermi=Ef),
                  bdip=calc.static.BerryDipole_FermiSea(Efermi=Ef))
        r = quiet_call(wb.run, ss, grid=grid, calculators=cc, adpt_num_iter=0, parallel=False, use_irred_kpt=False, symmetrize=False,
                       print_progress_step_time=1000, fout_name=os.path.join(wdir, "res"), restart=False, print_Kpoints=False)
        res[nm] = {kk: np.array(v.data) for kk, v in r.results.items()}
        rep.case(("run", nm))
    wr = dict(pred=0.0, ana=0.0)
    for kk in res["fd"]:
        scale = max(1e-3, np.abs(res["ana"][kk]).max())
        dp = np.abs(res["fd"][kk] - res["pred"][kk]).max() / scale
        da = np.abs(res["fd"][kk] - res["ana"][kk]).max() / scale
        wr["pred"] = max(wr["pred"], dp)
        wr["ana"] = max(wr["ana"], da)
        if dp > 1e-5:
            rep.violation("run:fd_vs_predicted:" + kk, dict(deviation=dp, calculator=kk, kmax=kmax, finite_diff_dk=h))
        if da > 0.05:
            rep.violation("run:fd_vs_analytic:" + kk, dict(deviation=da, calculator=kk, kmax=kmax, finite_diff_dk=h))
    shutil.rmtree(wdir, ignore_errors=True)
    rep.part("numeric_only_run", worst_relative_deviation=wr, tolerance_sharp=1e-5, tolerance_analytic=0.05,
             calculators=["AHC", "Ohmic_FermiSea", "DOS", "BerryDipole_FermiSea"], grid="NK=3, NKFFT=1")

    # --- (3) default finite_diff_dk = 1e-4 (not exactly representable): derivative accuracy against analytic + error term
    wd = dict(d1=0.0, d2=0.0, d3=0.0)
    for ic in range(4 if thorough else 2):
        kmax = [1.0, 2.0, 1.5, 1.0][ic]
        ham = random_poly(rng, 2, 3, 5)
        ss = quiet_call(SystemKP, ham, kmax=kmax)
        R = np.eye(3) * 2 * kmax
        hh = 1e-4 * 2 * kmax
        nvec = np.rint(ss.bk_red / 1e-4).astype(int)
        if len(ss.wk) != 6:
            continue
        T = t4_of([(tuple(n * hh), w) for n, w in zip(nvec, ss.wk)])
        k = np.array([0.11, -0.07, 0.05])
        z = k @ R
        a1, a2, a3 = (ham.der_cart(z, o, np.eye(3)) for o in (1, 2, 3))
        e1 = np.einsum("abcd,ijbcd->ija", T, a3) / 6.0
        dv = [np.abs(ss.derHam(k) - a1 - e1).max(), np.abs(ss.der2Ham(k) - a2).max(), np.abs(ss.der3Ham(k) - a3).max()]
        rep.case(("default_dk", kmax, ic))
        for nm, v, tol in zip(("d1", "d2", "d3"), dv, (1e-7, 1e-3, 2.0)):
            wd[nm] = max(wd[nm], v)
            if v > tol:
                rep.violation("SystemKP:default_dk:" + nm, dict(kmax=kmax, deviation=v, tolerance=tol, terms=[(C.tolist(), e) for C, e in ham.terms]))
    rep.part("numeric_only_default_dk", worst_deviation=wd, tolerances=dict(d1=1e-7, d2=1e-3, d3=2.0),
             note="rounding noise grows like eps/h^n: the third derivative with h = 1e-4 is only accurate to ~1e-5..1e-4 relative")

    # --- (4) the stencil must not depend on the length scale (the specification's selection is scale free)
    scale_rows = []
    for lat in ("cubic", "bcc", "mono"):
        if lat not in cat:
            continue
        A = np.array(cat[lat]["A"], dtype=float)
        for sc in (1.0, 1e-2, 1e-3, 3e-4, 1e-4, 3e-5, 1e-5):
            rep.case(("find_shells_scale", lat, sc))
            try:
                wk, bki = quiet_call(fdm.find_shells, A * sc)
                got = frozenset((tuple(int(x) for x in n), rationalise(w * sc * sc)) for w, n in zip(wk, bki))
                same = got == cat[lat]["nsten"]
                comp = float(np.abs(np.einsum("b,ba,bc->ac", wk, bki @ (A * sc), bki @ (A * sc)) - np.eye(3)).max())
                scale_rows.append(dict(lattice=lat, scale=sc, vectors=len(wk), equals_spec=same, completeness_dev=comp))
                if comp > 1e-8:
                    rep.violation("find_shells:incomplete", dict(lattice=lat, basis=(A * sc).tolist(), deviation=comp))
            except Exception as ex:  # noqa
                scale_rows.append(dict(lattice=lat, scale=sc, raised=repr(ex)[:80]))
                rep.violation("find_shells:length_scale",
                              dict(what="find_shells fails on a small basis (absolute thresholds 1e-7 on the singular values of the shell matrices): "
                                        "SystemKP cannot be constructed with finite_diff_dk * |recip_lattice| < ~1e-4, e.g. kmax = 0.05 with the default "
                                        "finite_diff_dk = 1e-4, although the stencil is scale free", lattice=lat, basis=(A * sc).tolist(), error=repr(ex)[:200]))
    for kmax in (0.05, 0.02):
        rep.case(("SystemKP_small_kmax", kmax))
        try:
            quiet_call(SystemKP, PolyHam([(np.array([[1]]), (2, 0, 0))]), kmax=kmax)
            scale_rows.append(dict(SystemKP_kmax=kmax, constructed=True))
        except Exception as ex:  # noqa
            scale_rows.append(dict(SystemKP_kmax=kmax, raised=repr(ex)[:80]))
            rep.violation("find_shells:length_scale", dict(what="SystemKP(Ham, kmax) with the default finite_diff_dk cannot be constructed",
                                                           kmax=kmax, error=repr(ex)[:200]))
    rep.part("numeric_only_length_scale", rows=scale_rows)


def nbgap(E):
    return float(np.min(np.diff(E))) if len(E) > 1 else 1.0
