"""C31: k.p models - numerical and analytic derivatives agree.

spec  : KPStencil.tla   - Derivative3D as the one stencil  D f(k)_a = sum_b w_b b_a f(k + b)  on the stencil that the
                          Wannier90 shell procedure selects (BShells selection loop, zero weights dropped), nested for the
                          2nd and 3rd derivative; exact rationals on the integer grid (h = 1, homogeneity gives every h)
        MC_KPStencil    - per catalogue lattice (integer Cartesian basis): the stencil, then every monomial up to degree 4:
                          D1 = d + (1/6) T : d^3 (exact up to degree 2), D2 exact up to degree 3 (+ error law for 4), D3 exact
        KPStencilRec    - record validation of SystemKP(Ham = integer polynomial).derHam / der2Ham / der3Ham and of the
                          stencils find_shells returns
bind  : what C31 demands of the CODE is scheme independent: the numerical derivatives of a polynomial agree with the analytic
        ones exactly where every centro-symmetric second-order scheme is exact (derHam: degree <= 2, der2Ham: <= 3,
        der3Ham: <= 4) and to C h^2 above; for cubic polynomials the first derivative of ANY linear translation-invariant
        scheme is  analytic + (1/6) T : d^3 f  with T_abcd = derHam_a(x_b x_c x_d)(0), which the harness MEASURES on the
        system under test.  Which stencil the code selects is informative only.
        spec -> code : TLC "deriv" states (monomial, point) are replayed on SystemKP with h = 2^-6
        code -> spec : random integer-coefficient Hermitian polynomial Hamiltonians (1-2 bands, degree <= 3), Cartesian and
                       reduced convention, h = 2^-5..2^-7: derivative values as scaled integers validated by TLC, together
                       with the stencil the system declares (NegClosed / Functional / CartComplete, its fourth moment)
        numeric      : Hermiticity, evaluate_k / run() with and without analytic derivatives (cubic box, triclinic lattice,
                       mixed analytic/numerical derivatives, a smooth non-polynomial Hamiltonian, h^2 scaling), default
                       finite_diff_dk, hexagonal / irrational lattices, dependence of find_shells on the length scale
level : exploration - the specification decides the exactness degrees and the error law of the scheme; agreement of
        calculators is floating point
"""
import os
import copy
import shutil
import random
import itertools
from fractions import Fraction

import numpy as np

from .. import tlc, ftable
from ..common import Report, MachineryError, seed, workdir
from ._fdutil import rationalise, quiet_call, Scratch, Skipped

PROPS = {
    "C31": dict(level="exploration",
                technique="TLC exhaustive on KPStencil.tla/MC_KPStencil.tla (finite-difference stencil of the Wannier90 shell procedure + "
                          "Derivative3D, nested, on all monomials up to degree 4, exact rationals) + replay of the TLC states on SystemKP + TLC "
                          "validation (KPStencilRec.tla) of recorded numerical derivatives of integer polynomial Hamiltonians and of the "
                          "stencils the code declares; calculators compared numerically",
                text="The specification decides that the stencil scheme differentiates polynomials exactly up to degree 2 with the error "
                     "(h^2/6) T:d^3 f above, and that the nested second / third derivatives are exact up to degree 3 / 4 and symmetric "
                     "(cubic, fcc, bcc, monoclinic integer lattices and a triclinic and a 3:4:5 orthorhombic one on which the shell procedure ends "
                     "with a NEGATIVE shell weight; thorough: also tetragonal and two more). On the real code the TLC states (quick: the cubic "
                     "lattice, the low-degree states of the negative-weight lattices and a seeded quarter of the others; thorough: all) are replayed on "
                     "SystemKP.derHam/der2Ham/der3Ham with h = 2^-6, sharply where every centro-symmetric second-order scheme is exact and "
                     "against the error term measured on the system under test for cubic monomials, with a C h^2 bound for quartic ones; "
                     "random Hermitian integer polynomials are recorded (TLC checks the integer-scaled values and the declared stencil); "
                     "Hermiticity, evaluate_k/run() with, without and with partly analytic derivatives, the h^2 scaling, a smooth "
                     "Hamiltonian, a triclinic and hexagonal lattice, seeded random triclinic lattices (at least two with a negative shell weight) "
                     "and the default finite_diff_dk are compared in floating point.",
                note="exploration. One TLC unit of the recorded values is 1/(2^(2q) Dw) for derHam (about the size of the h^2 error term), "
                     "2^-q/sc for der2Ham and 1/sc for der3Ham (sc = 1 in the Cartesian convention): the TLC clauses on der2Ham/der3Ham are "
                     "coarse, the sharp comparisons of the recorded calls are the floating-point ones (1e-6 / 1e-5). Which stencil "
                     "find_shells selects is reported (equals_specification), not required.",
                ref="DESIGN.md 3.7"),
}

TLC_WORKERS = int(os.environ.get("VERIF_TLC_WORKERS", "4"))
SX = np.array([[0, 1], [1, 0]], dtype=complex)
SY = np.array([[0, -1j], [1j, 0]], dtype=complex)
SZ = np.array([[1, 0], [0, -1]], dtype=complex)
S0 = np.eye(2, dtype=complex)


# ----------------------------------------------------------------------------------------------- polynomial Hamiltonians
class PolyHam:
    """H(z) = sum_t C_t z^e_t with Hermitian integer matrices C_t; z is whatever SystemKP hands to Ham"""

    def __init__(self, terms):
        self.terms = [(np.array(C, dtype=complex), tuple(e)) for C, e in terms]
        self.nb = self.terms[0][0].shape[0]

    def __call__(self, z):
        return sum(C * (z[0] ** e[0] * z[1] ** e[1] * z[2] ** e[2]) for C, e in self.terms)

    def der(self, z, dirs):
        """derivative with respect to the components `dirs` of z (matrix)"""
        out = np.zeros((self.nb, self.nb), dtype=complex)
        for C, e in self.terms:
            e = list(e)
            c = 1.0
            for a in dirs:
                c *= e[a]
                e[a] -= 1
                if e[a] < 0:
                    c = 0.0
                    break
            if c:
                out = out + C * (c * z[0] ** e[0] * z[1] ** e[1] * z[2] ** e[2])
        return out

    def der_cart(self, z, order, J):
        """Cartesian derivatives of the given order; J[a, i] = d z_i / d x_a ; result shape (nb, nb) + (3,) * order"""
        res = np.zeros((self.nb, self.nb) + (3,) * order, dtype=complex)
        zd = {idx: self.der(z, idx) for idx in itertools.product(range(3), repeat=order)}
        for cart in itertools.product(range(3), repeat=order):
            acc = np.zeros((self.nb, self.nb), dtype=complex)
            for idx, v in zd.items():
                f = 1.0
                for a, ii in zip(cart, idx):
                    f *= J[a, ii]
                if f:
                    acc = acc + f * v
            res[(slice(None), slice(None)) + cart] = acc
        return res

    def scalar_polys(self):
        """the real polynomials that make up the matrix: (label, entry, part, [[c, e1, e2, e3], ...])"""
        out = []
        for (i, j) in [(a, b) for a in range(self.nb) for b in range(a, self.nb)]:
            for part in ("re", "im"):
                if i == j and part == "im":
                    continue
                tt = []
                for C, e in self.terms:
                    c = C[i, j].real if part == "re" else C[i, j].imag
                    if c:
                        tt.append([int(round(c))] + list(e))
                out.append((i, j, part, tt))
        return out


class SmoothHam:
    """a smooth non-polynomial two-band Hamiltonian of the Cartesian k with analytic derivatives:
    H = (cos u) s0 + (sin v) sx + (exp(w) - 1) sy + (1 + z0 z1) sz,  u = a.z, v = b.z, w = c.z"""

    def __init__(self, a, b, c):
        self.a, self.b, self.c = (np.array(x, dtype=float) for x in (a, b, c))
        self.nb = 2

    def __call__(self, z):
        z = np.array(z, dtype=float)
        return (np.cos(self.a @ z) * S0 + np.sin(self.b @ z) * SX + (np.exp(self.c @ z) - 1) * SY + (1 + z[0] * z[1]) * SZ)

    def der_cart(self, z, order, J=None):
        z = np.array(z, dtype=float)
        u, v, w = self.a @ z, self.b @ z, self.c @ z
        fu = [np.cos(u), -np.sin(u), -np.cos(u), np.sin(u)][order % 4]
        fv = [np.sin(v), np.cos(v), -np.sin(v), -np.cos(v)][order % 4]
        fw = np.exp(w)
        res = np.zeros((2, 2) + (3,) * order, dtype=complex)
        for cart in itertools.product(range(3), repeat=order):
            pa = np.prod([self.a[i] for i in cart])
            pb = np.prod([self.b[i] for i in cart])
            pc = np.prod([self.c[i] for i in cart])
            m = fu * pa * S0 + fv * pb * SX + fw * pc * SY
            if order == 1:
                m = m + (z[1] if cart[0] == 0 else z[0] if cart[0] == 1 else 0.0) * SZ
            elif order == 2 and sorted(cart) == [0, 1]:
                m = m + SZ
            res[(slice(None), slice(None)) + cart] = m
        return res


def random_hermitian(rng, nb, cmax=3):
    if nb == 1:
        return np.array([[rng.randint(-cmax, cmax)]], dtype=complex)
    c = [rng.randint(-cmax, cmax) for _ in range(4)]
    return c[0] * S0 + c[1] * SX + c[2] * SY + c[3] * SZ


def random_poly(rng, nb, dmax, nterms):
    exps = [e for e in itertools.product(range(dmax + 1), repeat=3) if sum(e) <= dmax]
    top = [e for e in exps if sum(e) == dmax]
    chosen = [rng.choice(top)] + rng.sample(exps, nterms - 1)
    terms = []
    for e in dict.fromkeys(chosen):
        C = random_hermitian(rng, nb)
        while not np.any(C):
            C = random_hermitian(rng, nb)
        terms.append((C, e))
    return PolyHam(terms)


def make_system(ham, A, h, red, scale=1.0, **kw):
    from wannierberri.system.system_kp import SystemKP
    return quiet_call(SystemKP, ham, kmax=None, recip_lattice=np.array(A, dtype=float) * scale, k_vector_cartesian=not red,
                      finite_diff_dk=h, **kw)


# the ten cubic monomials x_b x_c x_d (b <= c <= d) on the diagonal of one Hamiltonian: derHam at k = 0 is the fourth moment of
# whatever linear scheme the system uses, T_abcd = D1_a (x_b x_c x_d)(0)
MONO3 = [(b, c, d) for b in range(3) for c in range(b, 3) for d in range(c, 3)]


def _probe_ham(z):
    return np.diag([z[b] * z[c] * z[d] for (b, c, d) in MONO3]).astype(complex)


def measure_T(build):
    """build(ham) -> a SystemKP on the lattice / step under test whose Ham takes the CARTESIAN k.  Returns the measured
    T (3,3,3,3) = error tensor of the first derivative on cubic polynomials: D1_a f = d_a f + (1/6) T_abcd d_bcd f"""
    syst = build(_probe_ham)
    g = np.array(syst.derHam(np.zeros(3)))
    T = np.zeros((3, 3, 3, 3))
    for i, (b, c, d) in enumerate(MONO3):
        for a in range(3):
            for perm in set(itertools.permutations((b, c, d))):
                T[(a,) + perm] = g[i, i, a].real
    return T


def frac(w):
    return Fraction(w[0], w[1])


def t4_of(cart_stencil):
    """T_abcd = sum w b_a b_b b_c b_d (float) from a list of (b, w)"""
    T = np.zeros((3, 3, 3, 3))
    for b, w in cart_stencil:
        b = np.array(b, dtype=float)
        T += float(w) * np.einsum("a,b,c,d->abcd", b, b, b, b)
    return T


MC_INV = ["Admits", "StencilProps", "D1Law", "D1Exact", "D1Grouping", "D2Law", "D2Exact", "D2Symmetric", "D3Exact", "D3Symmetric"]


def mc_cfg(lats, dmax, ksn, d3max, d3cmax, invariants=MC_INV):
    return ("SPECIFICATION Spec\nCONSTANTS\n"
            f"  LATS = {tlc.tla_value(set(lats))}\n  DMAX = {dmax}\n  KSN = {ksn}\n  D3MAX = {d3max}\n  D3CMAX = {d3cmax}\n"
            + "".join(f"INVARIANT {i}\n" for i in invariants) + "CHECK_DEADLOCK FALSE\n")


def run_mc(name, cfg, dump=True):
    st = tlc.run_tlc("MC_KPStencil.tla", cfg, name, workers=TLC_WORKERS, dump=dump, coverage=False, timeout=3000)
    if st.get("timeout"):
        raise MachineryError(f"TLC timed out on {name}")
    if st.get("error") and not st.get("violation"):
        raise MachineryError(f"TLC error on {name}: {st['error'][:600]}")
    return st


def _analytic(e, dirs, x):
    e = list(e)
    c = 1
    for a in dirs:
        c *= e[a]
        e[a] -= 1
        if e[a] < 0:
            return 0
    return c * x[0] ** e[0] * x[1] ** e[1] * x[2] ** e[2]


def mirror_shell_weights(basis, isearch=3):
    """harness-side mirror of the Wannier90 shell procedure (float): the weights per selected shell, or None.  Used only to
    CHOOSE inputs (which random lattices have a negative shell weight) independently of the code under test"""
    basis = np.array(basis, dtype=float)
    basis = basis / np.linalg.norm(basis, axis=1).max()
    n = np.array([v for v in itertools.product(range(-isearch, isearch + 1), repeat=3) if any(v)])
    b = n @ basis
    ln = np.linalg.norm(b, axis=1)
    order = np.argsort(ln, kind="stable")
    b, ln = b[order], ln[order]
    brd = [0] + [i + 1 for i in range(len(ln) - 1) if ln[i + 1] - ln[i] > 1e-8] + [len(ln)]
    shells = [b[i:j] for i, j in zip(brd, brd[1:])][:50]
    sel = []
    for sh in shells:
        par = False
        for s0 in sel:
            c = np.linalg.norm(np.cross(s0[:, None, :], sh[None, :, :]), axis=2) / (np.linalg.norm(s0, axis=1)[:, None] * np.linalg.norm(sh, axis=1)[None, :])
            if c.min() < 1e-6:
                par = True
                break
        if par:
            continue
        M = np.array([(x.T @ x).reshape(-1) for x in sel + [sh]])
        sv = np.linalg.svd(M, compute_uv=False)
        if sv.min() < 1e-7:
            continue
        sel.append(sh)
        w = np.linalg.lstsq(M.T, np.eye(3).reshape(-1), rcond=None)[0]
        if np.linalg.norm(M.T @ w - np.eye(3).reshape(-1)) < 1e-5:
            return w
    return None


def find_shells_adapter(skipped):
    """the private find_shells (module name with a dunder prefix) or None"""
    try:
        import importlib
        fdm = importlib.import_module("wannierberri.system.__finite_differences")
        fn = getattr(fdm, "find_shells")
    except Exception as ex:  # noqa
        skipped.add("find_shells", ex)
        return None
    return fn


def declared_stencil(syst, A, h, find_shells, skipped):
    """(lattice-unit rational weights, integer mesh vectors) of the stencil the system uses, read from its attributes or from
    find_shells; None when neither is available or the stencil is not of that form (then the record carries no stencil)"""
    wk, bkr = getattr(syst, "wk", None), getattr(syst, "bk_red", None)
    try:
        if wk is None or bkr is None:
            if find_shells is None:
                raise AttributeError("SystemKP.wk / bk_red and find_shells are not available")
            wk, bki = quiet_call(find_shells, np.array(A, dtype=float) * h)
            bkr = np.array(bki) * h
        wk = np.array(wk, dtype=float) * h * h
        bkr = np.array(bkr, dtype=float)
        nst = np.rint(bkr / h).astype(int)
        wst = [rationalise(w) for w in wk]
        if any(w is None for w in wst) or np.abs(nst * h - bkr).max() > 1e-12 or len(wst) != len(nst):
            skipped.add("declared_stencil_not_rational")
            return None
        return wst, nst
    except Exception as ex:  # noqa
        skipped.add("declared_stencil", ex)
        return None


# ----------------------------------------------------------------------------------------------- the check
def check(pid, tier):
    rep = Report(pid, tier, "exploration")
    scratch = Scratch(pid)
    try:
        return _check(rep, tier, scratch)
    except Exception:
        if rep.violations:
            rep.finish()
        raise
    finally:
        scratch.cleanup()


def _check(rep, tier, scratch):
    thorough = tier == "thorough"
    rng = random.Random(seed() * 7919 + 31)
    skipped = Skipped()
    find_shells = find_shells_adapter(skipped)
    rep.rule("TLC enumerates (lattice, monomial of degree <= 4, grid point); a case = one TLC state replayed on SystemKP, one "
             "recorded SystemKP derivative evaluation or find_shells stencil validated by TLC, or one floating-point comparison of two "
             "systems; distinct by inputs")
    rep.assume("exact cases use recip_lattice = integer matrix, finite_diff_dk = 2^-q and k = h * integer vector, so every sampled "
               "point and polynomial value is exactly representable; k-points stay at least 3 stencil steps inside the box [-1/2, 1/2)")
    rep.assume("the numerical first derivative is a linear, translation-invariant combination of values of Ham (any stencil): its error on "
               "cubic polynomials is then (1/6) T : d^3 f with T measured on the system under test")

    # ---------------- spec
    if thorough:
        lats, ksn, d3max, d3cmax = ["cubic", "fcc", "bcc", "tetra2", "ortho", "mono", "tri", "triN", "orthoN"], 2, 4, 12
    else:
        # triN / orthoN: the shell procedure ends with a negative shell weight there (a sign-sensitive filter or solver breaks them)
        lats, ksn, d3max, d3cmax = ["cubic", "fcc", "bcc", "orthoN", "mono", "triN"], 1, 3, 8
    st = run_mc(scratch.name("c31_stencil"), mc_cfg(lats, 4, ksn, d3max, d3cmax))
    ftable.spec_violation(rep, st, "c31_stencil")
    rep.add_tlc("c31_stencil", st)
    stencils = {}
    derivs = []
    for s in ftable.dump_states(st):
        if s["pc"] == "stencil":
            stencils[s["lat"]] = s
        elif s["pc"] == "deriv":
            derivs.append(s)
    # the dump order depends on the scheduling of the TLC workers: fix it before anything is drawn from it
    derivs.sort(key=lambda s: (s["lat"], tuple(s["e"]), tuple(s["x"])))
    if set(stencils) != set(lats):
        raise MachineryError(f"stencil states missing: {set(lats) - set(stencils)}")
    bydeg = {}
    n_d3 = 0
    n_err = 0
    for s in derivs:
        d = sum(s["e"])
        bydeg[d] = bydeg.get(d, 0) + 1
        n_d3 += bool(s["d3"])
        if d == 3 and any(tuple(s["d1"][a]) != (int(_analytic(s["e"], (a,), s["x"])), 1) for a in range(3)):
            n_err += 1
    if set(bydeg) != {0, 1, 2, 3, 4} or not n_d3 or not n_err:
        raise MachineryError(f"vacuous model c31_stencil: degrees {bydeg}, states with third derivative {n_d3}, cubic monomials with error term {n_err}")
    neg_lats = sorted(lat for lat, s in stencils.items() if any(w[0] < 0 for _, w in s["C"]))
    if not neg_lats:
        raise MachineryError("vacuous catalogue: no stencil of the specification has a negative shell weight")
    rep.part("c31_stencil", lattices_with_a_negative_shell_weight=neg_lats)
    rep.part("c31_stencil", states_by_degree=bydeg, states_with_third_derivative=n_d3, cubic_monomials_with_nonzero_error=n_err,
             stencils={lat: dict(vectors=len(s["C"]), weights=sorted({f"{w[0]}/{w[1]}" for _, w in s["C"]})) for lat, s in stencils.items()})
    # sensitivity: "exact for cubic polynomials" must be refuted by TLC
    st0 = run_mc(scratch.name("c31_wrong"), mc_cfg(["cubic", "bcc"], 3, 1, 0, 0, invariants=["D1ExactCubicWRONG"]), dump=False)
    if not st0.get("violation") or st0["violation"][1] != "D1ExactCubicWRONG":
        raise MachineryError("sensitivity self-test failed: D1ExactCubicWRONG should be violated")
    rep.part("c31_wrong", sensitivity_violation=st0["violation"][1])

    H6 = 2.0 ** -6
    cat = {}
    for lat, s in stencils.items():
        cat[lat] = dict(A=[list(r) for r in s["basis"]], nsten=frozenset((tuple(n), tuple(w)) for n, w in s["nsten"]),
                        T_spec=t4_of([(tuple(b), frac(w)) for b, w in s["C"]]))

    recs, meta = [], []      # records for TLC: stencils of find_shells first, derivative evaluations later

    # ---------------- find_shells: ANY stencil that is closed under b -> -b, has one weight per vector and is complete is valid
    fs_rows = []
    if find_shells is not None:
        for lat in sorted(cat):
            A = cat[lat]["A"]
            for h in (1.0, H6):
                rep.case(("find_shells", lat, h))
                try:
                    wk, bki = quiet_call(find_shells, np.array(A, dtype=float) * h)
                    wk, bki = np.array(wk, dtype=float), np.array(bki)
                    if bki.ndim != 2 or bki.shape[1] != 3 or wk.shape != (len(bki),):
                        raise TypeError(f"unexpected shapes {wk.shape} {bki.shape}")
                except (TypeError, AttributeError) as ex:
                    skipped.add("find_shells", ex)
                    continue
                except Exception as ex:  # noqa
                    rep.violation("raises:find_shells:" + type(ex).__name__, dict(lattice=lat, basis=(np.array(A) * h).tolist(), error=repr(ex)[:200]))
                    continue
                bc = bki @ (np.array(A, dtype=float) * h)
                comp = float(np.abs(np.einsum("b,ba,bc->ac", wk, bc, bc) - np.eye(3)).max())
                wst = [rationalise(w * h * h) for w in wk]
                row = dict(lattice=lat, h=h, vectors=len(wk), completeness_dev=comp)
                if comp > 1e-8:
                    rep.violation("find_shells:incomplete", dict(lattice=lat, basis=(np.array(A) * h).tolist(), deviation=comp))
                if all(w is not None for w in wst) and np.all(bki == np.rint(bki)):
                    got = frozenset((tuple(int(x) for x in n), w) for w, n in zip(wst, bki))
                    row["equals_specification"] = got == cat[lat]["nsten"]
                    recs.append(dict(fn="find_shells", A=[[int(x) for x in r] for r in A], q=0, red=False, nst=[[int(x) for x in n] for n in bki],
                                     wst=[list(w) for w in wst], nu=[0, 0, 0], polys=[], sc=[1, 1, 1], v1=[], v2=[], v3=[], tol=[1, 1, 1]))
                    meta.append(dict(fn="find_shells", lattice=lat, basis=(np.array(A) * h).tolist()))
                fs_rows.append(row)
            rep.sample(dict(fn="find_shells", lattice=lat, basis=[list(r) for r in A], specification_stencil=sorted(cat[lat]["nsten"])[:4],
                            n=len(cat[lat]["nsten"])))
    rep.part("find_shells", rows=fs_rows, note="equals_specification is informative: C31 does not prescribe which complete stencil is used")

    # ---------------- the error tensor of the scheme under test, measured per (lattice, step)
    Tcache = {}

    def T_of(lat, h):
        if (lat, h) not in Tcache:
            A = np.array(cat[lat]["A"], dtype=float)
            Tcache[(lat, h)] = measure_T(lambda ham: make_system(ham, A, h, red=False))
        return Tcache[(lat, h)]

    # ---------------- spec -> code: replay of TLC derivative states on SystemKP (h = 2^-6)
    M2 = 1 * S0 + 2 * SX - 1 * SY + 3 * SZ
    sel = derivs if thorough else [s for s in derivs if s["lat"] == "cubic" or (s["lat"] in neg_lats and sum(s["e"]) <= 2) or rng.random() < 0.25]
    worst = dict(d1=0.0, d2=0.0, d3=0.0, herm=0.0)
    TOL_REPLAY = 1e-6
    nrepl = 0
    nspec = dict(equal=0, differ=0)
    for s in sel:
        lat, e, x = s["lat"], tuple(s["e"]), np.array(s["x"], dtype=float)
        A = np.array(cat[lat]["A"], dtype=float)
        nb = 1 + (sum(e) + s["x"][0]) % 2
        ham = PolyHam([((M2 if nb == 2 else np.array([[1]])), e)])
        d = sum(e)
        nrepl += 1
        rep.case(("replay", lat, e, tuple(s["x"])), nontrivial=d > 0)
        info = dict(lattice=lat, recip_lattice=A.tolist(), monomial=e, x=s["x"], h=H6)
        try:
            syst = make_system(ham, A, H6, red=False)
            kred = (H6 * x) @ np.linalg.inv(A)
            got1, got2, got3 = np.array(syst.derHam(kred)), np.array(syst.der2Ham(kred)), np.array(syst.der3Ham(kred))
            T = T_of(lat, H6)
        except Exception as ex:  # noqa
            rep.violation("raises:SystemKP:" + type(ex).__name__, dict(info, error=repr(ex)[:300]))
            continue
        mat = ham.terms[0][0]
        z = H6 * x
        an = [None,
              np.array([_analytic(e, (a,), z) for a in range(3)], dtype=float),
              np.array([[_analytic(e, (a, b), z) for b in range(3)] for a in range(3)], dtype=float),
              np.array([[[_analytic(e, (a, b, c), z) for c in range(3)] for b in range(3)] for a in range(3)], dtype=float),
              np.array([[[[_analytic(e, (a, b, c, f), z) for f in range(3)] for c in range(3)] for b in range(3)] for a in range(3)], dtype=float)]
        tmax = float(np.abs(T).max())
        # first derivative: exact (degree <= 2), analytic + measured error term (degree 3), C h^2 bound (degree 4)
        exp1 = an[1] + (np.einsum("abcd,bcd->a", T, an[3]) / 6.0 if d == 3 else 0.0)
        dev = float(np.abs(got1 - mat[:, :, None] * exp1[None, None, :]).max()) / float(np.abs(mat).max())
        if d <= 3:
            worst["d1"] = max(worst["d1"], dev)
            if dev > TOL_REPLAY * max(1.0, np.abs(exp1).max()):
                rep.violation("SystemKP.derHam:replay", dict(info, expected=exp1.tolist(), got=got1[0, 0].real.tolist(), deviation=dev,
                                                             what="exact up to degree 2, analytic + (1/6) T:d^3 f (T measured) for degree 3"))
        elif dev > 3 * tmax * float(np.abs(an[3]).sum()) + TOL_REPLAY:
            rep.violation("SystemKP.derHam:bound", dict(info, expected=an[1].tolist(), got=got1[0, 0].real.tolist(), deviation=dev,
                                                        bound=3 * tmax * float(np.abs(an[3]).sum())))
        # second derivative: exact up to degree 3, C h^2 bound for degree 4
        dev = float(np.abs(got2 - mat[:, :, None, None] * an[2][None, None]).max()) / float(np.abs(mat).max())
        if d <= 3:
            worst["d2"] = max(worst["d2"], dev)
            if dev > TOL_REPLAY * max(1.0, np.abs(an[2]).max()):
                rep.violation("SystemKP.der2Ham:replay", dict(info, expected=an[2].tolist(), got=got2[0, 0].real.tolist(), deviation=dev))
        elif dev > 3 * tmax * float(np.abs(an[4]).sum()) + TOL_REPLAY:
            rep.violation("SystemKP.der2Ham:bound", dict(info, expected=an[2].tolist(), got=got2[0, 0].real.tolist(), deviation=dev,
                                                         bound=3 * tmax * float(np.abs(an[4]).sum())))
        # third derivative: exact up to degree 4
        dev = float(np.abs(got3 - mat[:, :, None, None, None] * an[3][None, None]).max()) / float(np.abs(mat).max())
        worst["d3"] = max(worst["d3"], dev)
        if dev > TOL_REPLAY * max(1.0, np.abs(an[3]).max()):
            rep.violation("SystemKP.der3Ham:replay", dict(info, expected=an[3].tolist(), got=got3[0, 0].real.tolist(), deviation=dev))
        herm = max(np.abs(g - np.conj(np.swapaxes(g, 0, 1))).max() for g in (got1, got2, got3))
        worst["herm"] = max(worst["herm"], herm)
        if herm > 1e-9:
            rep.violation("SystemKP:hermiticity", dict(info, deviation=herm))
        # informative: the value TLC computed for the specification's stencil (includes its h^2 error term)
        spec1 = np.array([float(frac(s["d1"][a])) for a in range(3)]) * H6 ** (d - 1)
        same = np.abs(got1 - mat[:, :, None] * spec1[None, None, :]).max() <= TOL_REPLAY * max(1.0, np.abs(spec1).max())
        nspec["equal" if same else "differ"] += 1
        if nrepl <= 2:
            rep.sample(dict(fn="SystemKP.derHam", lattice=lat, monomial=e, x=s["x"], h=H6, expected=exp1.tolist()))
    rep.part("replay", states=nrepl, worst_deviation=worst, tolerance=TOL_REPLAY, derHam_equals_value_of_specification_stencil=nspec,
             note="sharp where every centro-symmetric second-order scheme is exact (derHam degree <= 2, der2Ham <= 3, der3Ham <= 4) and, "
                  "for cubic monomials, against analytic + (1/6) T:d^3 f with T measured on the system; quartic: |error| <= 3 max|T| sum|d^n f|")

    # ---------------- code -> spec: recorded derivatives of random polynomial Hamiltonians, validated by TLC
    nrec = 200 if thorough else 48
    worst_rec = dict(d1=0.0, d2=0.0, d3=0.0, herm=0.0)
    rec_lats = sorted(cat)
    nder = 0
    for ir in range(nrec):
        lat = rec_lats[ir % len(rec_lats)]
        A = np.array(cat[lat]["A"], dtype=float)
        Ainv = np.linalg.inv(A)
        q = rng.choice([5, 6, 7])
        h = 2.0 ** -q
        red = rng.random() < 0.4
        nb = rng.choice([1, 2])
        ham = random_poly(rng, nb, rng.choice([1, 2, 3, 3]), rng.randint(2, 5))
        nu = [rng.randint(-3, 3) for _ in range(3)]
        kred = h * np.array(nu, dtype=float)
        z0 = kred if red else kred @ A
        J = Ainv if red else np.eye(3)     # J[a, i] = d z_i / d x_a
        info = dict(lattice=lat, recip_lattice=A.tolist(), finite_diff_dk=h, k_vector_cartesian=not red, k_red=kred.tolist(),
                    terms=[(C.tolist(), e) for C, e in ham.terms])
        rep.case(("record", lat, q, red, tuple(nu), ir))
        try:
            syst = make_system(ham, A, h, red=red)
            g1, g2, g3 = np.array(syst.derHam(kred)), np.array(syst.der2Ham(kred)), np.array(syst.der3Ham(kred))
            T = T_of(lat, h)
        except Exception as ex:  # noqa
            rep.violation("raises:SystemKP:" + type(ex).__name__, dict(info, error=repr(ex)[:300]))
            continue
        a1, a2, a3 = ham.der_cart(z0, 1, J), ham.der_cart(z0, 2, J), ham.der_cart(z0, 3, J)
        # numeric: Hermiticity; second and third derivative exact; first derivative = analytic + (1/6) T : d^3 f (T measured)
        hm = max(np.abs(g - np.conj(np.swapaxes(g, 0, 1))).max() for g in (g1, g2, g3))
        e1 = np.einsum("abcd,ijbcd->ija", T, a3) / 6.0
        dev1 = np.abs(g1 - a1 - e1).max()
        dev2 = np.abs(g2 - a2).max()
        dev3 = np.abs(g3 - a3).max()
        worst_rec.update(d1=max(worst_rec["d1"], dev1), d2=max(worst_rec["d2"], dev2), d3=max(worst_rec["d3"], dev3), herm=max(worst_rec["herm"], hm))
        if hm > 1e-9:
            rep.violation("SystemKP:hermiticity", dict(info, deviation=hm))
        if dev1 > 1e-6:
            rep.violation("SystemKP.derHam:error_term", dict(info, deviation=dev1, what="derHam differs from analytic + (1/6) T:d^3 f (T measured "
                                                                                       "on the same lattice and step with the ten cubic monomials)"))
        bound = 3 * float(np.abs(T).max()) * float(np.abs(a3).sum()) + 1e-6
        if np.abs(g1 - a1).max() > bound:
            rep.violation("SystemKP.derHam:bound", dict(info, deviation=float(np.abs(g1 - a1).max()), bound=float(bound)))
        if dev2 > 1e-6:
            rep.violation("SystemKP.der2Ham:exactness", dict(info, deviation=dev2))
        if dev3 > 1e-5:
            rep.violation("SystemKP.der3Ham:exactness", dict(info, deviation=dev3))
        sten = declared_stencil(syst, A, h, find_shells, skipped)
        dw = 1
        if sten is not None:
            for w in sten[0]:
                dw = dw * w[1] // np.gcd(dw, w[1])
        deta = int(round(abs(np.linalg.det(A))))
        sc = [int(dw), deta ** 2 if red else 1, deta ** 3 if red else 1]
        polys = ham.scalar_polys()
        rng.shuffle(polys)
        polys = [p for p in polys if p[3]][:2]
        v1, v2, v3 = [], [], []
        big = 0
        for (i, j, part, tt) in polys:
            pick = (lambda g: g[i, j].real) if part == "re" else (lambda g: g[i, j].imag)
            f1 = pick(g1) * 2.0 ** (2 * q) * sc[0]
            f2 = pick(g2).reshape(-1) * 2.0 ** q * sc[1]
            f3 = pick(g3).reshape(-1) * sc[2]
            big = max(big, np.abs(f1).max(), np.abs(f2).max(), np.abs(f3).max())
            v1.append([int(round(x)) for x in f1])
            v2.append([int(round(x)) for x in f2])
            v3.append([int(round(x)) for x in f3])
        if big > 2 ** 28 or not polys or not np.all(np.isfinite([big])):
            continue
        rec = dict(fn="SystemKP", A=[[int(x) for x in r] for r in A], q=q, red=bool(red), nu=nu, polys=[p[3] for p in polys], sc=sc,
                   v1=v1, v2=v2, v3=v3, tol=[1, 1, 1])
        if sten is not None:
            rec.update(nst=[[int(x) for x in n] for n in sten[1]], wst=[list(w) for w in sten[0]])
            t4 = T / (h * h) * sc[0]
            if np.abs(t4).max() < 2 ** 28:
                rec["T4"] = [int(round(x)) for x in t4.reshape(-1)]
        recs.append(rec)
        meta.append(info)
        nder += 1
    if nder < nrec // 2:
        if rep.violations:
            rep.part("records", usable=nder)
        else:
            raise MachineryError(f"only {nder} of {nrec} records usable")
    if recs:
        stv, bad = ftable.validate_records("KPStencilRec.tla", ftable.REC_CFG, recs, scratch.name("c31"), timeout=3000, chunk=200)
        rep.add_tlc("c31_records", stv)
        rep.add_traces(len(recs))
        for i, clauses in sorted(bad.items()):
            for c in clauses:
                rep.violation(recs[i]["fn"] + ":record:" + c, dict(meta[i], failing_clauses=clauses,
                                                                     record={k: recs[i][k] for k in ("q", "red", "nu", "polys", "sc", "v1") if k in recs[i]}))
    rep.part("records", n=len(recs), derivative_records=nder, with_declared_stencil=sum("nst" in r for r in recs),
             with_measured_T4=sum("T4" in r for r in recs), reduced_convention=sum(r["red"] for r in recs), worst_deviation=worst_rec,
             tolerances=dict(tlc_integer_units=1, float=1e-6),
             note="one TLC unit is 1/(2^(2q) Dw) for derHam (Dw = lcm of the weight denominators), 2^-q/sc for der2Ham, 1/sc for der3Ham "
                  "(sc = 1 Cartesian, det^2 / det^3 reduced): the sharp comparisons are the floating-point ones")
    full = [r for r in recs if r["fn"] == "SystemKP" and "nst" in r and "T4" in r]
    if full:
        rep.sample({k: full[0][k] for k in ("A", "q", "red", "nu", "polys", "sc", "v1")})
        # binding self-test
        c1 = copy.deepcopy(full[0])
        c1["v1"][0][0] += 3
        c2 = copy.deepcopy(full[0])
        c2["v2"][0][4] += 2
        c3 = copy.deepcopy(full[0])
        c3["wst"][0] = [c3["wst"][0][0] * 2, c3["wst"][0][1]]
        c4 = copy.deepcopy(full[0])
        c4["T4"][0] += 5
        _, b2 = ftable.validate_records("KPStencilRec.tla", ftable.REC_CFG, [c1, c2, c3, c4, full[0]], scratch.name("c31_selftest"))
        for j, cl in {0: "d1", 1: "d2", 2: "stencil_props", 3: "t4_of_stencil"}.items():
            if cl not in b2.get(j, []):
                raise MachineryError(f"binding self-test failed: corrupted record {j} not rejected by clause {cl}: {b2.get(j)}")
        if 4 in b2:
            raise MachineryError(f"binding self-test failed: uncorrupted record rejected: {b2[4]}")
        rep.part("binding_selftest", corrupted_records_rejected={str(k): v for k, v in b2.items()})
    else:
        skipped.add("binding_selftest_needs_declared_stencil")

    # ---------------- numeric only: calculators with and without analytic derivatives, conventions, default dk, length scale
    _numeric_parts(rep, rng, cat, thorough, find_shells, skipped, scratch)
    skipped.report(rep)
    return rep.finish()


def _numeric_parts(rep, rng, cat, thorough, find_shells, skipped, scratch):
    import wannierberri as wb
    from wannierberri.system.system_kp import SystemKP
    from wannierberri import calculators as calc

    # --- (1) evaluate_k: Ham only  vs  analytic derivatives + the measured error term (must agree to rounding), vs systems where
    #         only derHam (or derHam and der2Ham) is analytic and the rest numerical, and vs the purely analytic derivatives
    #         (exact for quadratic Hamiltonians, O(h^2) with ratio 4 between h and h/2 for cubic / smooth ones)
    def calcs():
        return dict(energy=calc.tabulate.Energy(), velocity=calc.tabulate.Velocity(), berry=calc.tabulate.BerryCurvature(),
                    invmass=calc.tabulate.InvMass(), derberry=calc.tabulate.DerBerryCurvature(), der3E=calc.tabulate.Der3E())
    worst = dict(pred=0.0, quad=0.0, cubic=0.0, mixed=0.0, smooth=0.0)
    ratios = []
    per_case = {}
    ncmp = 0
    TOLP = 1e-5
    tri = np.array(cat["tri"]["A"], dtype=float) if "tri" in cat else np.array([[2, 0, 0], [1, 2, 0], [1, 1, 3]], dtype=float)
    cases = [dict(kind="box", deg=3, red=False), dict(kind="box", deg=2, red=False), dict(kind="box", deg=3, red=True),
             dict(kind="tri", deg=3, red=False), dict(kind="smooth", deg=None, red=False)]
    if thorough:
        cases += [dict(kind="box", deg=2, red=False), dict(kind="box", deg=3, red=False), dict(kind="box", deg=2, red=True),
                  dict(kind="tri", deg=3, red=True), dict(kind="tri", deg=2, red=False), dict(kind="smooth", deg=None, red=False)]
    for ic, case in enumerate(cases):
        red, deg, kind = case["red"], case["deg"], case["kind"]
        kmax = rng.choice([1.0, 0.5, 2.0])
        R = np.eye(3) * 2 * kmax if kind != "tri" else tri
        lsc = float(np.linalg.norm(R, 2))
        J = np.linalg.inv(R) if red else np.eye(3)
        q = 9 if kind != "smooth" else 7
        h = 2.0 ** -q
        if kind == "smooth":
            ham = SmoothHam([rng.choice([0.5, 1.0, 1.5]), rng.choice([-0.5, 0.5]), 0.25], [0.5, rng.choice([1.0, -1.0]), 0.5],
                            [rng.choice([0.25, -0.25]), 0.5, rng.choice([0.75, 0.5])])
            desc = dict(smooth=dict(a=ham.a.tolist(), b=ham.b.tolist(), c=ham.c.tolist()))
        else:
            while True:
                ham = random_poly(rng, 2, deg, 5)
                if deg == 3 and not any(max(e) == 3 for C, e in ham.terms):
                    # a pure cube, so that the finite-difference error term (T_aaaa d_aaa H on a cubic lattice) is not zero
                    ham = PolyHam([(C, e) for C, e in ham.terms] + [(SX + 2 * SZ, rng.choice([(3, 0, 0), (0, 3, 0), (0, 0, 3)]))])
                if sum(1 for C, e in ham.terms if abs(C[0, 1]) > 0 or abs(C[0, 0] - C[1, 1]) > 0) >= 2:
                    break
            desc = dict(terms=[(C.tolist(), e) for C, e in ham.terms])

        def mk(hh=h, **kw):
            if kind == "tri":
                return quiet_call(SystemKP, ham, kmax=None, recip_lattice=R, k_vector_cartesian=not red, finite_diff_dk=hh, **kw)
            return quiet_call(SystemKP, ham, kmax=kmax, k_vector_cartesian=not red, finite_diff_dk=hh, **kw)
        base = dict(case=kind, degree=deg, kmax=kmax, recip_lattice=R.tolist(), k_vector_cartesian=not red, finite_diff_dk=h, **desc)
        d1 = lambda z: ham.der_cart(np.array(z, dtype=float), 1, J)
        d2 = lambda z: ham.der_cart(np.array(z, dtype=float), 2, J)
        d3 = lambda z: ham.der_cart(np.array(z, dtype=float), 3, J)
        try:
            T = measure_T(lambda pham: quiet_call(SystemKP, pham, kmax=None, recip_lattice=R, k_vector_cartesian=True, finite_diff_dk=h))
            d1p = lambda z: d1(z) + np.einsum("abcd,ijbcd->ija", T, d3(z)) / 6.0
            systems = dict(fd=mk(), ana=mk(derHam=d1, der2Ham=d2, der3Ham=d3), fd2=mk(hh=h / 2))
            if kind != "smooth":
                systems.update(pred=mk(derHam=d1p, der2Ham=d2, der3Ham=d3))
                # mixed modes: the missing derivatives are finite differences of the ANALYTIC lower one, exact for degree <= 3
                systems.update(mix1=mk(derHam=d1), mix2=mk(derHam=d1, der2Ham=d2))
        except Exception as ex:  # noqa
            rep.violation("raises:SystemKP:" + type(ex).__name__, dict(base, error=repr(ex)[:300]))
            continue
        done = 0
        for _ in range(40):
            if done >= 2:
                break
            k = np.array([rng.randint(-20, 20) / 128.0 for _ in range(3)])
            z = k if red else k @ R
            E = np.linalg.eigvalsh(ham(z))
            if nbgap(E) < 0.3:
                continue
            rr = {}
            try:
                for nm, ss in systems.items():
                    r = quiet_call(wb.evaluate_k, ss, k=k, calculators=calcs())
                    rr[nm] = {kk: np.array(v.data) for kk, v in r.items()}
            except Exception as ex:  # noqa
                rep.violation("raises:evaluate_k:" + type(ex).__name__, dict(base, k_red=k.tolist(), error=repr(ex)[:300]))
                break
            rep.case(("evaluate_k", ic, tuple(k)))
            ncmp += 1
            done += 1
            for kk in rr["fd"]:
                scale = max(1.0, np.abs(rr["ana"][kk]).max())
                da = np.abs(rr["fd"][kk] - rr["ana"][kk]).max() / scale
                da2 = np.abs(rr["fd2"][kk] - rr["ana"][kk]).max() / scale
                info = dict(base, calculator=kk, k_red=k.tolist())
                if "pred" in rr:
                    dp = np.abs(rr["fd"][kk] - rr["pred"][kk]).max() / scale
                    worst["pred"] = max(worst["pred"], dp)
                    if dp > TOLP:
                        rep.violation("evaluate_k:fd_vs_predicted:" + kk, dict(info, deviation=dp, what="Ham-only system differs from the system with "
                                      "analytic derivatives + the finite-difference error term measured on the same lattice"))
                    for mm in ("mix1", "mix2"):
                        dm = np.abs(rr[mm][kk] - rr["ana"][kk]).max() / scale
                        worst["mixed"] = max(worst["mixed"], dm)
                        if dm > TOLP:
                            rep.violation(f"evaluate_k:{mm}_vs_analytic:" + kk,
                                          dict(info, deviation=dm, what="system with analytic derHam" + (" and der2Ham" if mm == "mix2" else "") +
                                               " and numerical higher derivatives differs from the fully analytic one (exact for degree <= 3)"))
                if deg is not None and deg <= 2:
                    worst["quad"] = max(worst["quad"], da)
                    if da > TOLP:
                        rep.violation("evaluate_k:fd_vs_analytic_quadratic:" + kk, dict(info, deviation=da))
                else:
                    nm = "cubic" if deg is not None else "smooth"
                    worst[nm] = max(worst[nm], da)
                    # to finite-difference accuracy: O(h^2) with a constant of the size of the (dimensionless) step squared ...
                    cbound = 1e4 * h * h * max(1.0, lsc * lsc)
                    per_case[ic] = max(per_case.get(ic, 0.0), float(da / cbound))
                    if da > cbound:
                        rep.violation("evaluate_k:fd_vs_analytic:bound:" + kk, dict(info, deviation=da, bound=cbound))
                    # ... and halving the step divides the deviation by 4
                    if da > 1e-6 and da2 > 1e-7:
                        ratios.append(da / da2)
                        if not 3.0 < da / da2 < 5.0:
                            rep.violation("evaluate_k:h2_scaling:" + kk, dict(info, deviation_h=da, deviation_half_h=da2, ratio=da / da2))
    if not rep.violations and (ncmp < len(cases) or worst["cubic"] == 0.0 or not ratios):
        raise MachineryError("no evaluate_k comparison was made (all k-points on degeneracies?) or no h^2 ratio could be formed")
    rep.part("numeric_only_evaluate_k", worst_relative_deviation=worst, tolerance_sharp=TOLP, bound="1e4 h^2 max(1, |recip_lattice|^2)", worst_deviation_over_bound_per_case={str(k): v for k, v in per_case.items()},
             h2_scaling_ratios=dict(n=len(ratios), min=min(ratios) if ratios else None, max=max(ratios) if ratios else None, required="3 < r < 5"),
             cases=[c["kind"] + ("/red" if c["red"] else "") + (f"/deg{c['deg']}" if c["deg"] else "") for c in cases],
             note="calculators: Energy, Velocity, BerryCurvature, InvMass, DerBerryCurvature, Der3E; 'pred' = analytic derivatives + (h^2/6) T:d^3 H "
                  "with T measured; mix1 / mix2 = analytic derHam (and der2Ham), numerical rest")

    # --- (2) run(): integrated quantities on a grid, Ham only vs predicted vs analytic
    ham = PolyHam([(1 * S0, (2, 0, 0)), (2 * S0, (0, 2, 0)), (1 * S0, (0, 0, 2)), (SX, (1, 0, 0)), (SY, (0, 1, 0)), (SZ, (0, 0, 1)),
                   (SZ, (1, 1, 1)), (2 * SZ, (0, 0, 0)), (SX, (0, 2, 1)), (SY, (3, 0, 0)), (SX, (0, 0, 3))])
    kmax, h = 1.0, 2.0 ** -7
    J = np.eye(3)
    d1 = lambda z: ham.der_cart(np.array(z, dtype=float), 1, J)
    d2 = lambda z: ham.der_cart(np.array(z, dtype=float), 2, J)
    d3 = lambda z: ham.der_cart(np.array(z, dtype=float), 3, J)
    wdir = workdir(scratch.name("c31_run"))
    try:
        T = measure_T(lambda pham: quiet_call(SystemKP, pham, kmax=kmax, finite_diff_dk=h))
        d1p = lambda z: d1(z) + np.einsum("abcd,ijbcd->ija", T, d3(z)) / 6.0
        systems = dict(fd=quiet_call(SystemKP, ham, kmax=kmax, finite_diff_dk=h),
                       pred=quiet_call(SystemKP, ham, kmax=kmax, finite_diff_dk=h, derHam=d1p, der2Ham=d2, der3Ham=d3),
                       ana=quiet_call(SystemKP, ham, kmax=kmax, finite_diff_dk=h, derHam=d1, der2Ham=d2, der3Ham=d3))
        Ef = np.array([-1.0, 0.5, 2.0])
        res = {}
        for nm, ss in systems.items():
            grid = quiet_call(wb.Grid, ss, NK=3, NKFFT=1)   # odd: no k-point on the boundary of the box, where the model is discontinuous
            cc = dict(ahc=calc.static.AHC(Efermi=Ef), ohmic=calc.static.Ohmic_FermiSea(Efermi=Ef), dos=calc.static.DOS(Efermi=Ef),
                      bdip=calc.static.BerryDipole_FermiSea(Efermi=Ef))
            r = quiet_call(wb.run, ss, grid=grid, calculators=cc, adpt_num_iter=0, parallel=False, use_irred_kpt=False, symmetrize=False,
                           fout_name=os.path.join(wdir, "res"))
            res[nm] = {kk: np.array(v.data) for kk, v in r.results.items()}
            rep.case(("run", nm))
        wr = dict(pred=0.0, ana=0.0)
        for kk in res["fd"]:
            scale = max(1e-3, np.abs(res["ana"][kk]).max())
            dp = np.abs(res["fd"][kk] - res["pred"][kk]).max() / scale
            da = np.abs(res["fd"][kk] - res["ana"][kk]).max() / scale
            wr["pred"] = max(wr["pred"], dp)
            wr["ana"] = max(wr["ana"], da)
            if dp > 1e-5:
                rep.violation("run:fd_vs_predicted:" + kk, dict(deviation=dp, calculator=kk, kmax=kmax, finite_diff_dk=h))
            if da > 0.05:
                rep.violation("run:fd_vs_analytic:" + kk, dict(deviation=da, calculator=kk, kmax=kmax, finite_diff_dk=h))
        rep.part("numeric_only_run", worst_relative_deviation=wr, tolerance_sharp=1e-5, tolerance_analytic=0.05,
                 calculators=["AHC", "Ohmic_FermiSea", "DOS", "BerryDipole_FermiSea"], grid="NK=3, NKFFT=1")
    except Exception as ex:  # noqa
        if isinstance(ex, (MachineryError, OSError, ImportError)):
            raise
        import traceback
        rep.violation("raises:run:" + type(ex).__name__, dict(error=repr(ex)[:300], kmax=kmax, finite_diff_dk=h,
                                                              traceback=traceback.format_exc()[-1500:]))
    finally:
        shutil.rmtree(wdir, ignore_errors=True)

    # --- (3) default finite_diff_dk (not exactly representable) and lattices without an integer basis (hexagonal, c/a = sqrt 2):
    #         derivative accuracy against analytic + the measured error term
    wd = dict(d1=0.0, d2=0.0, d3=0.0)
    hexl = np.array([[1.0, 0.0, 0.0], [-0.5, np.sqrt(3) / 2, 0.0], [0.0, 0.0, np.sqrt(1.5)]])
    hex60 = np.array([[1.0, 0.0, 0.0], [0.5, np.sqrt(3) / 2, 0.0], [0.0, 0.0, np.sqrt(2.5)]])
    tets2 = np.diag([1.0, 1.0, np.sqrt(2.0)])
    setups = [dict(name="default_dk", kw=dict(kmax=1.0), R=np.eye(3) * 2.0, tol=(1e-7, 1e-3, 2.0)),
              dict(name="default_dk", kw=dict(kmax=2.0), R=np.eye(3) * 4.0, tol=(1e-7, 1e-3, 2.0)),
              dict(name="hex", kw=dict(kmax=None, recip_lattice=hexl, finite_diff_dk=2.0 ** -6), R=hexl, tol=(1e-7, 1e-6, 1e-5)),
              dict(name="hex60", kw=dict(kmax=None, recip_lattice=hex60 * 1.5, finite_diff_dk=2.0 ** -7), R=hex60 * 1.5, tol=(1e-7, 1e-6, 1e-5)),
              dict(name="tetraS2", kw=dict(kmax=None, recip_lattice=tets2, finite_diff_dk=2.0 ** -6), R=tets2, tol=(1e-7, 1e-6, 1e-5))]
    if thorough:
        setups += [dict(name="default_dk", kw=dict(kmax=1.5), R=np.eye(3) * 3.0, tol=(1e-7, 1e-3, 2.0)),
                   dict(name="hex", kw=dict(kmax=None, recip_lattice=hexl * 0.75, finite_diff_dk=2.0 ** -5, k_vector_cartesian=False), R=hexl * 0.75,
                        tol=(1e-7, 1e-6, 1e-5), red=True)]
    rows = []
    for su in setups:
        ham = random_poly(rng, 2, 3, 5)
        R = su["R"]
        redc = su.get("red", False)
        k = np.array([0.11, -0.07, 0.05])
        z = k if redc else k @ R
        Jc = np.linalg.inv(R) if redc else np.eye(3)
        rep.case(("irrational_setup", su["name"], float(R[2, 2])))
        info = dict(setup=su["name"], recip_lattice=R.tolist(), terms=[(C.tolist(), e) for C, e in ham.terms],
                    options={kk: (v.tolist() if isinstance(v, np.ndarray) else v) for kk, v in su["kw"].items()})
        try:
            ss = quiet_call(SystemKP, ham, **su["kw"])
            kwp = dict(su["kw"])
            kwp["k_vector_cartesian"] = True
            T = measure_T(lambda pham: quiet_call(SystemKP, pham, **kwp))
            g = [np.array(ss.derHam(k)), np.array(ss.der2Ham(k)), np.array(ss.der3Ham(k))]
        except Exception as ex:  # noqa
            rep.violation("raises:SystemKP:" + type(ex).__name__, dict(info, error=repr(ex)[:300]))
            continue
        a1, a2, a3 = (ham.der_cart(z, o, Jc) for o in (1, 2, 3))
        e1 = np.einsum("abcd,ijbcd->ija", T, a3) / 6.0
        dv = [np.abs(g[0] - a1 - e1).max(), np.abs(g[1] - a2).max(), np.abs(g[2] - a3).max()]
        rows.append(dict(setup=su["name"], deviations=[float(x) for x in dv]))
        for nm, v, tol in zip(("d1", "d2", "d3"), dv, su["tol"]):
            if su["name"] == "default_dk":
                wd[nm] = max(wd[nm], v)
            if v > tol:
                rep.violation(f"SystemKP:{su['name']}:{nm}", dict(info, deviation=float(v), tolerance=tol))
    rep.part("numeric_only_default_dk_and_irrational_lattices", rows=rows, worst_deviation_default_dk=wd,
             tolerances=dict(default_dk=(1e-7, 1e-3, 2.0), irrational=(1e-7, 1e-6, 1e-5)),
             note="rounding noise grows like eps/h^n: the third derivative with the default h = 1e-4 is only accurate to ~1e-5..1e-4 relative")

    # --- (3b) seeded random triclinic reciprocal lattices; the harness-side mirror of the shell procedure says which of them have a
    #          negative shell weight (drawn until enough of those are found): derivatives exact on quadratics, h^2 law on cubics
    want_neg, want_pos = (4, 2) if thorough else (2, 1)
    chosen = []
    ndraw = 0
    while (sum(c[1] for c in chosen) < want_neg or sum(not c[1] for c in chosen) < want_pos) and ndraw < 400:
        ndraw += 1
        B = np.eye(3) + 0.4 * np.array([[rng.gauss(0, 1) for _ in range(3)] for _ in range(3)])
        if abs(np.linalg.det(B)) < 0.3:
            continue
        w = mirror_shell_weights(B)
        if w is None or np.abs(w).min() < 1e-4:
            continue                      # no stencil in the box / a weight too close to zero to be classified
        neg = bool(w.min() < 0)
        if sum(c[1] == neg for c in chosen) < (want_neg if neg else want_pos):
            chosen.append((B, neg, w))
    if sum(c[1] for c in chosen) < want_neg:
        raise MachineryError(f"only {sum(c[1] for c in chosen)} random triclinic lattices with a negative shell weight in {ndraw} draws")
    tri_rows = []
    for B, neg, w in chosen:
        hq = 2.0 ** -6
        k = np.array([0.11, -0.07, 0.05])
        z = k @ B
        hq2 = random_poly(rng, 2, 2, 5)
        hc3 = random_poly(rng, 2, 3, 5)
        info = dict(recip_lattice=B.tolist(), finite_diff_dk=hq, k_red=k.tolist(), negative_shell_weight_expected=neg, mirror_weights=[float(x) for x in w],
                    quadratic=[(C.tolist(), e) for C, e in hq2.terms], cubic=[(C.tolist(), e) for C, e in hc3.terms])
        rep.case(("random_triclinic", neg, round(float(B[0, 0]), 9)))
        try:
            s2 = quiet_call(SystemKP, hq2, kmax=None, recip_lattice=B, finite_diff_dk=hq)
            s3 = quiet_call(SystemKP, hc3, kmax=None, recip_lattice=B, finite_diff_dk=hq)
            s3h = quiet_call(SystemKP, hc3, kmax=None, recip_lattice=B, finite_diff_dk=hq / 2)
            g2 = [np.array(s2.derHam(k)), np.array(s2.der2Ham(k)), np.array(s2.der3Ham(k))]
            g3 = [np.array(s3.derHam(k)), np.array(s3.der2Ham(k)), np.array(s3.der3Ham(k))]
            g3h = np.array(s3h.derHam(k))
        except Exception as ex:  # noqa
            rep.violation("raises:SystemKP:" + type(ex).__name__, dict(info, error=repr(ex)[:300]))
            continue
        I3 = np.eye(3)
        a2 = [hq2.der_cart(z, o, I3) for o in (1, 2, 3)]
        a3 = [hc3.der_cart(z, o, I3) for o in (1, 2, 3)]
        dq = [float(np.abs(g - a).max() / max(1.0, np.abs(a).max())) for g, a in zip(g2, a2)]
        dc = [float(np.abs(g - a).max() / max(1.0, np.abs(a).max())) for g, a in zip(g3, a3)]
        eh, eh2 = float(np.abs(g3[0] - a3[0]).max()), float(np.abs(g3h - a3[0]).max())
        tri_rows.append(dict(negative_shell_weight=neg, quadratic_dev=dq, cubic_dev=dc, derHam_error_h=eh, derHam_error_half_h=eh2))
        for nm, v, tol in zip(("derHam", "der2Ham", "der3Ham"), dq, (1e-9, 1e-7, 1e-5)):
            if v > tol:
                rep.violation(f"SystemKP:random_triclinic:{nm}:quadratic", dict(info, deviation=v, tolerance=tol,
                                                                                 what="the numerical derivative of a quadratic Hamiltonian is not exact"))
        for nm, v, tol in zip(("der2Ham", "der3Ham"), dc[1:], (1e-7, 1e-5)):
            if v > tol:
                rep.violation(f"SystemKP:random_triclinic:{nm}:cubic", dict(info, deviation=v, tolerance=tol))
        if eh > 1e-7 and eh2 > 1e-8 and not 3.0 < eh / eh2 < 5.0:
            rep.violation("SystemKP:random_triclinic:h2_scaling", dict(info, error_h=eh, error_half_h=eh2, ratio=eh / eh2))
        if eh > 1e4 * hq * hq * max(1.0, float(np.abs(a3[2]).max())):
            rep.violation("SystemKP:random_triclinic:derHam:bound", dict(info, error_h=eh))
    rep.part("numeric_only_random_triclinic", lattices=len(chosen), with_negative_shell_weight=sum(c[1] for c in chosen), draws=ndraw, rows=tri_rows,
             tolerances=dict(quadratic=(1e-9, 1e-7, 1e-5), ratio="3 < e(h)/e(h/2) < 5"),
             note="which lattices have a negative shell weight is decided by a harness-side mirror of the shell procedure, not by the code under test")

    # --- (4) the stencil must not depend on the length scale: a complete stencil must be found for every scale of the basis
    scale_rows = []
    if find_shells is not None:
        for lat in ("cubic", "bcc", "mono"):
            if lat not in cat:
                continue
            A = np.array(cat[lat]["A"], dtype=float)
            for sc in (1.0, 1e-2, 1e-3, 3e-4, 1e-4, 3e-5, 1e-5):
                rep.case(("find_shells_scale", lat, sc))
                try:
                    wk, bki = quiet_call(find_shells, A * sc)
                    wk, bki = np.array(wk, dtype=float), np.array(bki)
                    comp = float(np.abs(np.einsum("b,ba,bc->ac", wk, bki @ (A * sc), bki @ (A * sc)) - np.eye(3)).max())
                    scale_rows.append(dict(lattice=lat, scale=sc, vectors=len(wk), completeness_dev=comp))
                    if comp > 1e-8:
                        rep.violation("find_shells:incomplete", dict(lattice=lat, basis=(A * sc).tolist(), deviation=comp))
                except Exception as ex:  # noqa
                    scale_rows.append(dict(lattice=lat, scale=sc, raised=repr(ex)[:80]))
                    rep.violation("find_shells:length_scale",
                                  dict(what="find_shells fails on a small basis although the stencil is scale free (regression of the repaired "
                                            "absolute-threshold defect: SystemKP could not be constructed with finite_diff_dk * |recip_lattice| < ~1e-4)",
                                       lattice=lat, basis=(A * sc).tolist(), error=repr(ex)[:200]))
    for kmax in (0.05, 0.02):
        rep.case(("SystemKP_small_kmax", kmax))
        try:
            quiet_call(SystemKP, PolyHam([(np.array([[1]]), (2, 0, 0))]), kmax=kmax)
            scale_rows.append(dict(SystemKP_kmax=kmax, constructed=True))
        except Exception as ex:  # noqa
            scale_rows.append(dict(SystemKP_kmax=kmax, raised=repr(ex)[:80]))
            rep.violation("find_shells:length_scale", dict(what="SystemKP(Ham, kmax) with the default finite_diff_dk cannot be constructed",
                                                           kmax=kmax, error=repr(ex)[:200]))
    rep.part("numeric_only_length_scale", rows=scale_rows)


def nbgap(E):
    return float(np.min(np.diff(E))) if len(E) > 1 else 1.0
