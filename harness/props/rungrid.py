"""C10, C11, C12 (+ the refinement-history half of C06): RunGrid.tla checked by TLC, behaviours replayed on the real
run(), traces of the real run() validated by TLC against RunGridTrace.tla (strict level = the code as it is, reported as
information; property level = what the property statements need, decides violations)."""
import os
import random
import shutil
import json
import glob
import copy
import time
from collections import Counter
from concurrent.futures import ThreadPoolExecutor

from .. import tlc
from ..common import Report, MachineryError, workdir, seed, WORK
from ..rungrid_world import Geometry, GROUP_TLA, GROUPS, Priority
from .. import rungrid_scripts as RS
from .. import rungrid_trace as RT

PROPS = {
    "C10": dict(level='model_checking', technique='TLC exhaustive on RunGrid.tla + TLC trace validation of real run() executions (hook events) + replay of TLC simulate behaviours',
               text='TLC explores the refinement choices, storage modes (memory, dump_results, discarded), symmetry settings and (1-D configs) iteration orders of the configurations listed in the evidence file and checks IntegralConsistent / WeightOne / SavedWeightOne on every state; the same invariants are evaluated by TLC on every state of traces recorded from the real run() (scenarios derived from TLC behaviours and seeded random ones). On the property level the K-point list of the implementation is compared with the specification up to order and choice of orbit representatives, and the weights, the coefficients of the running integral after every update, every saved file, the value at the Return hook and the object returned by run() are compared exactly; the strict level (same list, flags, files, orders) is reported as information only. Large lists (32x32, six refinement levels): the projected weight/coefficient vectors of every update are compared by TLC (RunGridSummaryRec).',
               note='trusts: the one-hot abstraction of per-K results (one calculator, rank 0, identity symmetry transform), the projection functions in harness/rungrid_world.py, the hook commit in run_grid.py, TLC; bounded to the listed geometries (1-D/2-D, isotropic adpt_mesh 2 or 3, adpt_fac 1 or 2, <= 3 iterations; 6 in the large worlds)', ref='DESIGN.md 3.1'),
    "C11": dict(level='model_checking', technique='TLC exhaustive A/B product (uninterrupted vs stopped+restarted run) on RunGrid.tla + trace validation of real stop/restart executions with permuted directory listings',
               text='RestartEquivalence is checked by TLC over all stopping points, splits, storage modes, restart_iteration values and listing permutations inside the constants (2 iterations in the quick tier, 3 in the thorough tier); real run() calls are stopped and restarted along TLC-generated and random scenarios (at most 4 restart steps) with a shim that permutes what glob / os.listdir / os.scandir return inside run_grid (the number of restarts in which the implementation actually consulted a permuted listing is reported in parts.listing_shim), and TLC validates the recorded traces including equality of every saved/returned result with the uninterrupted reference and the start iteration of each restart. ResumeLatest / PickleAppendOnly / FactorFilesGrow are properties of the TLC model; on real traces the restart files are compared on the strict level only (information).',
               note='trusts: same as C10 plus the listing shim (only permutes the real listing); restarts happen in the same process; going back (restart_iteration < -1 or explicit) is exercised with symmetry only (without symmetry the later points are re-created, not re-used: outside the model)', ref='DESIGN.md 3.1'),
    "C12": dict(level='model_checking', technique='TLC exhaustive over completion orders and ray.wait answers on RunGrid.tla + trace validation of the real process() under a schedule-controlled ray double (pass-by-value) + numeric serial-vs-parallel comparison with real calculators (numeric_only part)',
               text='CollectedOnce / AllCollected / IntegralConsistent are checked by TLC for every interleaving of completions and every contract-conforming ray.wait answer (5 tasks / 2 per wait, 4 tasks / 1 per wait, one refinement iteration; 6 tasks in the thorough tier); the unmodified process() is driven through TLC-generated and random schedules by a ray double that pickles arguments and results like ray, and its traces are validated (property level: every selected K-point collected exactly once in any order, coefficients of the running integral). The tabulation half of the statement (grid / path order, each point its own values) has no TLA+ model: it is a numeric comparison serial vs parallel with real calculators, reported as parts.numeric_only.',
               note='trusts: the ray double follows the documented ray.wait contract (checked against real ray only in the thorough tier: one smoke run); evidence level of the tabulation half is exploration', ref='DESIGN.md 3.1'),
}

INVS_ALL = ["TypeOK", "NoError", "WeightOne", "NoEquivDup", "OrbitWeight", "DistinctStoragePaths", "Tiling", "IntegralConsistent",
            "SavedWeightOne", "ReturnedWeightOne", "CollectedOnce", "AllCollected", "RestartEquivalence"]

WORKERS = int(os.environ.get("VERIF_TLC_WORKERS", "16"))
POOL = max(1, int(os.environ.get("VERIF_TLC_POOL", str(WORKERS // 4))))   # concurrent single-worker TLC runs (simulate, traces)
EXH_POOL = max(1, WORKERS // 4)                                          # concurrent exhaustive TLC runs ...
EXH_WORKERS = max(1, WORKERS // EXH_POOL)                                # ... with that many workers each

SERIAL_ACTS = ["MBeginProcess", "MEvalSerial", "MEndSerial", "MAppendPickle", "MUpdateFirst", "MUpdateIncr", "MSaveData", "MReturn"]
PAR_ACTS = ["MBeginProcess", "MComplete", "MWaitFull", "MWaitTimeout", "MCollect", "MEndCollect", "MAppendPickle", "MUpdateFirst",
            "MUpdateIncr", "MSaveData", "MReturn"]
RUN_ACTIONS = ["StartA", "RefineA"] + SERIAL_ACTS
B_ACTIONS = ["EndA", "StartB", "RestartBLatest", "RefineB"]


class Ctx:
    """one check run: report, scratch names unique per property id and process, counters"""

    def __init__(self, pid, tier):
        self.pid, self.tier = pid, tier
        self.thorough = tier == "thorough"
        self.rep = Report(pid, tier, "model_checking")
        self.tag = f"{pid}_{os.getpid()}"
        self.classes = Counter()
        self.skipped_private = []
        self.soft_missing = set()
        self.repr_diff = Counter()
        self.listing = Counter()
        self.ray_fallbacks = 0
        self.traces_off = False
        self.cpu0 = os.times()
        self.t0 = time.time()
        self.phases = {}
        self.bg = ThreadPoolExecutor(max_workers=1)   # the TLC part of the binding self-test
        self.selftest = None

    def mark(self, name):
        """wall-clock seconds since the start of the check at which a phase ended"""
        self.phases[name] = round(time.time() - self.t0, 1)

    def wd(self, name):
        return workdir(f"rg_{self.tag}_{name}")

    def tname(self, name):
        return f"{self.tag}_{name}"

    def cleanup(self, failed=False):
        """scratch of this run; after a violation / failure the inputs and outputs of the trace validation (and of a TLC
        run that found a violation of the model itself) stay for replay"""
        keep = bool(self.rep.violations) or failed
        spec_viol = failed or any(k.startswith("spec:") for k, _ in self.rep.violations)
        pats = [os.path.join(WORK, f"rg_{self.tag}_*"), os.path.join(WORK, "records", f"{self.tag}_*"),
                os.path.join(WORK, "records", f"rec_{self.tag}_*")]
        if not keep:
            pats += [os.path.join(WORK, "tlc", f"*{self.tag}_*"), os.path.join(WORK, "traces", f"{self.tag}_*")]
        elif not spec_viol:
            pats += [os.path.join(WORK, "tlc", f"{self.tag}_*"), os.path.join(WORK, "tlc", f"rec_{self.tag}_*")]
        for p in pats:
            for d in glob.glob(p):
                shutil.rmtree(d, ignore_errors=True)

    def note_world(self, w):
        self.soft_missing |= set(w.soft_missing)
        self.listing["restarts_with_permuted_listing"] += w.listing_restarts
        self.listing["listing_consulted_by_implementation"] += w.listing_consulted
        self.ray_fallbacks += w.ray_fallbacks

    def cpu(self):
        t = os.times()
        return round((t.user + t.system + t.children_user + t.children_system)
                     - (self.cpu0.user + self.cpu0.system + self.cpu0.children_user + self.cpu0.children_system), 1)


def bset(vals):
    return "{" + ", ".join("TRUE" if v else "FALSE" for v in vals) + "}"


def mc_cfg(geo, nstep=2, niter=2, adptfac=1, parA=(False,), parB=(False,), dump=(False, True), allowA=(False, True),
           sym=(True, False), withB=True, allorders=True, acc=True, sorted_listing=True, waitfirst=False, view=True,
           restart_iters=(1,), maxleg=9, firstleg=9, allowargB=(True, False),
           invs=INVS_ALL, props=("PickleAppendOnly", "FactorFilesGrow", "ResumeLatest")):
    lines = ["SPECIFICATION MCSpec", "CONSTANTS",
             f"  D = {geo.D}", f"  N = {geo.N}", f"  NDIV = {geo.NDIV}", f"  LMAX = {geo.LMAX}",
             f"  Group <- {GROUP_TLA[geo.group]}", f"  NSTEP = {nstep}",
             f"  Accumulate = {'TRUE' if acc else 'FALSE'}", f"  SortedListing = {'TRUE' if sorted_listing else 'FALSE'}",
             f"  WaitFirstN = {'TRUE' if waitfirst else 'FALSE'}",
             f"  CellSymmetric = {'FALSE' if GROUPS[geo.group].get('hex') else 'TRUE'}", f"  NITER = {niter}", f"  AdptFac = {adptfac}",
             f"  ParA = {bset(parA)}", f"  ParB = {bset(parB)}", f"  DumpSet = {bset(dump)}", f"  AllowASet = {bset(allowA)}",
             f"  SymSet = {bset(sym)}", f"  WithB = {'TRUE' if withB else 'FALSE'}",
             f"  AllOrders = {'TRUE' if allorders else 'FALSE'}",
             "  RestartIters = {" + ", ".join(str(r) for r in restart_iters) + "}", f"  MaxLeg = {maxleg}",
             f"  FirstLegMax = {firstleg}", f"  AllowArgB = {bset(allowargB)}"]
    if view:
        lines.append("VIEW mcview")
    lines += [f"INVARIANT {i}" for i in invs]
    lines += [f"PROPERTY {p}" for p in props]
    lines.append("CHECK_DEADLOCK FALSE")
    return "\n".join(lines) + "\n"


class Exhaustive:
    """the exhaustive TLC runs of a check: started in the background (they are independent of everything else), reported
    in the order in which they were submitted"""

    def __init__(self, ctx):
        self.ctx = ctx
        self.pool = ThreadPoolExecutor(max_workers=EXH_POOL)
        self.jobs = []

    def submit(self, name, cfg, must_hold=True, timeout=6000, expect_actions=()):
        fut = self.pool.submit(tlc.run_tlc, "MC_RunGrid.tla", cfg, self.ctx.tname(name), workers=EXH_WORKERS, timeout=timeout)
        self.jobs.append((name, fut, must_hold, expect_actions))

    def collect(self):
        rep = self.ctx.rep
        jobs, self.jobs = self.jobs, []
        for name, fut, must_hold, expect_actions in jobs:
            st = fut.result()
            if st.get("timeout"):
                raise MachineryError(f"TLC timed out on {name}")
            if st.get("error") and not st.get("violation"):
                raise MachineryError(f"TLC error on {name}: {st['error'][:400]}")
            if must_hold:
                if st["violation"]:
                    rep.violation(f"spec:{name}:{st['violation'][1]}",
                                  dict(what="TLC found a violation in the specification model", config=name, violated=st["violation"],
                                       tlc_out=os.path.join(st["meta"], "tlc.out")))
                else:
                    tlc.check_not_vacuous(st, expect_actions, name)
                rep.add_tlc(name, st)
            else:
                # sensitivity / reachability self-test: the model must violate the property
                if not st["violation"]:
                    raise MachineryError(f"self-test failed: {name} should violate an invariant but TLC found none")
                rep.part(name, expected_violation=st["violation"][1], distinct=st["distinct"])

    def shutdown(self):
        for _, fut, _, _ in self.jobs:
            fut.cancel()
        self.pool.shutdown(wait=True)


def simulate_scripts(ctx, geo, cfg, name, num, depth, sd):
    simdir = ctx.wd("sim_" + name)
    st = tlc.run_tlc("MC_RunGrid.tla", cfg, ctx.tname("sim_" + name), workers=1, coverage=False, timeout=1800,
                     simulate=f"file={simdir}/tr,num={num}", depth=depth, seed=sd)
    if st.get("violation"):
        ctx.rep.violation(f"spec:sim_{name}:{st['violation'][1]}",
                          dict(what="TLC -simulate found a violation in the specification model", config=name,
                               violated=st["violation"], tlc_out=os.path.join(st["meta"], "tlc.out")))
        shutil.rmtree(simdir, ignore_errors=True)
        return st, []
    if st.get("error"):
        raise MachineryError(f"TLC simulate error on {name}: {st['error'][:400]}")
    behs = RS.load_behaviours(simdir)
    shutil.rmtree(simdir, ignore_errors=True)
    scripts = [RS.script_from_behaviour(b) for b in behs]
    scripts = [s for s in scripts if any(o["op"] == "run" for o in s)]
    if not scripts:
        raise MachineryError(f"TLC simulate produced no usable behaviour for {name} (timeout={st.get('timeout')})")
    return st, scripts


def summarize_ops(ops):
    out = []
    for o in ops:
        if o["op"] == "markref":
            out.append("MarkRef")
        else:
            m = o["mode"]
            out.append(dict(run="restart" if o["restart"] else "fresh", nit=o["nit"], ri=o.get("ri", -1),
                            mode="".join(k[0] for k in ("par", "dump", "allow", "sym") if m[k]), allow_arg=o.get("allow_arg"),
                            listing=o.get("listing"), refine=[[list(c[0]) + [c[1]] for c in cs] for _, cs in o.get("refine", [])],
                            sched={str(k): v for k, v in o.get("sched", {}).items()}))
    return out


class Batch:
    """collects traces per (geometry, nstep) and validates them together; turns what went wrong while a scenario was
    executed into violations (the package raised / a projected value is off the lattice) or into a degradation (private
    names gone)"""

    def __init__(self, ctx):
        self.ctx = ctx
        self.rep = ctx.rep
        self.groups = {}

    def add(self, geo, nstep, world, trace, info, classes=()):
        ctx = self.ctx
        ctx.note_world(world)
        cut = len(trace)
        for e in world.errors:
            self.rep.violation(f"raises:{e['site']}:{e['type']}",
                               dict(what="run() raised on a scenario of the specification", error=e["text"], traceback=e["traceback"],
                                    geometry=geo.key(), nstep=nstep, scenario=info, events_before=[x.get("e") for x in trace[:e["at_event"]]][-6:]))
            cut = min(cut, e["at_event"])
        if world.problems:
            at, text = world.problems[0]
            self.rep.violation("projection:nonintegral",
                               dict(what="a K-point coordinate, weight or coefficient of the implementation is not on the lattice of the "
                                         "geometry (weights are multiples of 1/WTOT, one-hot rows agree)", problem=text,
                                    all_problems=[t for _, t in world.problems[:5]], geometry=geo.key(), nstep=nstep, scenario=info,
                                    events_before=[x.get("e") for x in trace[:at]][-6:]))
            cut = min(cut, at)
        if world.private_gone:
            ctx.skipped_private += [p for p in world.private_gone if p not in ctx.skipped_private]
            return False
        trace = trace[:cut]
        if not trace:
            return False
        for c in classes:
            ctx.classes[c] += 1
        g = self.groups.setdefault((geo.key(), nstep), (geo, [], []))
        g[1].append(trace)
        g[2].append(info)
        return True

    CHUNK = 8    # traces per TLC run (several runs side by side)

    def validate(self, name):
        ctx = self.ctx
        if ctx.selftest is not None:     # the verdict of the binding self-test comes first
            st, ctx.selftest = ctx.selftest, None
            st()
        jobs = []
        for (gk, nstep), (geo, traces, infos) in self.groups.items():
            nm = f"{name}_{'_'.join(str(x) for x in gk)}_{nstep}"
            nchunk = max(1, -(-len(traces) // self.CHUNK)) if POOL > 1 else 1
            size = -(-len(traces) // nchunk)
            for c in range(nchunk):
                jobs.append((nm if nchunk == 1 else f"{nm}_{c}", geo, nstep, traces[c * size:(c + 1) * size], infos[c * size:(c + 1) * size], gk))
        jobs.sort(key=lambda j: -sum(len(t) for t in j[3]))     # longest first

        def work(job):
            nm, geo, nstep, traces, infos, gk = job
            return RT.validate(traces, geo, nstep, ctx.tname(nm))
        if POOL > 1 and len(jobs) > 1:
            with ThreadPoolExecutor(max_workers=POOL) as ex:
                results = list(ex.map(work, jobs))
        else:
            results = [work(j) for j in jobs]
        for (nm, geo, nstep, traces, infos, gk), (stats, verdicts) in zip(jobs, results):
            tot = dict(distinct=sum(s.get("distinct", 0) for s in stats), generated=sum(s.get("generated", 0) for s in stats),
                       wall_s=round(sum(s.get("wall_s", 0) for s in stats), 2), mode="trace-validation", depth=max([s.get("depth", 0) for s in stats] or [0]))
            self.rep.add_tlc("trace_" + nm, tot)
            self.rep.add_traces(len(traces))
            for tr, info, v in zip(traces, infos, verdicts):
                if not v["ok"]:
                    key = f"trace:{v.get('clause', '?')}"
                    t2 = v.get("trace", tr)
                    self.rep.violation(key, dict(why=v["why"], level=v.get("level"), geometry=gk, nstep=nstep, scenario=info,
                                                 trace_prefix=t2[:v["at"] + 1][-4:]))
                elif v.get("repr"):
                    r = v["repr"]
                    ctx.repr_diff[f"{r.get('event')}:{r.get('clause') or 'not enabled'}"] += 1
        self.groups = {}


def run_scripts(ctx, batch, geo, scripts, name, adpt_fac=1, ncpu=2, origin="tlc-behaviour"):
    rep = ctx.rep
    wd = ctx.wd(name)
    for i, ops in enumerate(scripts):
        if not any(o["op"] == "run" for o in ops):
            continue
        ev, errs, w = RS.execute(ops, geo, os.path.join(wd, f"s{i}"), adpt_fac=adpt_fac, ncpu=ncpu)
        info = dict(origin=origin, ops=summarize_ops(ops), adpt_fac=adpt_fac, ncpu=ncpu)
        if w.skipped_ops:
            info["ops_not_executed"] = w.skipped_ops
        batch.add(geo, ncpu, w, ev, info, classes={origin} | RS.classes_of(info["ops"], w))
        rep.case((geo.key(), json.dumps(info["ops"], sort_keys=True, default=str)))
        rep.sample(dict(geometry=geo.key(), scenario=info["ops"], events=len(ev)), limit=3)
    shutil.rmtree(wd, ignore_errors=True)


def run_random(ctx, batch, geo, rng, n, niter, name, adpt_fac=1, ncpu=2, allow_par=True, first_dump_noallow_zero=False):
    wd = ctx.wd("r_" + name)
    for i in range(n):
        ev, errs, w, summary = RS.execute_random(geo, os.path.join(wd, f"r{i}"), rng, niter, adpt_fac=adpt_fac, ncpu=ncpu,
                                                 allow_par=allow_par, dump_noallow_zero=(first_dump_noallow_zero and i == 0))
        info = dict(origin="random", ops=summary, adpt_fac=adpt_fac, ncpu=ncpu, seed=seed(), index=i)
        batch.add(geo, ncpu, w, ev, info, classes={"random"} | RS.classes_of(summary, w))
        ctx.rep.case((geo.key(), "random", i, seed(), name))
    shutil.rmtree(wd, ignore_errors=True)


def star_of(geo, cell):
    out = set()
    for a, b, c, d in GROUPS[geo.group]["mats"]:
        out.add(((a * cell[0] + b * cell[1]) % geo.U, (c * cell[0] + d * cell[1]) % geo.U))
    return out


def swap_representative(trace, geo):
    """a copy of the trace in which one K-point created by the first refinement is replaced, everywhere, by another
    member of its star (what an implementation with another valid tie-break would report); None if there is none"""
    tr = copy.deepcopy(trace)
    j = None
    new = None
    for e in tr:
        if j is None and e.get("e") == "Refine":
            for idx in range(e.get("nkprev", len(e["kl"])), len(e["kl"])):
                c = (e["kl"][idx][0], e["kl"][idx][1])
                others = sorted(star_of(geo, c) - {c})
                if others:
                    j, new = idx, others[0]
                    break
        if j is not None:
            for lst in (e.get("kl"), (e.get("disk") or {}).get("pick")):
                if lst is not None and len(lst) > j:
                    lst[j][0], lst[j][1] = new[0], new[1]
    return tr if j is not None else None


def selftest_binding(ctx, geo):
    """the binding must be able to reject (corrupt one logged coefficient, duplicate one evaluation) and the property
    level must not reject what the properties leave free (a dropped loop event, another orbit representative).
    The scenario is executed here; TLC validates the five traces in the background (ctx.selftest gives the verdict)."""
    ops = [dict(op="run", restart=False, mode=dict(par=False, dump=False, allow=True, sym=True), nit=1, refine=[], sched={})]
    ev, errs, w = RS.execute(ops, geo, os.path.join(ctx.wd("selftest"), "s"))
    ctx.note_world(w)
    if w.private_gone:
        ctx.skipped_private += w.private_gone
        ctx.traces_off = True
        return
    if errs or w.problems or w.errors:
        # run() fails on the simplest scenario: that is a finding about run(), not about the binding
        Batch(ctx).add(geo, 2, w, ev, dict(origin="selftest scenario", ops=summarize_ops(ops)))
        return
    i1 = next((i for i, e in enumerate(ev) if e["e"] == "Eval" and e.get("k") == 1), None)
    if i1 is None or not any(e["e"] == "UpdateIntegral" and e.get("coef") for e in ev):
        ctx.skipped_private.append("hook events Eval / UpdateIntegral of the simplest run")
        ctx.traces_off = True
        return
    bad1 = copy.deepcopy(ev)
    for e in bad1:
        if e["e"] == "UpdateIntegral":
            e["coef"]["coef"][0] += 1
            break
    bad2 = [e for e in ev if not (e["e"] == "Eval" and e.get("k") == 1)]
    bad3 = ev[:i1 + 1] + [copy.deepcopy(ev[i1])] + ev[i1 + 1:]
    swapped = swap_representative(ev, geo)
    traces = [ev, bad1, bad2, bad3] + ([swapped] if swapped is not None else [])
    fut = ctx.bg.submit(RT.validate, traces, geo, 2, ctx.tname("selftest"))
    ctx.selftest = lambda: _selftest_verdict(ctx, geo, ops, ev, swapped, fut.result())


def _selftest_verdict(ctx, geo, ops, ev, swapped, result):
    rep = ctx.rep
    stats, v = result
    # (on a tree whose internals differ from the model of the code the good trace itself is only accepted on the
    # property level: that is information, not a failure of the binding)
    if not v[0]["ok"]:
        # the real run() of the simplest scenario is rejected on the property level: a finding, not a binding failure
        rep.violation(f"trace:{v[0].get('clause', '?')}", dict(why=v[0]["why"], level=v[0].get("level"), geometry=geo.key(), nstep=2,
                                                               scenario=dict(origin="selftest scenario", ops=summarize_ops(ops)),
                                                               trace_prefix=v[0].get("trace", ev)[:v[0]["at"] + 1][-4:]))
        return
    ok = (not v[1]["ok"] and v[2]["ok"] and not v[3]["ok"] and (swapped is None or v[4]["ok"]))
    if not ok:
        raise MachineryError(f"binding self-test failed: {[dict(ok=x['ok'], level=x.get('level'), why=x['why']) for x in v]}")
    if v[0].get("repr"):
        r = v[0]["repr"]
        ctx.repr_diff[f"{r.get('event')}:{r.get('clause') or 'not enabled'}"] += 1
    rep.part("binding_selftest", good_accepted_on_level=v[0]["level"], corrupted_coefficient_rejected=v[1]["why"],
             duplicated_evaluation_rejected=v[3]["why"],
             dropped_loop_event=f"accepted on the {v[2]['level']} level" + (" (rejected on the strict level)" if v[2]["level"] == "property" else ""),
             other_orbit_representative=(f"accepted on the {v[4]['level']} level (rejected on the strict level)" if swapped is not None else "not applicable"))


def large_worlds(ctx, rng):
    """C10 where weights and weight changes are tiny (1e-3 .. 2e-7): deep refinement on a 32x32 grid; the projected
    weight / coefficient vectors of every UpdateIntegral / Return / returned object are compared by TLC
    (RunGridSummaryRec)"""
    from .. import ftable
    from ..rungrid_world import World
    rep = ctx.rep
    recs = []
    plans = [("c4", True, False), ("none", False, True)]
    if ctx.thorough:
        plans += [("none", False, False), ("c4v", True, True), ("mx", True, False), ("none", False, False)]
    wd = ctx.wd("large")
    nruns = 0
    for j, (group, sym, dump) in enumerate(plans):
        geo = Geometry(2, 32, 2, 6, group).use_registry(1500)
        sd = rng.randrange(1 << 30)
        w = World(geo, os.path.join(wd, f"w{j}"), priority=Priority("deep", salt=sd))
        res, err = w.run(6, allow=dump, dump=dump, sym=sym, adpt_fac=2, summary=True)
        ctx.note_world(w)
        for e in w.errors:
            rep.violation(f"raises:{e['site']}:{e['type']}", dict(what="run() raised in a large world", group=group, sym=sym, dump=dump,
                                                                    error=e["text"], traceback=e["traceback"]))
        if w.problems:
            rep.violation("projection:nonintegral", dict(what="large world", group=group, problems=[t for _, t in w.problems[:3]]))
        if w.private_gone:
            ctx.skipped_private += [p for p in w.private_gone if p not in ctx.skipped_private]
            continue
        evs = [e for e in w.events if "nonintegral" not in e]
        if w.errors or w.problems:
            continue
        minpos = min([min([x for x in e["facs"] if x > 0] or [geo.WTOT]) for e in evs] or [geo.WTOT])
        if not evs or minpos * 10 ** 6 > 3 * geo.WTOT:
            raise MachineryError("large world did not reach weights below 3e-6")
        for e in evs:
            e["world"] = j
            recs.append(e)
        nruns += 1
        rep.case(("large", group, sym, dump, sd))
        rep.part("large_worlds", **{f"smallest_weight_{j}": minpos / geo.WTOT, f"points_{j}": len(evs[-1]["facs"])})
    shutil.rmtree(wd, ignore_errors=True)
    if not recs:
        return
    if not any(e["e"] == "Returned" for e in recs):
        raise MachineryError("large worlds: the returned object was not recorded")
    st, bad = ftable.validate_records("RunGridSummaryRec.tla", ftable.REC_CFG, recs, ctx.tname("large"))
    rep.add_tlc("c10_large_records", st)
    rep.add_traces(nruns)
    for i, clauses in bad.items():
        r = recs[i]
        mism = [[k + 1, c, f] for k, (c, f) in enumerate(zip(r["coef"], r["facs"])) if c != f][:10]
        rep.violation("large_world:" + clauses[0], dict(event=r["e"], world=r["world"], failing_clauses=clauses, wtot=r["wtot"],
                                                         sum_weights=sum(r["facs"]), sum_coefficients=sum(r["coef"]), stray=r["stray"],
                                                         first_mismatches_index_coef_weight=mism))
    rep.part("large_worlds", runs=nruns, records=len(recs))


GEOS = {
    "1d_inv": Geometry(1, 4, 2, 2, "inv"),
    "1d_inv3": Geometry(1, 3, 3, 2, "inv"),
    "1d_none": Geometry(1, 3, 2, 2, "none"),
    "2d_c4": Geometry(2, 2, 2, 2, "c4"),
    "2d_c4v": Geometry(2, 2, 2, 2, "c4v"),
    "2d_mx": Geometry(2, 2, 2, 1, "mx"),
    "1d_inv6": Geometry(1, 6, 2, 3, "inv"),
    "2d_c4_4": Geometry(2, 4, 2, 2, "c4"),
    "1d_one": Geometry(1, 1, 2, 3, "inv"),      # a single initial K-point of weight exactly one
    "2d_one": Geometry(2, 1, 2, 2, "c4"),
    "2d_h3": Geometry(2, 3, 3, 3, "h3"),        # hexagonal: children of different parents can be equivalent
    "2d_h3m": Geometry(2, 3, 3, 3, "h3m"),
}


def simulate_all(ctx, plan):
    """plan: list of (key, geo, cfg, num, depth) -> {key: scripts}; the TLC -simulate runs are single-threaded, several
    run side by side"""
    def work(p):
        key, geo, cfg, num, depth = p
        return key, simulate_scripts(ctx, geo, cfg, key, num, depth, seed() + 1)[1]
    if POOL > 1 and len(plan) > 1:
        with ThreadPoolExecutor(max_workers=POOL) as ex:
            return dict(ex.map(work, plan))
    return dict(work(p) for p in plan)


def require_classes(ctx, needed):
    missing = [c for c in needed if ctx.classes[c] == 0]
    if missing and not ctx.skipped_private and not ctx.rep.violations:
        raise MachineryError(f"scenario classes never executed on the real code: {missing} (executed: {dict(ctx.classes)})")


def check(pid, tier):
    ctx = Ctx(pid, tier)
    rep = ctx.rep
    failed = False
    try:
        _check(ctx)
        _finish_parts(ctx)
    except Exception:
        failed = True
        if rep.violations:
            try:
                _finish_parts(ctx)
                rep.finish()
            except Exception:
                pass
        raise
    finally:
        try:
            ctx.cleanup(failed)
        except Exception:
            pass
    return rep.finish()


def _finish_parts(ctx):
    rep = ctx.rep
    if ctx.skipped_private:
        rep.part("skipped_private", names=ctx.skipped_private[:10],
                 effect="trace validation of the real run() skipped for the scenarios that needed these private names")
    if ctx.soft_missing:
        rep.part("skipped_private", optional=sorted(ctx.soft_missing)[:10])
    if ctx.repr_diff:
        rep.part("representation_differences", note="traces rejected on the strict level (model of the code as it is) and accepted on "
                 "the property level: not violations", by_event_and_field=dict(ctx.repr_diff))
    rep.part("scenario_classes", **{k: v for k, v in sorted(ctx.classes.items())})
    if ctx.pid == "C11" or ctx.listing["restarts_with_permuted_listing"]:
        rep.part("listing_shim", **dict(ctx.listing),
                 note="0 consulted: the implementation does not list the restart directory through glob/os.listdir/os.scandir of "
                      "run_grid; the clause 'independent of the listing order' is then exercised by TLC only")
    if ctx.ray_fallbacks:
        rep.part("ray_double", scripted_answers_replaced_by_fifo=ctx.ray_fallbacks)
    rep.part("cpu", cpu_seconds_including_tlc=ctx.cpu(), tlc_workers=WORKERS, pool=POOL, phase_ended_at_wall_s=ctx.phases)


def _check(ctx):
    ex = Exhaustive(ctx)
    try:
        _check_body(ctx, ex)
        if ctx.selftest is not None:
            st, ctx.selftest = ctx.selftest, None
            st()
        ctx.mark("foreground_done")
        ex.collect()
        ctx.mark("exhaustive_collected")
    finally:
        ex.shutdown()
        ctx.bg.shutdown(wait=True)


def _check_body(ctx, ex):
    pid, rep, thorough = ctx.pid, ctx.rep, ctx.thorough
    rng = random.Random(seed() * 1000003 + {"C10": 10, "C11": 11, "C12": 12}[pid])
    batch = Batch(ctx)
    g1 = GEOS["1d_inv"]
    rep.assume("ray.wait follows its documented contract (at most num_returns ready refs; on timeout whatever is ready)")
    rep.assume("per-K results are abstracted to one-hot vectors, refinement choices are forced through result magnitudes "
               "(tie-free: ties in the refinement criterion are excluded, which of two tied points is refined is not defined)")
    rep.assume("restart_iteration going back is exercised with use_irred_kpt=True only (without symmetry run() re-creates "
               "the later K-points instead of re-using them)")
    rep.rule("TLC: exhaustive exploration of MC_RunGrid within the listed constants; implementation: scenario scripts "
             "(TLC simulate behaviours + seeded random) executed on the real run(), hook events validated by TLC "
             "against RunGridTrace (strict level first; traces it rejects are decided on the property level); a case is "
             "distinct by (geometry, scenario)")
    mult = 6 if thorough else 1

    if pid == "C10":
        # all storage modes, refinement meshes, adpt_fac, symmetry settings; no restart
        ex.submit("c10_1d", mc_cfg(g1, niter=2, adptfac=1, withB=False), expect_actions=RUN_ACTIONS)
        ex.submit("c10_1d_fac2", mc_cfg(g1, niter=2, adptfac=2, withB=False, allorders=thorough), expect_actions=RUN_ACTIONS)
        ex.submit("c10_1d_ndiv3", mc_cfg(GEOS["1d_inv3"], niter=2, adptfac=1, withB=False), expect_actions=RUN_ACTIONS)
        ex.submit("c10_2d_c4", mc_cfg(GEOS["2d_c4"], niter=2, adptfac=1, withB=False, allowA=(False,), dump=(False,)),
                  expect_actions=RUN_ACTIONS)
        ex.submit("c10_1d_one", mc_cfg(GEOS["1d_one"], niter=3, adptfac=1, withB=False), expect_actions=RUN_ACTIONS)
        ex.submit("c10_2d_h3", mc_cfg(Geometry(2, 3, 3, 2, "h3"), niter=2, adptfac=1, withB=False, allowA=(True,), dump=(True,),
                                      sym=(True,), allorders=False), expect_actions=RUN_ACTIONS)
        # "discarded" storage mode: no refinement, nothing kept (adpt_num_iter = 0, no allow_restart)
        disc = dict(niter=0, adptfac=1, withB=False, allowA=(False,), dump=(False,), parA=(False, True))
        ex.submit("c10_discard", mc_cfg(g1, **disc),
                  expect_actions=["StartA", "MBeginProcess", "MEvalSerial", "MCollect", "MUpdateFirst", "MSaveData", "MReturn"])
        ex.submit("c10_discard_reached", mc_cfg(g1, invs=["NeverCleared"], props=(), **disc), must_hold=False)
        if thorough:
            ex.submit("c10_2d_c4v_fac2", mc_cfg(GEOS["2d_c4v"], niter=2, adptfac=2, withB=False, allorders=False),
                      expect_actions=RUN_ACTIONS, timeout=12000)
            ex.submit("c10_1d_n6", mc_cfg(GEOS["1d_inv6"], niter=3, adptfac=1, withB=False, allowA=(True,), dump=(False, True)),
                      expect_actions=RUN_ACTIONS, timeout=12000)
        selftest_binding(ctx, g1)
        ctx.mark("selftest")
        if ctx.traces_off:
            return
        plan = [("1d_inv", 1, 2, 6), ("1d_inv", 2, 2, 4), ("1d_inv3", 1, 2, 4), ("2d_c4", 1, 2, 4), ("1d_one", 1, 3, 4), ("2d_h3m", 2, 3, 4)]
        if thorough:
            plan += [("2d_c4v", 2, 2, 6), ("1d_none", 1, 2, 4), ("2d_one", 1, 2, 4), ("2d_h3", 1, 3, 4)]
        sims = []
        for gname, fac, niter, num in plan:
            geo = GEOS[gname]
            cfg = mc_cfg(geo, niter=niter, adptfac=fac, withB=False, parA=(False, True), view=False,
                         invs=["IntegralConsistent", "WeightOne"], props=(), allorders=False)
            sims.append((f"c10_{gname}_{fac}", geo, cfg, num * mult, 60 * (niter + 1)))
        scripts = simulate_all(ctx, sims)
        ctx.mark("simulate")
        for gname, fac, niter, num in plan:
            geo = GEOS[gname]
            run_scripts(ctx, batch, geo, scripts[f"c10_{gname}_{fac}"], f"c10_{gname}_{fac}", adpt_fac=fac)
            run_random(ctx, batch, geo, rng, max(2, num // 2) * mult, niter, f"c10_{gname}_{fac}", adpt_fac=fac)
        # the discarded mode on the real code (serial and parallel)
        for par in (False, True):
            for geo in (g1, GEOS["2d_c4"]):
                ops = [dict(op="run", restart=False, mode=dict(par=par, dump=False, allow=False, sym=True), nit=0, refine=[], sched={})]
                run_scripts(ctx, batch, geo, [ops], f"c10_discard_{geo.D}_{int(par)}", origin="fixed")
        ctx.mark("scenarios_on_real_code")
        batch.validate("c10")
        ctx.mark("trace_validation")
        large_worlds(ctx, rng)
        ctx.mark("large_worlds")
        require_classes(ctx, ["tlc-behaviour", "random", "dump", "parallel", "symmetry", "memory_only", "discarded", "restart"])

    elif pid == "C11":
        acts = RUN_ACTIONS + B_ACTIONS
        g2 = Geometry(1, 2, 2, 3, "inv")
        ex.submit("c11_1d", mc_cfg(g1, niter=2, adptfac=1, restart_iters=(0, 1, 2)), expect_actions=acts + ["RestartBBack"])
        ex.submit("c11_1d_v0", mc_cfg(g1, niter=2, adptfac=1, sorted_listing=False), must_hold=False)
        # three iterations in legs of at most one iteration: at least two successive restarts
        ex.submit("c11_legs", mc_cfg(g2, niter=3, adptfac=1, allowA=(True,), sym=(True,), dump=(False, True), allorders=False,
                                     maxleg=1, restart_iters=(1, 2)), expect_actions=acts + ["RestartBBack"])
        # dump_results without the argument allow_restart, first leg of zero refinement iterations, then restart(s)
        ex.submit("c11_free", mc_cfg(g1, niter=2, adptfac=1, allowA=(True,), sym=(True,), dump=(True,), allorders=False, firstleg=0,
                                     allowargB=(False,), restart_iters=(1, 2)), expect_actions=acts)
        if thorough:
            ex.submit("c11_1d_fac2", mc_cfg(g1, niter=2, adptfac=2, allorders=False, allowA=(True,)), expect_actions=acts)
            ex.submit("c11_1d_3it", mc_cfg(GEOS["1d_inv6"], niter=3, adptfac=1, allowA=(True,), sym=(True,)),
                      expect_actions=acts, timeout=12000)
            ex.submit("c11_2d_c4", mc_cfg(GEOS["2d_c4"], niter=2, adptfac=1, allowA=(True,), sym=(True,), dump=(False, True)),
                      expect_actions=acts, timeout=12000)
        selftest_binding(ctx, g1)
        if ctx.traces_off:
            return
        # (geometry, adpt_fac, iterations, behaviours, MaxLeg)
        # (geometry, adpt_fac, iterations, behaviours, MaxLeg, extra constants)
        # "free": dump_results without allow_restart, first leg stopped right after iteration 0, then restart(s)
        free = dict(dump=(True,), firstleg=0, allowargB=(False,), sym=(True,))
        plan = [("1d_inv", 1, 2, 8, 9, {}), ("2d_c4", 1, 2, 4, 9, {}), ("1d_inv6", 1, 3, 6, 1, {}), ("1d_inv", 1, 2, 4, 9, free)]
        if thorough:
            plan += [("1d_inv", 2, 2, 6, 9, {}), ("1d_inv6", 1, 3, 6, 9, {})]
        sims = []
        for gname, fac, niter, num, maxleg, extra in plan:
            geo = GEOS[gname]
            cfg = mc_cfg(geo, niter=niter, adptfac=fac, view=False, invs=["RestartEquivalence"], props=(), allorders=False,
                         restart_iters=(0, 1, 1, 2), maxleg=maxleg, **extra)
            sims.append((f"c11_{gname}_{fac}_{maxleg}{'_free' if extra else ''}", geo, cfg, num * mult, 80 * (niter + 1)))
        scripts = simulate_all(ctx, sims)
        for gname, fac, niter, num, maxleg, extra in plan:
            geo = GEOS[gname]
            key = f"c11_{gname}_{fac}_{maxleg}{'_free' if extra else ''}"
            run_scripts(ctx, batch, geo, scripts[key], key, adpt_fac=fac)
            run_random(ctx, batch, geo, rng, (num // 2) * mult, niter, key, adpt_fac=fac, allow_par=False, first_dump_noallow_zero=True)
        ctx.mark("scenarios_on_real_code")
        batch.validate("c11")
        ctx.mark("trace_validation")
        require_classes(ctx, ["tlc-behaviour", "random", "restart", "two_restarts", "listing_permuted", "restart_back_or_explicit", "dump",
                              "dump_without_allow_zero_first_leg_then_restart"])

    elif pid == "C12":
        gp = Geometry(1, 5, 2, 1, "none")
        acts = ["StartA", "RefineA"] + PAR_ACTS
        par1 = dict(niter=1, parA=(True,), dump=(False,), allowA=(False,), sym=(False,), withB=False, allorders=False)
        ex.submit("c12_n5", mc_cfg(gp, nstep=2, **par1), expect_actions=acts)
        ex.submit("c12_n5_first", mc_cfg(gp, nstep=2, waitfirst=True, **par1), expect_actions=acts)
        ex.submit("c12_n5_v0", mc_cfg(gp, nstep=2, acc=False, **par1), must_hold=False)
        ex.submit("c12_n4_dump", mc_cfg(g1, nstep=1, niter=1, parA=(True,), dump=(True, False), allowA=(True,), sym=(True,),
                                        withB=False), expect_actions=acts)
        if thorough:
            g6 = Geometry(1, 6, 2, 1, "none")
            ex.submit("c12_n6_s2", mc_cfg(g6, nstep=2, **par1), expect_actions=acts, timeout=12000)
            ex.submit("c12_n6_s3", mc_cfg(g6, nstep=3, **par1), expect_actions=acts, timeout=12000)
        selftest_binding(ctx, g1)
        if not ctx.traces_off:
            plan = [(gp, 2, 1, 8), (Geometry(1, 6, 2, 1, "none"), 3, 1, 4), (g1, 1, 2, 4)]
            if thorough:
                plan += [(GEOS["2d_c4"], 2, 2, 6)]
            sims = []
            for j, (geo, ncpu, niter, num) in enumerate(plan):
                cfg = mc_cfg(geo, nstep=ncpu, niter=niter, parA=(True,), parB=(True,), withB=False, view=False,
                             invs=["CollectedOnce", "IntegralConsistent"], props=(), allorders=False, sym=(geo.group != "none",))
                sims.append((f"c12_{j}", geo, cfg, num * mult, 100))
            scripts = simulate_all(ctx, sims)
            for j, (geo, ncpu, niter, num) in enumerate(plan):
                run_scripts(ctx, batch, geo, scripts[f"c12_{j}"], f"c12_{j}", ncpu=ncpu)
                # random schedules (both ray.wait answer policies), parallel forced
                wd = ctx.wd(f"p_{j}")
                for i in range(num * mult):
                    w = RS.World(geo, os.path.join(wd, f"r{i}"), priority=Priority("random", salt=rng.randrange(1 << 30)))
                    d = rng.random() < 0.3
                    m = dict(par=True, dump=d, allow=d or rng.random() < 0.5, sym=geo.group != "none")
                    res, err = w.run(niter, parallel=True, dump=m["dump"], allow=m["allow"], sym=m["sym"],
                                     schedule=RS.random_schedule(rng, first_n=(i % 2 == 0)), ncpu=ncpu)
                    batch.add(geo, ncpu, w, w.events, dict(origin="random-schedule", index=i, seed=seed(), ncpu=ncpu, mode=m, nit=niter),
                              classes={"random-schedule", "parallel"} | ({"dump"} if d else set()))
                    w.geo.release()
                    rep.case((geo.key(), "randsched", j, i, seed()))
                shutil.rmtree(wd, ignore_errors=True)
            ctx.mark("scenarios_on_real_code")
            batch.validate("c12")
            ctx.mark("trace_validation")
            require_classes(ctx, ["tlc-behaviour", "random-schedule", "parallel", "dump"])
        from . import rungrid_par_tab
        rungrid_par_tab.check(rep, rng, thorough, tag=ctx.tag)
        ctx.mark("numeric_only")
